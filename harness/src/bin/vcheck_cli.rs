use vcheck::core;
use vcheck::props;

#[global_allocator]
static GLOBAL: core::alloc_guard::Guard = core::alloc_guard::Guard;

fn main() {
    core::main_with(&props::cli())
}
