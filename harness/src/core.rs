//! Core of the verification harness: seeded proptest runner, classification
//! counters, distinct non-trivial case tracking, samples, replay files,
//! known-findings matching, panic capture, allocation guard, process sharding
//! and the evidence writer.
use std::cell::{Cell, RefCell};
use std::collections::hash_map::DefaultHasher;
use std::collections::{BTreeMap, BTreeSet};
use std::fmt::Debug;
use std::hash::{Hash, Hasher};
use std::panic::{self, AssertUnwindSafe};
use std::path::{Path, PathBuf};
use std::sync::atomic::{AtomicBool, AtomicI32, AtomicUsize, Ordering};
use std::time::Instant;

use proptest::strategy::{Strategy, ValueTree};
use proptest::test_runner::{Config, RngSeed, TestCaseError, TestError, TestRunner};
use serde::de::DeserializeOwned;
use serde::{Deserialize, Serialize};
use serde_json::{json, Value};

/// Root directory for evidence, replays and known findings (`VERIF_DIR`, default `/verif`).
pub fn verif_dir() -> PathBuf {
    PathBuf::from(std::env::var("VERIF_DIR").unwrap_or_else(|_| "/verif".to_string()))
}

// ---------------------------------------------------------------------------
// Allocation guard (C13/C14): a counting global allocator.
// ---------------------------------------------------------------------------

pub mod alloc_guard {
    use super::*;
    use std::alloc::{GlobalAlloc, Layout, System};

    pub struct Guard;

    /// Largest single request seen while measuring.
    pub static MAX_REQ: AtomicUsize = AtomicUsize::new(0);
    /// Measuring on/off (only the thread running a guarded call sets it).
    pub static MEASURE: AtomicBool = AtomicBool::new(false);
    /// Requests at or above this size, while measuring, terminate the process
    /// with exit code 77 after dumping the current case to `TRIP_FD`.
    pub static TRIP_LIMIT: AtomicUsize = AtomicUsize::new(usize::MAX);
    pub static TRIP_FD: AtomicI32 = AtomicI32::new(-1);
    pub static CUR_PTR: AtomicUsize = AtomicUsize::new(0);
    pub static CUR_LEN: AtomicUsize = AtomicUsize::new(0);

    #[inline]
    fn note(size: usize) {
        if MEASURE.load(Ordering::Relaxed) {
            MAX_REQ.fetch_max(size, Ordering::Relaxed);
            if size >= TRIP_LIMIT.load(Ordering::Relaxed) {
                trip(size);
            }
        }
    }

    #[cold]
    fn trip(size: usize) -> ! {
        extern "C" {
            fn write(fd: i32, buf: *const u8, n: usize) -> isize;
            fn _exit(code: i32) -> !;
        }
        unsafe {
            let fd = TRIP_FD.load(Ordering::Relaxed);
            if fd >= 0 {
                let sz = (size as u64).to_le_bytes();
                write(fd, sz.as_ptr(), 8);
                let p = CUR_PTR.load(Ordering::Relaxed) as *const u8;
                let n = CUR_LEN.load(Ordering::Relaxed);
                if !p.is_null() && n > 0 {
                    write(fd, p, n);
                }
            }
            _exit(77)
        }
    }

    unsafe impl GlobalAlloc for Guard {
        unsafe fn alloc(&self, l: Layout) -> *mut u8 {
            note(l.size());
            System.alloc(l)
        }
        unsafe fn alloc_zeroed(&self, l: Layout) -> *mut u8 {
            note(l.size());
            System.alloc_zeroed(l)
        }
        unsafe fn dealloc(&self, p: *mut u8, l: Layout) {
            System.dealloc(p, l)
        }
        unsafe fn realloc(&self, p: *mut u8, l: Layout, n: usize) -> *mut u8 {
            note(n);
            System.realloc(p, l, n)
        }
    }

    /// Run `f` and return the largest single allocation request made during it.
    /// `case` is what is dumped if the trip limit is hit (the process exits 77).
    pub fn measure<R>(case: &[u8], f: impl FnOnce() -> R) -> (R, usize) {
        CUR_PTR.store(case.as_ptr() as usize, Ordering::Relaxed);
        CUR_LEN.store(case.len(), Ordering::Relaxed);
        MAX_REQ.store(0, Ordering::Relaxed);
        MEASURE.store(true, Ordering::SeqCst);
        let r = f();
        MEASURE.store(false, Ordering::SeqCst);
        CUR_LEN.store(0, Ordering::Relaxed);
        (r, MAX_REQ.load(Ordering::Relaxed))
    }
}

// ---------------------------------------------------------------------------
// Panic capture
// ---------------------------------------------------------------------------

thread_local! {
    static LAST_PANIC: RefCell<Option<(String, String)>> = const { RefCell::new(None) };
    static QUIET: Cell<bool> = const { Cell::new(false) };
}

pub fn install_panic_hook() {
    let default = panic::take_hook();
    panic::set_hook(Box::new(move |info| {
        let loc = info
            .location()
            .map(|l| format!("{}:{}", l.file(), l.line()))
            .unwrap_or_else(|| "?".into());
        let msg = if let Some(s) = info.payload().downcast_ref::<&str>() {
            s.to_string()
        } else if let Some(s) = info.payload().downcast_ref::<String>() {
            s.clone()
        } else {
            "<non-string panic>".into()
        };
        LAST_PANIC.with(|p| *p.borrow_mut() = Some((loc, msg)));
        if !QUIET.with(|q| q.get()) {
            default(info);
        }
    }));
}

/// Run `f`, turning a panic into `Err((location, message))`.
pub fn catch<R>(f: impl FnOnce() -> R) -> Result<R, (String, String)> {
    let prev = QUIET.with(|q| q.replace(true));
    LAST_PANIC.with(|p| *p.borrow_mut() = None);
    let r = panic::catch_unwind(AssertUnwindSafe(f));
    QUIET.with(|q| q.set(prev));
    match r {
        Ok(v) => Ok(v),
        Err(_) => Err(LAST_PANIC
            .with(|p| p.borrow_mut().take())
            .unwrap_or_else(|| ("?".into(), "?".into()))),
    }
}

/// Strip a leading `/repo/` and the line number from a location so that panic
/// signatures survive unrelated edits.
pub fn loc_file(loc: &str) -> String {
    let l = loc.strip_prefix("/repo/").unwrap_or(loc);
    l.rsplit_once(':').map(|(f, _)| f).unwrap_or(l).to_string()
}

// ---------------------------------------------------------------------------
// Failures, known findings
// ---------------------------------------------------------------------------

#[derive(Debug, Clone)]
pub struct Fail {
    /// Stable signature: oracle clause + minimal shape (not the payload).
    pub sig: String,
    pub msg: String,
}

pub type CaseResult = Result<(), Fail>;

pub fn fail<T>(sig: impl Into<String>, msg: impl Into<String>) -> Result<T, Fail> {
    Err(Fail { sig: sig.into(), msg: msg.into() })
}

#[macro_export]
macro_rules! ensure {
    ($cond:expr, $sig:expr, $($fmt:tt)*) => {
        if !($cond) {
            return Err($crate::core::Fail { sig: ($sig).to_string(), msg: format!($($fmt)*) });
        }
    };
}

#[derive(Debug, Clone, Deserialize)]
pub struct Finding {
    pub property: String,
    pub signature: String,
    pub status: String, // "known" | "fixed"
    #[serde(default)]
    pub commit: Option<String>,
    pub what: String,
}

pub fn load_findings() -> Vec<Finding> {
    let p = verif_dir().join("known_findings.json");
    match std::fs::read_to_string(&p) {
        Ok(s) => {
            let v: Value = serde_json::from_str(&s).expect("known_findings.json parses");
            serde_json::from_value(v["findings"].clone()).expect("known_findings.json shape")
        }
        Err(_) => vec![],
    }
}

// ---------------------------------------------------------------------------
// Context
// ---------------------------------------------------------------------------

#[derive(Clone, Copy, PartialEq, Eq, Debug)]
pub enum Tier {
    Quick,
    Thorough,
}

impl Tier {
    pub fn name(&self) -> &'static str {
        match self {
            Tier::Quick => "quick",
            Tier::Thorough => "thorough",
        }
    }
}

#[derive(Debug, Default, Serialize, Deserialize, Clone)]
pub struct ViolationRec {
    pub sub: String,
    pub sig: String,
    pub msg: String,
    pub replay: String,
}

#[derive(Debug, Default, Serialize, Deserialize)]
pub struct Partial {
    pub evaluations: u64,
    pub counters: BTreeMap<String, u64>,
    pub hashes: BTreeSet<u64>,
    pub samples: Vec<Value>,
    pub violations: Vec<ViolationRec>,
    pub known_hits: BTreeMap<String, u64>,
    pub exhaustive_subs: Vec<String>,
    pub subs: BTreeMap<String, u64>,
    pub notes: Vec<String>,
}

pub struct Ctx {
    pub id: String,
    pub tier: Tier,
    pub seed: u64,
    pub shard: usize,
    pub nshards: usize,
    pub replay: RefCell<Option<(String, Value)>>,
    /// strict mode (explicit --replay): known findings are not tolerated as "pass".
    pub strict: Cell<bool>,
    /// when replaying a committed regression file: its path (reported as the replay)
    pub regress_path: RefCell<Option<String>>,
    pub findings: Vec<Finding>,
    pub part: RefCell<Partial>,
    counting: Cell<bool>,
    max_samples: usize,
}

pub fn mix(mut x: u64) -> u64 {
    x = x.wrapping_add(0x9E3779B97F4A7C15);
    x = (x ^ (x >> 30)).wrapping_mul(0xBF58476D1CE4E5B9);
    x = (x ^ (x >> 27)).wrapping_mul(0x94D049BB133111EB);
    x ^ (x >> 31)
}

pub fn hash_of<H: Hash + ?Sized>(h: &H) -> u64 {
    let mut s = DefaultHasher::new();
    h.hash(&mut s);
    s.finish()
}

impl Ctx {
    pub fn new(id: &str, tier: Tier, seed: u64, shard: usize, nshards: usize) -> Self {
        Ctx {
            id: id.to_string(),
            tier,
            seed,
            shard,
            nshards,
            replay: RefCell::new(None),
            strict: Cell::new(false),
            regress_path: RefCell::new(None),
            findings: load_findings(),
            part: RefCell::new(Partial::default()),
            counting: Cell::new(true),
            max_samples: 6,
        }
    }

    pub fn quick(&self) -> bool {
        self.tier == Tier::Quick
    }

    /// Total number of cases for a sub-check (across all shards) → this shard's share.
    pub fn cases(&self, quick: u64, thorough: u64) -> u32 {
        // Quick tiers of the cheap pure-function properties run a multiple of their nominal case counts
        // (they stay in the seconds range); never more than the thorough count.
        let scale = match self.id.as_str() {
            "C07" | "C08" | "C21" | "C23" => 10,
            "C17" | "C22" => 5,
            "C03" | "C20" => 4,
            _ => 1,
        };
        let total = if self.quick() { (quick * scale).min(thorough.max(quick)) } else { thorough };
        let base = total / self.nshards as u64;
        let extra = if (self.shard as u64) < total % self.nshards as u64 { 1 } else { 0 };
        (base + extra) as u32
    }

    /// Should this shard handle item `i` of an enumerated space?
    pub fn mine(&self, i: u64) -> bool {
        i % self.nshards as u64 == self.shard as u64
    }

    pub fn sub_seed(&self, sub: &str) -> u64 {
        mix(self.seed ^ mix(hash_of(&(self.id.as_str(), sub)) ^ mix(self.shard as u64)))
    }

    /// Classification counter.
    pub fn count(&self, label: &str) {
        if self.counting.get() {
            *self.part.borrow_mut().counters.entry(label.to_string()).or_insert(0) += 1;
        }
    }

    pub fn count_n(&self, label: &str, n: u64) {
        if self.counting.get() {
            *self.part.borrow_mut().counters.entry(label.to_string()).or_insert(0) += n;
        }
    }

    /// Record a non-trivial case (distinct by hash of `h`).
    pub fn nontrivial<H: Hash + ?Sized>(&self, h: &H) {
        if self.counting.get() {
            self.part.borrow_mut().hashes.insert(hash_of(h));
        }
    }

    /// Keep a sample of an actual case (bounded).
    pub fn sample(&self, sub: &str, v: impl Serialize) {
        if !self.counting.get() {
            return;
        }
        let mut p = self.part.borrow_mut();
        let n = p.samples.iter().filter(|s| s["sub"] == sub).count();
        if n < 2 && p.samples.len() < self.max_samples * 4 {
            let mut val = serde_json::to_value(v).unwrap_or(Value::Null);
            truncate_json(&mut val, 0);
            p.samples.push(json!({"sub": sub, "case": val}));
        }
    }

    pub fn note(&self, s: impl Into<String>) {
        self.part.borrow_mut().notes.push(s.into());
    }

    /// Is this signature listed as a known (unrepaired) finding of this property?
    pub fn is_known(&self, sig: &str) -> bool {
        self.known(sig).is_some()
    }

    fn known(&self, sig: &str) -> Option<&Finding> {
        self.findings
            .iter()
            .find(|f| f.property == self.id && f.status == "known" && sig_matches(&f.signature, sig))
    }

    /// Classify a check result: Ok → pass; known finding → pass (+counted);
    /// otherwise → failure.
    fn classify(&self, r: CaseResult) -> CaseResult {
        match r {
            Ok(()) => Ok(()),
            Err(f) => {
                if !self.strict.get() {
                    if let Some(k) = self.known(&f.sig) {
                        if self.counting.get() {
                            *self
                                .part
                                .borrow_mut()
                                .known_hits
                                .entry(format!("{} — {}", k.signature, k.what))
                                .or_insert(0) += 1;
                        }
                        return Ok(());
                    }
                }
                Err(f)
            }
        }
    }

    fn eval<T>(&self, f: &dyn Fn(&T) -> CaseResult, case: &T) -> CaseResult {
        let r = match catch(|| f(case)) {
            Ok(r) => r,
            Err((loc, msg)) => Err(Fail {
                sig: format!("panic@{}", loc_file(&loc)),
                msg: format!("panic at {loc}: {msg}"),
            }),
        };
        self.classify(r)
    }

    fn record_violation<T: Serialize>(&self, sub: &str, case: &T, f: &Fail) {
        let case_v = serde_json::to_value(case).unwrap_or(Value::Null);
        let h = hash_of(&serde_json::to_string(&case_v).unwrap_or_default());
        let path = if let Some(p) = self.regress_path.borrow().clone() {
            PathBuf::from(p)
        } else {
            let dir = verif_dir().join("replays/new");
            let _ = std::fs::create_dir_all(&dir);
            let path = dir.join(format!("{}-{}-{:016x}.json", self.id, sub, h));
            let doc = json!({
                "property": self.id, "sub": sub, "signature": f.sig, "message": f.msg, "case": case_v,
            });
            let _ = std::fs::write(&path, serde_json::to_string_pretty(&doc).unwrap());
            path
        };
        self.part.borrow_mut().violations.push(ViolationRec {
            sub: sub.to_string(),
            sig: f.sig.clone(),
            msg: f.msg.clone(),
            replay: path.display().to_string(),
        });
    }

    /// Run a generated sub-check: `cases` cases from `strategy`, shrinking the
    /// first failure to a minimal case and writing it as a replay file.
    pub fn run<T, S>(&self, sub: &str, strategy: S, cases: u32, f: impl Fn(&T) -> CaseResult)
    where
        S: Strategy<Value = T>,
        T: Debug + Serialize + DeserializeOwned,
    {
        let rp = self.replay.borrow().clone();
        if let Some((rsub, case)) = rp {
            if rsub == sub {
                let case: T = serde_json::from_value(case).expect("replay case deserializes");
                self.part.borrow_mut().evaluations += 1;
                self.count("replayed-regression-cases");
                if let Err(fl) = self.eval(&f, &case) {
                    self.record_violation(sub, &case, &fl);
                }
            }
            return;
        }
        if cases == 0 {
            return;
        }
        if self.part.borrow().violations.iter().any(|v| v.sub == sub) {
            return;
        }
        let config = Config {
            cases,
            failure_persistence: None,
            rng_seed: RngSeed::Fixed(self.sub_seed(sub)),
            max_shrink_iters: 200_000,
            max_shrink_time: 120_000,
            max_global_rejects: 65536,
            ..Config::default()
        };
        let mut runner = TestRunner::new(config);
        self.counting.set(true);
        let last_fail: RefCell<Option<Fail>> = RefCell::new(None);
        let result = runner.run(&strategy, |case| {
            if self.counting.get() {
                let mut p = self.part.borrow_mut();
                p.evaluations += 1;
                *p.subs.entry(sub.to_string()).or_insert(0) += 1;
            }
            match self.eval(&f, &case) {
                Ok(()) => Ok(()),
                Err(fl) => {
                    self.counting.set(false);
                    let m = fl.msg.clone();
                    *last_fail.borrow_mut() = Some(fl);
                    Err(TestCaseError::fail(m))
                }
            }
        });
        self.counting.set(true);
        match result {
            Ok(()) => {}
            Err(TestError::Fail(_, case)) => {
                // Re-evaluate the minimal case to get its own signature.
                self.counting.set(false);
                let fl = match self.eval(&f, &case) {
                    Err(fl) => fl,
                    Ok(()) => last_fail.borrow_mut().take().unwrap_or(Fail {
                        sig: "unstable".into(),
                        msg: "failure did not reproduce on the shrunk case".into(),
                    }),
                };
                self.counting.set(true);
                self.record_violation(sub, &case, &fl);
            }
            Err(TestError::Abort(reason)) => {
                self.note(format!("sub {sub}: generator aborted: {reason}"));
                eprintln!("HARNESS: sub {sub}: generator aborted: {reason}");
                std::process::exit(2);
            }
        }
    }

    /// Enumerate an explicit (finite) space. No shrinking: the failing element
    /// is the replay. `complete` says whether the whole space is covered by the
    /// union of shards in this tier.
    pub fn enumerate<T>(
        &self,
        sub: &str,
        items: impl Iterator<Item = T>,
        complete: bool,
        f: impl Fn(&T) -> CaseResult,
    ) where
        T: Debug + Serialize + DeserializeOwned,
    {
        let rp = self.replay.borrow().clone();
        if let Some((rsub, case)) = rp {
            if rsub == sub {
                let case: T = serde_json::from_value(case).expect("replay case deserializes");
                self.part.borrow_mut().evaluations += 1;
                self.count("replayed-regression-cases");
                if let Err(fl) = self.eval(&f, &case) {
                    self.record_violation(sub, &case, &fl);
                }
            }
            return;
        }
        let mut failed = false;
        for (i, item) in items.enumerate() {
            if !self.mine(i as u64) {
                continue;
            }
            {
                let mut p = self.part.borrow_mut();
                p.evaluations += 1;
                *p.subs.entry(sub.to_string()).or_insert(0) += 1;
            }
            if let Err(fl) = self.eval(&f, &item) {
                self.record_violation(sub, &item, &fl);
                failed = true;
                break;
            }
        }
        if complete && !failed {
            self.part.borrow_mut().exhaustive_subs.push(sub.to_string());
        }
    }

    /// Draw one value from a strategy deterministically (for world pools).
    pub fn draw<S: Strategy>(&self, tag: &str, strategy: &S) -> S::Value {
        let config = Config {
            failure_persistence: None,
            rng_seed: RngSeed::Fixed(self.sub_seed(tag)),
            ..Config::default()
        };
        let mut runner = TestRunner::new(config);
        strategy.new_tree(&mut runner).expect("draw").current()
    }
}

fn sig_matches(pattern: &str, sig: &str) -> bool {
    if let Some(p) = pattern.strip_suffix('*') {
        sig.starts_with(p)
    } else {
        pattern == sig
    }
}

fn truncate_json(v: &mut Value, depth: usize) {
    match v {
        Value::String(s) => {
            if s.len() > 300 {
                let mut cut = 300;
                while !s.is_char_boundary(cut) {
                    cut -= 1;
                }
                s.truncate(cut);
                s.push('…');
            }
        }
        Value::Array(a) => {
            let all_small_nums = a.iter().all(|x| x.is_number());
            let cap = if all_small_nums { 96 } else { 24 };
            if a.len() > cap {
                let n = a.len();
                a.truncate(cap);
                a.push(Value::String(format!("…({n} items)")));
            }
            for x in a.iter_mut() {
                truncate_json(x, depth + 1);
            }
        }
        Value::Object(o) => {
            for (_, x) in o.iter_mut() {
                truncate_json(x, depth + 1);
            }
        }
        _ => {}
    }
}

// ---------------------------------------------------------------------------
// Property registry entry
// ---------------------------------------------------------------------------

pub struct Prop {
    pub id: &'static str,
    /// Number of worker processes for (quick, thorough).
    pub shards: (usize, usize),
    pub level: &'static str,
    pub rule: &'static str,
    pub assumptions: &'static [&'static str],
    pub run: fn(&Ctx),
    /// Watchdog for the whole run (quick, thorough), seconds.
    pub budget_s: (u64, u64),
}

// ---------------------------------------------------------------------------
// Driver: parent (spawns shards, merges, writes evidence) and child.
// ---------------------------------------------------------------------------

pub struct Args {
    pub id: String,
    pub tier: Tier,
    pub shard: Option<(usize, usize)>,
    pub out: Option<PathBuf>,
    pub replay: Option<PathBuf>,
}

pub fn seed_from_env() -> u64 {
    std::env::var("VERIF_SEED").ok().and_then(|s| s.trim().parse::<u64>().ok()).unwrap_or(20260921)
}

pub fn child_main(prop: &Prop, args: &Args) -> i32 {
    install_panic_hook();
    let (shard, n) = args.shard.unwrap_or((0, 1));
    let ctx = Ctx::new(prop.id, args.tier, seed_from_env(), shard, n);
    let load = |rp: &Path| -> (String, Value) {
        let v: Value = serde_json::from_str(&std::fs::read_to_string(rp).expect("replay file readable"))
            .expect("replay file parses");
        (v["sub"].as_str().unwrap_or("").to_string(), v["case"].clone())
    };
    if let Some(rp) = &args.replay {
        *ctx.replay.borrow_mut() = Some(load(rp));
        ctx.strict.set(true);
    }
    // Trip-file for the allocation guard.
    if let Some(out) = &args.out {
        let trip = out.with_extension("trip");
        let _ = std::fs::remove_file(&trip);
        if let Ok(f) = std::fs::OpenOptions::new().create(true).write(true).open(&trip) {
            use std::os::fd::IntoRawFd;
            alloc_guard::TRIP_FD.store(f.into_raw_fd(), Ordering::Relaxed);
        }
    }
    // Regression tier: committed replay files are re-executed first (shard 0).
    if args.replay.is_none() && shard == 0 {
        let dir = verif_dir().join("replays/regress").join(prop.id);
        let mut files: Vec<PathBuf> = std::fs::read_dir(&dir)
            .map(|d| d.filter_map(|e| e.ok().map(|e| e.path())).filter(|p| p.extension().map(|x| x == "json").unwrap_or(false)).collect())
            .unwrap_or_default();
        files.sort();
        for f in files {
            *ctx.replay.borrow_mut() = Some(load(&f));
            *ctx.regress_path.borrow_mut() = Some(f.display().to_string());
            (prop.run)(&ctx);
        }
        *ctx.replay.borrow_mut() = None;
        *ctx.regress_path.borrow_mut() = None;
    }
    (prop.run)(&ctx);
    let part = ctx.part.into_inner();
    if let Some(out) = &args.out {
        std::fs::write(out, serde_json::to_vec(&part).unwrap()).expect("write partial");
        let trip = out.with_extension("trip");
        if std::fs::metadata(&trip).map(|m| m.len() == 0).unwrap_or(false) {
            let _ = std::fs::remove_file(&trip);
        }
        0
    } else {
        // replay / single process mode: report directly
        finish(prop, args.tier, seed_from_env(), vec![part], 0.0, args.replay.is_none())
    }
}

pub fn parent_main(prop: &Prop, args: &Args) -> i32 {
    let start = Instant::now();
    let seed = seed_from_env();
    let n = if args.tier == Tier::Quick { prop.shards.0 } else { prop.shards.1 };
    let budget = if args.tier == Tier::Quick { prop.budget_s.0 } else { prop.budget_s.1 };
    let dir = verif_dir().join(format!("target/shards/{}-{}", prop.id, std::process::id()));
    let _ = std::fs::remove_dir_all(&dir);
    std::fs::create_dir_all(&dir).expect("shard dir");
    let exe = std::env::current_exe().expect("current exe");
    let mut kids = vec![];
    for i in 0..n {
        let out = dir.join(format!("shard{i}.json"));
        let child = std::process::Command::new(&exe)
            .arg(prop.id)
            .arg("--tier")
            .arg(args.tier.name())
            .arg("--shard")
            .arg(format!("{i}/{n}"))
            .arg("--out")
            .arg(&out)
            .env("VERIF_SEED", seed.to_string())
            .spawn()
            .expect("spawn shard");
        kids.push((i, out, child, None::<std::process::ExitStatus>));
    }
    // Wait with watchdog.
    let mut harness_trouble: Vec<String> = vec![];
    loop {
        let mut running = 0;
        for (_, _, c, st) in kids.iter_mut() {
            if st.is_none() {
                match c.try_wait() {
                    Ok(Some(s)) => *st = Some(s),
                    Ok(None) => running += 1,
                    Err(e) => {
                        harness_trouble.push(format!("wait: {e}"));
                    }
                }
            }
        }
        if running == 0 {
            break;
        }
        if start.elapsed().as_secs() > budget {
            for (i, _, c, st) in kids.iter_mut() {
                if st.is_none() {
                    let _ = c.kill();
                    let _ = c.wait();
                    harness_trouble.push(format!("shard {i} exceeded the {budget}s budget (inconclusive)"));
                }
            }
            break;
        }
        std::thread::sleep(std::time::Duration::from_millis(50));
    }
    let mut parts = vec![];
    for (i, out, _, st) in kids.iter() {
        let trip = out.with_extension("trip");
        if let Ok(bytes) = std::fs::read(&trip) {
            if bytes.len() >= 8 {
                // Allocation guard tripped: a violation with the dumped case as replay.
                let size = u64::from_le_bytes(bytes[..8].try_into().unwrap());
                let case = &bytes[8..];
                let mut p = Partial::default();
                let rdir = verif_dir().join("replays/new");
                let _ = std::fs::create_dir_all(&rdir);
                let path = rdir.join(format!("{}-alloc-{:016x}.json", prop.id, hash_of(case)));
                let case_v: Value =
                    serde_json::from_slice(case).unwrap_or_else(|_| json!({"bytes": case.to_vec()}));
                let sig = "alloc-guard-trip".to_string();
                let msg = format!("a single allocation of {size} bytes was requested while decoding");
                let doc = json!({"property": prop.id, "sub": case_v["sub"].as_str().unwrap_or("alloc"),
                    "signature": sig, "message": msg, "case": case_v["case"].clone()});
                let _ = std::fs::write(&path, serde_json::to_string_pretty(&doc).unwrap());
                p.violations.push(ViolationRec {
                    sub: "alloc".into(),
                    sig,
                    msg,
                    replay: path.display().to_string(),
                });
                parts.push(p);
                continue;
            }
        }
        match st {
            Some(s) if s.success() => match std::fs::read(out) {
                Ok(b) => match serde_json::from_slice::<Partial>(&b) {
                    Ok(p) => parts.push(p),
                    Err(e) => harness_trouble.push(format!("shard {i}: bad partial: {e}")),
                },
                Err(e) => harness_trouble.push(format!("shard {i}: no partial: {e}")),
            },
            Some(s) => harness_trouble.push(format!("shard {i} exited with {s} (harness trouble, not a verdict)")),
            None => {}
        }
    }
    let _ = std::fs::remove_dir_all(&dir);
    let wall = start.elapsed().as_secs_f64();
    let code = finish(prop, args.tier, seed, parts, wall, true);
    if code == 0 && !harness_trouble.is_empty() {
        for t in &harness_trouble {
            eprintln!("HARNESS: {t}");
        }
        return 2;
    }
    for t in &harness_trouble {
        eprintln!("HARNESS: {t}");
    }
    code
}

fn finish(prop: &Prop, tier: Tier, seed: u64, parts: Vec<Partial>, wall: f64, write_evidence: bool) -> i32 {
    let mut m = Partial::default();
    let mut exhaustive: BTreeMap<String, usize> = BTreeMap::new();
    let nparts = parts.len();
    for p in parts {
        m.evaluations += p.evaluations;
        for (k, v) in p.counters {
            *m.counters.entry(k).or_insert(0) += v;
        }
        for (k, v) in p.subs {
            *m.subs.entry(k).or_insert(0) += v;
        }
        for (k, v) in p.known_hits {
            *m.known_hits.entry(k).or_insert(0) += v;
        }
        m.hashes.extend(p.hashes);
        for s in p.samples {
            let sub = s["sub"].clone();
            if m.samples.iter().filter(|x| x["sub"] == sub).count() < 2 {
                m.samples.push(s);
            }
        }
        m.violations.extend(p.violations);
        for s in p.exhaustive_subs {
            *exhaustive.entry(s).or_insert(0) += 1;
        }
        m.notes.extend(p.notes);
    }
    let exhaustive_subs: Vec<String> =
        exhaustive.into_iter().filter(|(_, c)| *c == nparts).map(|(s, _)| s).collect();
    // Deduplicate violations by signature for reporting.
    let mut seen = BTreeSet::new();
    let mut viols = vec![];
    for v in &m.violations {
        if seen.insert((v.sub.clone(), v.sig.clone())) {
            viols.push(v.clone());
        }
    }
    if write_evidence {
        let ev = json!({
            "property_id": prop.id,
            "tier": tier.name(),
            "seed": seed,
            "level": prop.level,
            "coverage": {
                "evaluations": m.evaluations,
                "distinct_nontrivial": m.hashes.len(),
                "rule": prop.rule,
                "samples": m.samples,
                "classification": m.counters,
                "per_subcheck_cases": m.subs,
                "exhaustive": false,
                "exhaustive_subspaces": exhaustive_subs,
                "excluded_known": m.known_hits,
                "notes": m.notes,
            },
            "assumptions": prop.assumptions,
            "wall_s": wall,
            "violations": viols.len(),
            "violation_details": viols.iter().map(|v| json!({"sub": v.sub, "signature": v.sig, "message": v.msg, "replay": v.replay})).collect::<Vec<_>>(),
        });
        let dir = verif_dir().join("evidence");
        let _ = std::fs::create_dir_all(&dir);
        let path = dir.join(format!("{}.json", prop.id));
        let tmp = dir.join(format!(".{}.json.tmp", prop.id));
        std::fs::write(&tmp, serde_json::to_string_pretty(&ev).unwrap()).expect("write evidence");
        std::fs::rename(&tmp, &path).expect("rename evidence");
    }
    for (k, n) in &m.known_hits {
        println!("KNOWN-FINDING: property={} {} ({} cases excluded)", prop.id, k, n);
    }
    println!(
        "{} {}: evaluations={} distinct_nontrivial={} violations={} wall={:.1}s",
        prop.id,
        tier.name(),
        m.evaluations,
        m.hashes.len(),
        viols.len(),
        wall
    );
    if !viols.is_empty() {
        for v in &viols {
            println!("  [{}] {}: {}", v.sub, v.sig, v.msg);
            println!("VIOLATION property={} replay={}", prop.id, v.replay);
        }
        return 1;
    }
    0
}

pub fn parse_args() -> Args {
    let mut it = std::env::args().skip(1);
    let id = it.next().unwrap_or_else(|| usage());
    let mut a = Args { id, tier: Tier::Quick, shard: None, out: None, replay: None };
    while let Some(x) = it.next() {
        match x.as_str() {
            "--tier" => {
                a.tier = match it.next().as_deref() {
                    Some("quick") => Tier::Quick,
                    Some("thorough") => Tier::Thorough,
                    _ => usage(),
                }
            }
            "quick" => a.tier = Tier::Quick,
            "thorough" => a.tier = Tier::Thorough,
            "--shard" => {
                let s = it.next().unwrap_or_else(|| usage());
                let (i, n) = s.split_once('/').unwrap_or_else(|| usage());
                a.shard = Some((i.parse().unwrap(), n.parse().unwrap()));
            }
            "--out" => a.out = Some(PathBuf::from(it.next().unwrap_or_else(|| usage()))),
            "--replay" => a.replay = Some(PathBuf::from(it.next().unwrap_or_else(|| usage()))),
            _ => usage(),
        }
    }
    a
}

fn usage() -> ! {
    eprintln!("usage: vcheck <id> [quick|thorough] [--replay <file>]");
    std::process::exit(2)
}

pub fn main_with(props: &[Prop]) -> ! {
    let args = parse_args();
    let Some(prop) = props.iter().find(|p| p.id == args.id) else {
        eprintln!("unknown property {}", args.id);
        std::process::exit(2);
    };
    let code = if args.shard.is_some() || args.replay.is_some() {
        child_main(prop, &args)
    } else {
        parent_main(prop, &args)
    };
    std::process::exit(code)
}

// ---------------------------------------------------------------------------
// Generator helpers
// ---------------------------------------------------------------------------

/// Monotone index mapping (shrinks well): `i` in 0..=u16::MAX → 0..len.
pub fn pick(i: u16, len: usize) -> usize {
    debug_assert!(len > 0);
    ((i as usize) * len) >> 16
}
