//! COB lab: a real git-backed repository in a scratch storage, a set of
//! signers, and low-level helpers that write change commits exactly the way a
//! remote peer's data would arrive (no "apply before store" check), plus
//! reference manipulation and evaluation through the public `cob::get`.
use std::collections::BTreeSet;

use nonempty::NonEmpty;
use radicle::cob::{ObjectId, TypeName};
use radicle::crypto::ssh::ExtendedSignature;
use radicle::crypto::test::signer::MockSigner;
use radicle::crypto::{PublicKey, Signature};
use radicle::git::Oid;
use radicle::identity::{Did, Doc, RepoId, Visibility};
use radicle::node::device::Device;
use radicle::storage::git::Repository;
use radicle::Storage;
use radicle_cob::change::{Storage as _, Template};
use radicle_cob::object::Storage as _;
use radicle_cob::{CollaborativeObject, Entry, Evaluate};

pub struct CobLab {
    pub tmp: tempfile::TempDir,
    pub storage: Storage,
    pub repo: Repository,
    pub rid: RepoId,
    pub signers: Vec<Device<MockSigner>>,
    /// Commit of the identity COB root (a valid `resource` for issue/patch ops: it holds the document).
    pub identity_root: Oid,
    pub doc: Doc,
}

#[derive(Debug, Clone, Copy, PartialEq, Eq, Hash, serde::Serialize, serde::Deserialize)]
pub enum SigMode {
    Valid,
    /// signature made by another key, presented under the author's key
    WrongKey,
    /// the author's valid signature over different bytes
    OtherContent,
}

struct Forger<'a> {
    claimed: PublicKey,
    with: &'a Device<MockSigner>,
    other_content: bool,
}

impl radicle::crypto::signature::Signer<ExtendedSignature> for Forger<'_> {
    fn try_sign(&self, msg: &[u8]) -> Result<ExtendedSignature, radicle::crypto::signature::Error> {
        let sig: Signature = if self.other_content {
            let mut m = msg.to_vec();
            m.push(0x55);
            self.with.try_sign(&m)?
        } else {
            self.with.try_sign(msg)?
        };
        Ok(ExtendedSignature::new(self.claimed, sig))
    }
}

pub fn signer(ix: u8) -> Device<MockSigner> {
    let mut seed = [0u8; 32];
    seed[0] = 0xC0;
    seed[1] = ix;
    seed[31] = 1;
    Device::mock_from_seed(seed)
}

impl CobLab {
    /// `delegates`: indices of signers that are delegates (the first one founds the repository).
    pub fn new(nsigners: u8, delegates: &[u8], threshold: usize) -> CobLab {
        let tmp = crate::lab::tempdir();
        let signers: Vec<Device<MockSigner>> = (0..nsigners).map(signer).collect();
        let founder = &signers[delegates[0] as usize];
        let storage = Storage::open(
            tmp.path().join("storage"),
            radicle::git::UserInfo { alias: radicle::node::Alias::new("lab"), key: *founder.public_key() },
        )
        .unwrap();
        let project = radicle::identity::project::Project::new(
            "lab".to_string().try_into().unwrap(),
            "cob lab".to_string().try_into().unwrap(),
            radicle::git::RefString::try_from("master").unwrap(),
        )
        .unwrap();
        let mut doc = Doc::initial(project, Did::from(*founder.public_key()), Visibility::Public);
        if delegates.len() > 1 || threshold > 1 {
            doc = doc
                .with_edits(|raw| {
                    for d in &delegates[1..] {
                        raw.delegate(Did::from(*signers[*d as usize].public_key()));
                    }
                    raw.threshold = threshold;
                })
                .unwrap();
        }
        // A fixed commit time makes the identity root (and everything that names it) reproducible.
        std::env::set_var("GIT_COMMITTER_DATE", "1600000000");
        let (repo, identity_root) = Repository::init(&doc, &storage, founder).unwrap();
        std::env::remove_var("GIT_COMMITTER_DATE");
        let rid = repo.id;
        CobLab { tmp, storage, repo, rid, signers, identity_root, doc }
    }

    pub fn key(&self, ix: u8) -> PublicKey {
        *self.signers[ix as usize].public_key()
    }

    /// A commit that carries `doc` where identity documents are looked up (`embeds/radicle.json`),
    /// so that an op can name it as the identity it refers to.
    pub fn doc_commit(&self, doc: &Doc) -> Oid {
        let raw = &self.repo.backend;
        let (_, bytes) = doc.encode().unwrap();
        let blob = raw.blob(&bytes).unwrap();
        let mut embeds = raw.treebuilder(None).unwrap();
        embeds.insert("radicle.json", blob, git2::FileMode::Blob.into()).unwrap();
        let embeds = embeds.write().unwrap();
        let mut root = raw.treebuilder(None).unwrap();
        root.insert("embeds", embeds, git2::FileMode::Tree.into()).unwrap();
        let tree = raw.find_tree(root.write().unwrap()).unwrap();
        let sig = git2::Signature::new("lab", "lab@localhost", &git2::Time::new(1_600_000_000, 0)).unwrap();
        raw.commit(None, &sig, &sig, "doc", &tree, &[]).unwrap().into()
    }

    /// Write one change commit. Nothing is validated and no reference is touched.
    #[allow(clippy::too_many_arguments)]
    pub fn store(
        &self,
        type_name: &TypeName,
        author: u8,
        resource: Option<Oid>,
        related: Vec<Oid>,
        tips: Vec<Oid>,
        contents: Vec<Vec<u8>>,
        timestamp: u64,
        sig: SigMode,
    ) -> Entry {
        std::env::set_var("GIT_COMMITTER_DATE", timestamp.to_string());
        let template = Template {
            type_name: type_name.clone(),
            tips,
            message: "change".to_string(),
            embeds: vec![],
            contents: NonEmpty::from_vec(contents).expect("at least one action"),
        };
        let a = &self.signers[author as usize];
        let r = match sig {
            SigMode::Valid => self.repo.store(resource, related, a, template),
            SigMode::WrongKey => {
                let other = &self.signers[(author as usize + 1) % self.signers.len()];
                self.repo.store(resource, related, &Forger { claimed: *a.public_key(), with: other, other_content: false }, template)
            }
            SigMode::OtherContent => {
                self.repo.store(resource, related, &Forger { claimed: *a.public_key(), with: a, other_content: true }, template)
            }
        };
        std::env::remove_var("GIT_COMMITTER_DATE");
        r.expect("store change")
    }

    pub fn set_ref(&self, ns: &PublicKey, type_name: &TypeName, oid: &ObjectId, entry: Oid) {
        self.repo.update(ns, type_name, oid, &entry).unwrap();
    }

    /// Remove every reference to the object, in all namespaces.
    pub fn clear_refs(&self, type_name: &TypeName, oid: &ObjectId) {
        let glob = format!("refs/namespaces/*/refs/cobs/{type_name}/{oid}");
        let names: Vec<String> = self
            .repo
            .backend
            .references_glob(&glob)
            .unwrap()
            .filter_map(|r| r.ok().and_then(|r| r.name().map(|s| s.to_string())))
            .collect();
        for n in names {
            self.repo.backend.find_reference(&n).unwrap().delete().unwrap();
        }
    }

    pub fn eval<T: Evaluate<Repository>>(
        &self,
        type_name: &TypeName,
        oid: &ObjectId,
    ) -> Result<Option<CollaborativeObject<T>>, radicle_cob::object::collaboration::error::Retrieve> {
        radicle_cob::get::<T, _>(&self.repo, type_name, oid)
    }
}

/// The set of entry ids in a history.
pub fn entries(h: &radicle_cob::History) -> BTreeSet<Oid> {
    h.graph().sorted().into_iter().collect()
}

/// Spare namespaces (keys that author nothing) to hang references on.
pub fn spare_key(ix: u8) -> PublicKey {
    let mut seed = [0u8; 32];
    seed[0] = 0xD0;
    seed[1] = ix;
    seed[31] = 1;
    *Device::mock_from_seed(seed).public_key()
}
