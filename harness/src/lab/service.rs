//! Service lab: a deterministic `radicle_node` service under test ("node N"),
//! a set of remote identities that can sign (and mis-sign) messages, a
//! synthetic clock and helpers to observe the outbox and the gossip store.
use std::net;
use std::str::FromStr;

use radicle::crypto::test::signer::MockSigner;
use radicle::identity::{Did, Doc, RepoId, Visibility};
use radicle::node::device::Device;
use radicle::node::{Alias, UserAgent};
use radicle::storage::refs::{Refs, RefsAt, SignedRefsAt, IDENTITY_ROOT};
use radicle::test::storage::{MockRepository, MockStorage};
use radicle_node::prelude::*;
use radicle_node::service::io::Io;
use radicle_node::service::message::*;
use radicle_node::service::policy::SeedingPolicy;
use radicle_node::service::{self, DisconnectReason, ServiceState};
use radicle_node::{Link, PROTOCOL_VERSION};

/// Start of time for every lab: a fixed instant (ms since epoch).
pub const T0_MS: u64 = 1_700_000_000_000;

pub fn t0() -> LocalTime {
    LocalTime::from_millis(T0_MS as u128)
}

pub struct Remote {
    pub signer: Device<MockSigner>,
    pub id: NodeId,
    pub ip: net::IpAddr,
    pub addr: Address,
}

impl Remote {
    pub fn new(ix: u8, routable: bool) -> Self {
        let mut seed = [0u8; 32];
        seed[0] = 0xA0;
        seed[1] = ix;
        let signer = Device::mock_from_seed(seed);
        let id = *signer.public_key();
        let ip: net::IpAddr = if routable {
            net::Ipv4Addr::new(45, 33, 10 + ix, 7).into()
        } else {
            net::Ipv4Addr::new(192, 168, 1, 10 + ix).into()
        };
        let addr = Address::from(net::SocketAddr::from((ip, 8776)));
        Remote { signer, id, ip, addr }
    }

    pub fn node_announcement(&self, timestamp: Timestamp, alias: &str, seed_feature: bool) -> NodeAnnouncement {
        NodeAnnouncement {
            version: PROTOCOL_VERSION,
            features: if seed_feature { radicle::node::Features::SEED } else { radicle::node::Features::NONE },
            timestamp,
            alias: Alias::from_str(alias).unwrap(),
            addresses: Some(self.addr.clone()).into(),
            nonce: 0,
            agent: UserAgent::from_str("/radicle:test/").unwrap(),
        }
        .solve(0)
        .unwrap()
    }
}

/// Build a deterministic identity document + repository id.
pub fn mock_repo(ix: u8, delegates: &[NodeId], visibility: Visibility) -> (RepoId, MockRepository) {
    let name = format!("repo{ix}");
    let project = radicle::identity::project::Project::new(
        name.try_into().unwrap(),
        format!("description {ix}").try_into().unwrap(),
        radicle::git::RefString::try_from("master").unwrap(),
    )
    .unwrap();
    let mut doc = Doc::initial(project, Did::from(delegates[0]), visibility);
    if delegates.len() > 1 {
        doc = doc
            .with_edits(|raw| {
                for d in &delegates[1..] {
                    raw.delegate(Did::from(*d));
                }
            })
            .unwrap();
    }
    let (oid, _) = doc.encode().unwrap();
    let rid = RepoId::from(oid);
    (rid, MockRepository::new(rid, doc))
}

pub fn oid_of(tag: u8, n: u8) -> radicle::git::Oid {
    let mut b = [0u8; 20];
    b[0] = tag;
    b[1] = n;
    b[19] = 1;
    radicle::git::Oid::try_from(&b[..]).unwrap()
}

pub struct LabConfig {
    pub seed: u64,
    pub remotes: usize,
    pub routable_remotes: bool,
    pub repos: Vec<(RepoId, MockRepository)>,
    pub policy: SeedingPolicy,
    pub tweak: Box<dyn FnOnce(&mut service::Config)>,
    pub import_addresses: Vec<usize>,
}

/// A storage that can hand out its underlying [`MockStorage`].
pub trait MockLike: radicle::storage::WriteStorage + 'static {
    fn wrap(inner: MockStorage, local: NodeId) -> Self;
    fn mock(&self) -> &MockStorage;
    fn mock_mut(&mut self) -> &mut MockStorage;
}

impl MockLike for MockStorage {
    fn wrap(inner: MockStorage, _local: NodeId) -> Self {
        inner
    }
    fn mock(&self) -> &MockStorage {
        self
    }
    fn mock_mut(&mut self) -> &mut MockStorage {
        self
    }
}

/// `MockStorage` whose `repositories()` reports `synced_at` for repositories in which the local
/// node has signed refs, like the real storage does (needed to reach the start-up path that
/// pre-loads refs announcements).
#[derive(Clone, Debug)]
pub struct SyncedMock {
    pub inner: MockStorage,
    pub local: NodeId,
}

impl radicle::storage::ReadStorage for SyncedMock {
    type Repository = MockRepository;

    fn info(&self) -> &radicle::git::UserInfo {
        self.inner.info()
    }
    fn path(&self) -> &std::path::Path {
        radicle::storage::ReadStorage::path(&self.inner)
    }
    fn path_of(&self, rid: &RepoId) -> std::path::PathBuf {
        self.inner.path_of(rid)
    }
    fn contains(&self, rid: &RepoId) -> Result<bool, radicle::storage::RepositoryError> {
        radicle::storage::ReadStorage::contains(&self.inner, rid)
    }
    fn repositories(&self) -> Result<Vec<radicle::storage::RepositoryInfo>, radicle::storage::Error> {
        let mut v = self.inner.repositories()?;
        v.sort_by_key(|r| r.rid);
        for info in v.iter_mut() {
            if let Some(sr) = self.inner.repos.get(&info.rid).and_then(|r| r.remotes.get(&self.local)) {
                info.synced_at = Some(radicle::node::SyncedAt {
                    oid: sr.at,
                    timestamp: LocalTime::from_millis(T0_MS as u128 - 86_400_000),
                });
            }
        }
        Ok(v)
    }
    fn repository(&self, rid: RepoId) -> Result<Self::Repository, radicle::storage::RepositoryError> {
        self.inner.repository(rid)
    }
}

impl radicle::storage::WriteStorage for SyncedMock {
    type RepositoryMut = MockRepository;

    fn repository_mut(&self, rid: RepoId) -> Result<Self::RepositoryMut, radicle::storage::RepositoryError> {
        self.inner.repository_mut(rid)
    }
    fn create(&self, rid: RepoId) -> Result<Self::RepositoryMut, radicle::storage::Error> {
        self.inner.create(rid)
    }
    fn clean(&self, rid: RepoId) -> Result<Vec<radicle::storage::RemoteId>, radicle::storage::RepositoryError> {
        self.inner.clean(rid)
    }
}

impl MockLike for SyncedMock {
    fn wrap(inner: MockStorage, local: NodeId) -> Self {
        SyncedMock { inner, local }
    }
    fn mock(&self) -> &MockStorage {
        &self.inner
    }
    fn mock_mut(&mut self) -> &mut MockStorage {
        &mut self.inner
    }
}

/// The node under test: the real service plus what is needed to restart it.
pub struct Node<S: MockLike> {
    pub service: service::Service<radicle::node::Database, S, MockSigner>,
    pub tmp: tempfile::TempDir,
    config: service::Config,
    policy: SeedingPolicy,
    rng_seed: u64,
    restarts: u64,
}

impl<S: MockLike> std::ops::Deref for Node<S> {
    type Target = service::Service<radicle::node::Database, S, MockSigner>;
    fn deref(&self) -> &Self::Target {
        &self.service
    }
}

impl<S: MockLike> std::ops::DerefMut for Node<S> {
    fn deref_mut(&mut self) -> &mut Self::Target {
        &mut self.service
    }
}

fn node_signer() -> Device<MockSigner> {
    let mut seed = [0u8; 32];
    seed[0] = 0x11;
    Device::mock_from_seed(seed)
}

fn build_service<S: MockLike>(
    tmp: &std::path::Path,
    config: &service::Config,
    policy: SeedingPolicy,
    storage: S,
    rng_seed: u64,
    now: LocalTime,
    first: bool,
) -> service::Service<radicle::node::Database, S, MockSigner> {
    use radicle_node::service::policy;
    let signer = node_signer();
    let id = *signer.public_key();
    let store = policy::Store::<policy::store::Write>::open(tmp.join("policies.db")).unwrap();
    let mut policies = policy::Config::new(policy, store);
    if first {
        for repo in storage.repositories().unwrap() {
            policies.seed(&repo.rid, policy::Scope::All).unwrap();
        }
    }
    let db = radicle::node::Database::open(tmp.join(radicle::node::NODE_DB_FILE))
        .unwrap()
        .init(
            &id,
            config.features(),
            &config.alias,
            &UserAgent::default(),
            now.into(),
            config.external_addresses.iter(),
        )
        .unwrap()
        .into();
    let announcement = service::gossip::node(config, Timestamp::from(now) + 1);
    let emitter: radicle_node::runtime::Emitter<radicle_node::service::Event> = Default::default();
    let mut svc = service::Service::new(
        config.clone(),
        db,
        storage,
        policies,
        signer,
        fastrand::Rng::with_seed(rng_seed),
        announcement,
        emitter,
    );
    svc.initialize(now).unwrap();
    svc
}

pub struct Lab<S: MockLike = MockStorage> {
    pub node: Node<S>,
    pub remotes: Vec<Remote>,
}

impl<S: MockLike + Clone> Lab<S> {
    /// Stop the node and start it again on the same databases and storage (a new run).
    pub fn restart(&mut self) {
        let now = self.now();
        let storage = self.node.service.storage().clone();
        self.node.restarts += 1;
        let svc = build_service(
            self.node.tmp.path(),
            &self.node.config,
            self.node.policy,
            storage,
            self.node.rng_seed.wrapping_add(self.node.restarts),
            now,
            false,
        );
        self.node.service = svc;
    }
}

impl<S: MockLike> Lab<S> {
    pub fn new(cfg: LabConfig) -> Lab<S> {
        let local = *node_signer().public_key();
        let mut config = service::Config::test(Alias::from_str("node-n").unwrap());
        config.peers = radicle::node::config::PeerConfig::Static;
        // Make sure the node address is advertised (this also makes `Relay::Auto` relay).
        config
            .external_addresses
            .push(net::SocketAddr::from((net::Ipv4Addr::new(10, 0, 0, 1), 8776)).into());
        (cfg.tweak)(&mut config);
        let mut storage = MockStorage::new(vec![]);
        for (rid, repo) in cfg.repos {
            storage.repos.insert(rid, repo);
        }
        let storage = S::wrap(storage, local);
        let tmp = crate::lab::tempdir();
        let svc = build_service(tmp.path(), &config, cfg.policy, storage, cfg.seed, t0(), true);
        let node = Node { service: svc, tmp, config, policy: cfg.policy, rng_seed: cfg.seed, restarts: 0 };
        let remotes: Vec<Remote> = (0..cfg.remotes as u8).map(|i| Remote::new(i, cfg.routable_remotes)).collect();
        let mut lab = Lab { node, remotes };
        for i in cfg.import_addresses {
            lab.import_address(i);
        }
        lab.drain();
        lab
    }

    pub fn nid(&self) -> NodeId {
        self.node.node_id()
    }

    pub fn now(&self) -> LocalTime {
        *self.node.clock()
    }

    pub fn now_ts(&self) -> Timestamp {
        Timestamp::from(self.now())
    }

    /// Make the address book know remote `i` (as a seed would after a node announcement).
    pub fn import_address(&mut self, i: usize) {
        use radicle::node::address::Store as _;
        let r = &self.remotes[i];
        let ts = self.now_ts();
        self.node
            .service
            .database_mut()
            .addresses_mut()
            .insert(
                &r.id,
                PROTOCOL_VERSION,
                radicle::node::Features::SEED,
                &Alias::from_str("imported").unwrap(),
                0,
                &UserAgent::default(),
                ts,
                Some(radicle::node::KnownAddress::new(r.addr.clone(), radicle::node::address::Source::Peer)),
            )
            .unwrap();
    }

    pub fn is_connected(&self, i: usize) -> bool {
        self.node.sessions().is_connected(&self.remotes[i].id)
    }

    pub fn connect_inbound(&mut self, i: usize) {
        let (id, addr) = (self.remotes[i].id, self.remotes[i].addr.clone());
        self.node.service.connected(id, addr, Link::Inbound);
    }

    /// Outbound connection: command + attempted + connected (like `Peer::connect_to`).
    /// Returns false if the service refused to dial (session exists, limit reached).
    pub fn connect_outbound(&mut self, i: usize) -> bool {
        let (id, addr) = (self.remotes[i].id, self.remotes[i].addr.clone());
        if self.node.sessions().contains_key(&id) {
            return false;
        }
        self.node.service.command(service::Command::Connect(
            id,
            addr.clone(),
            radicle::node::ConnectOptions::default(),
        ));
        if !self.node.sessions().contains_key(&id) {
            return false;
        }
        self.node.service.attempted(id, addr.clone());
        self.node.service.connected(id, addr, Link::Outbound);
        true
    }

    pub fn disconnect(&mut self, i: usize, link: Link) {
        let id = self.remotes[i].id;
        self.node.service.disconnected(id, link, &DisconnectReason::connection());
    }

    pub fn session_link(&self, i: usize) -> Option<Link> {
        self.node.sessions().get(&self.remotes[i].id).map(|s| s.link)
    }

    pub fn deliver(&mut self, from: usize, msg: Message) {
        let id = self.remotes[from].id;
        self.node.service.received_message(id, msg);
    }

    /// Move the clock and run the periodic tasks (what the runtime does on a timer).
    pub fn elapse(&mut self, ms: u64) {
        let now = self.now() + LocalDuration::from_millis(ms as u128);
        self.node.service.tick(now, &Default::default());
        self.node.service.wake();
    }

    /// `tick` with an arbitrary (possibly earlier) wall-clock reading, then wake.
    pub fn tick_to(&mut self, t: LocalTime) {
        self.node.service.tick(t, &Default::default());
        self.node.service.wake();
    }

    pub fn drain(&mut self) -> Vec<Io> {
        let mut v = vec![];
        while let Some(io) = self.node.service.next() {
            v.push(io);
        }
        v
    }

    /// All announcements currently in the gossip store.
    pub fn gossip_dump(&self) -> Vec<Announcement> {
        use radicle_node::service::gossip::Store as _;
        let f = Filter::default();
        let v: Vec<Announcement> = self
            .node
            .service
            .database()
            .gossip()
            .filtered(&f, Timestamp::MIN, Timestamp::MAX)
            .unwrap()
            .map(|r| r.unwrap())
            .collect();
        v
    }

    /// Give node N signed refs in a mock repository (so that it can announce its own refs).
    pub fn set_own_refs(&mut self, rid: RepoId, n: u8) {
        let nid = self.nid();
        let repo = self.node.storage().mock().repos.get(&rid).unwrap().clone();
        let mut refs = Refs::default();
        refs.insert(radicle::git::RefString::try_from("refs/heads/master").unwrap(), oid_of(0xAA, n));
        refs.insert(IDENTITY_ROOT.to_ref_string(), radicle::storage::ReadRepository::identity_root(&repo).unwrap());
        let sigrefs = refs.signed(self.node.signer()).unwrap().verified(&repo).unwrap();
        let at = oid_of(0xBB, n);
        self.node
            .storage_mut()
            .mock_mut()
            .repo_mut(&rid)
            .remotes
            .insert(nid, SignedRefsAt { sigrefs, at });
    }
}

/// Key of an announcement in the gossip store: (announcer, kind, repo).
pub fn ann_key(a: &Announcement) -> (NodeId, u8, Option<RepoId>) {
    match &a.message {
        AnnouncementMessage::Node(_) => (a.node, 0, None),
        AnnouncementMessage::Inventory(_) => (a.node, 1, None),
        AnnouncementMessage::Refs(r) => (a.node, 2, Some(r.rid)),
    }
}

pub fn ann_bytes(a: &Announcement) -> Vec<u8> {
    radicle_node::wire::serialize(&Message::Announcement(a.clone()))
}

pub fn refs_at(remote: NodeId, n: u8) -> RefsAt {
    RefsAt { remote, at: oid_of(0xCC, n) }
}
