//! Fetch lab: a serving storage and a fetching storage in a scratch directory,
//! connected by a `git upload-pack` child started exactly as the node's worker
//! starts it; the fetch itself is the real `radicle_fetch::{clone, pull}`.
use std::collections::{BTreeMap, BTreeSet};
use std::io::{self, BufReader, Read, Write};
use std::path::{Path, PathBuf};
use std::process::{Child, ChildStdin, ChildStdout, Command, Stdio};

use radicle::crypto::test::signer::MockSigner;
use radicle::crypto::PublicKey;
use radicle::git::Oid;
use radicle::identity::{Did, Doc, RepoId, Visibility};
use radicle::node::device::Device;
use radicle::storage::git::Repository;
use radicle::storage::refs::RefsAt;
use radicle::storage::{ReadStorage, SignRepository};
use radicle::Storage;
use radicle_fetch::transport::{ConnectionStream, SignalEof};
use radicle_fetch::{Allowed, BlockList, FetchLimit, FetchResult, Handle};

// ---------------------------------------------------------------------------
// transport
// ---------------------------------------------------------------------------

/// Writer side: drops the daemon request header (one pkt-line), like the responder's
/// `pktline::git_request`, and forwards everything else to `git upload-pack`.
pub struct ToServer {
    stdin: Option<ChildStdin>,
    header: Vec<u8>,
    header_done: bool,
}

impl Write for ToServer {
    fn write(&mut self, buf: &[u8]) -> io::Result<usize> {
        let mut rest: &[u8] = buf;
        if !self.header_done {
            self.header.extend_from_slice(buf);
            rest = &[];
            if self.header.len() >= 4 {
                let len = std::str::from_utf8(&self.header[..4])
                    .ok()
                    .and_then(|s| usize::from_str_radix(s, 16).ok())
                    .ok_or_else(|| io::Error::new(io::ErrorKind::InvalidData, "bad request header"))?;
                if self.header.len() >= len {
                    let tail = self.header.split_off(len);
                    self.header_done = true;
                    if let Some(s) = self.stdin.as_mut() {
                        s.write_all(&tail)?;
                    }
                }
            }
        }
        if !rest.is_empty() {
            match self.stdin.as_mut() {
                Some(s) => s.write_all(rest)?,
                None => return Err(io::Error::new(io::ErrorKind::BrokenPipe, "stream closed")),
            }
        }
        Ok(buf.len())
    }

    fn flush(&mut self) -> io::Result<()> {
        match self.stdin.as_mut() {
            Some(s) => s.flush(),
            None => Ok(()),
        }
    }
}

impl SignalEof for ToServer {
    type Error = io::Error;

    fn eof(&mut self) -> Result<(), Self::Error> {
        self.stdin.take();
        Ok(())
    }
}

pub struct Upload {
    child: Child,
    read: BufReader<ChildStdout>,
    write: ToServer,
}

impl Upload {
    /// Start `git upload-pack` in the served repository with the flags of
    /// `radicle-node/src/worker/upload_pack.rs`.
    pub fn spawn(git_dir: &Path) -> io::Result<Upload> {
        let mut child = Command::new("git")
            .current_dir(git_dir)
            .env_clear()
            .envs(std::env::vars().filter(|(k, _)| k == "PATH"))
            .env("GIT_PROTOCOL", "version=2")
            .args([
                "-c",
                "uploadpack.allowAnySha1InWant=true",
                "-c",
                "uploadpack.allowRefInWant=true",
                "-c",
                "lsrefs.unborn=ignore",
                "upload-pack",
                "--strict",
                "--timeout=9",
                ".",
            ])
            .stdin(Stdio::piped())
            .stdout(Stdio::piped())
            .stderr(Stdio::null())
            .spawn()?;
        let stdin = child.stdin.take().unwrap();
        let stdout = child.stdout.take().unwrap();
        Ok(Upload { child, read: BufReader::new(stdout), write: ToServer { stdin: Some(stdin), header: vec![], header_done: false } })
    }
}

impl Drop for Upload {
    fn drop(&mut self) {
        self.write.stdin.take();
        let _ = self.child.kill();
        let _ = self.child.wait();
    }
}

impl ConnectionStream for Upload {
    type Read = BufReader<ChildStdout>;
    type Write = ToServer;
    type Error = io::Error;

    fn open(&mut self) -> Result<(&mut Self::Read, &mut Self::Write), Self::Error> {
        Ok((&mut self.read, &mut self.write))
    }
}

// ---------------------------------------------------------------------------
// keys
// ---------------------------------------------------------------------------

pub fn peer_key(ix: u8) -> Device<MockSigner> {
    let mut seed = [0u8; 32];
    seed[0] = 0xE0;
    seed[1] = ix;
    seed[31] = 3;
    Device::mock_from_seed(seed)
}

pub const LOCAL: u8 = 200;

// ---------------------------------------------------------------------------
// repository snapshots and raw manipulation
// ---------------------------------------------------------------------------

pub type Snapshot = BTreeMap<String, Oid>;

pub fn snapshot(repo: &git2::Repository) -> Snapshot {
    let mut m = BTreeMap::new();
    for r in repo.references().unwrap().flatten() {
        if let (Some(name), Some(target)) = (r.name(), r.resolve().ok().and_then(|r| r.target())) {
            m.insert(name.to_string(), Oid::from(target));
        }
    }
    m
}

pub fn ns_prefix(k: &PublicKey) -> String {
    format!("refs/namespaces/{k}/")
}

/// The refs of one namespace, without the prefix.
pub fn ns_refs(s: &Snapshot, k: &PublicKey) -> BTreeMap<String, Oid> {
    let p = ns_prefix(k);
    s.iter().filter_map(|(n, o)| n.strip_prefix(&p).map(|r| (r.to_string(), *o))).collect()
}

pub fn namespaces(s: &Snapshot) -> BTreeSet<String> {
    s.keys().filter_map(|n| n.strip_prefix("refs/namespaces/")).filter_map(|r| r.split('/').next()).map(|s| s.to_string()).collect()
}

/// Replace all refs of namespace `k` by `refs` (names without prefix).
pub fn set_ns(repo: &git2::Repository, k: &PublicKey, refs: &BTreeMap<String, Oid>) {
    let p = ns_prefix(k);
    let names: Vec<String> = repo
        .references_glob(&format!("{p}*"))
        .unwrap()
        .flatten()
        .filter_map(|r| r.name().map(|s| s.to_string()))
        .collect();
    for n in names {
        if let Ok(mut r) = repo.find_reference(&n) {
            let _ = r.delete();
        }
    }
    for (n, o) in refs {
        repo.reference(&format!("{p}{n}"), **o, true, "lab").unwrap();
    }
}

pub fn commit_on(repo: &git2::Repository, parents: &[git2::Oid], msg: &str, time: i64) -> git2::Oid {
    let sig = git2::Signature::new("lab", "lab@localhost", &git2::Time::new(time, 0)).unwrap();
    let blob = repo.blob(msg.as_bytes()).unwrap();
    let mut tb = repo.treebuilder(None).unwrap();
    tb.insert("file", blob, 0o100644).unwrap();
    let tree = repo.find_tree(tb.write().unwrap()).unwrap();
    let ps: Vec<git2::Commit> = parents.iter().map(|p| repo.find_commit(*p).unwrap()).collect();
    let pr: Vec<&git2::Commit> = ps.iter().collect();
    repo.commit(None, &sig, &sig, msg, &tree, &pr).unwrap()
}

/// Write a `rad/sigrefs` commit by hand (for forged / re-keyed / foreign / dangling variants).
pub fn write_sigrefs(repo: &git2::Repository, refs_blob: &[u8], signature: &[u8], parent: Option<git2::Oid>, time: i64) -> git2::Oid {
    let rb = repo.blob(refs_blob).unwrap();
    let sb = repo.blob(signature).unwrap();
    let mut tb = repo.treebuilder(None).unwrap();
    tb.insert("refs", rb, 0o100644).unwrap();
    tb.insert("signature", sb, 0o100644).unwrap();
    let tree = repo.find_tree(tb.write().unwrap()).unwrap();
    let sig = git2::Signature::new("radicle", "lab", &git2::Time::new(time, 0)).unwrap();
    let ps: Vec<git2::Commit> = parent.iter().map(|p| repo.find_commit(*p).unwrap()).collect();
    let pr: Vec<&git2::Commit> = ps.iter().collect();
    repo.commit(None, &sig, &sig, "Update signed refs\n", &tree, &pr).unwrap()
}

/// Harness-side parser of the `refs` blob: lines `<40 hex> <refname>`.
pub fn parse_refs_blob(bytes: &[u8]) -> Option<BTreeMap<String, Oid>> {
    let text = std::str::from_utf8(bytes).ok()?;
    let mut m = BTreeMap::new();
    for line in text.lines() {
        let (oid, name) = line.split_once(' ')?;
        if oid.len() != 40 {
            return None;
        }
        let oid: Oid = oid.parse().ok()?;
        m.insert(name.to_string(), oid);
    }
    Some(m)
}

pub fn blob_at(repo: &git2::Repository, commit: Oid, name: &str) -> Option<Vec<u8>> {
    let c = repo.find_commit(*commit).ok()?;
    let t = c.tree().ok()?;
    let e = t.get_name(name)?;
    let b = repo.find_blob(e.id()).ok()?;
    Some(b.content().to_vec())
}

pub fn is_ancestor_or_equal(repo: &git2::Repository, old: Oid, new: Oid) -> bool {
    old == new || repo.graph_descendant_of(*new, *old).unwrap_or(false)
}

// ---------------------------------------------------------------------------
// world
// ---------------------------------------------------------------------------

pub struct World {
    pub tmp: tempfile::TempDir,
    pub server: Storage,
    pub rid: RepoId,
    pub doc: Doc,
    pub identity_root: Oid,
    pub delegates: Vec<u8>,
    pub others: Vec<u8>,
    /// per key: namespace states by epoch (refs without prefix, including rad/sigrefs)
    pub epochs: BTreeMap<u8, Vec<BTreeMap<String, Oid>>>,
    clients: usize,
}

pub fn key_of(ix: u8) -> PublicKey {
    *peer_key(ix).public_key()
}

impl World {
    /// `delegates`: key indices (first one founds the repository; may contain `LOCAL`, never first);
    /// `others`: further namespaces on the server. Every namespace gets `nepochs` signed states.
    pub fn new(delegates: &[u8], threshold: usize, others: &[u8], nepochs: usize) -> World {
        assert!(delegates[0] != LOCAL);
        let tmp = crate::lab::tempdir();
        let founder = peer_key(delegates[0]);
        let server = Storage::open(
            tmp.path().join("server"),
            radicle::git::UserInfo { alias: radicle::node::Alias::new("server"), key: *founder.public_key() },
        )
        .unwrap();
        let project = radicle::identity::project::Project::new(
            "lab".to_string().try_into().unwrap(),
            "fetch lab".to_string().try_into().unwrap(),
            radicle::git::RefString::try_from("master").unwrap(),
        )
        .unwrap();
        let doc = Doc::initial(project, Did::from(*founder.public_key()), Visibility::Public)
            .with_edits(|raw| {
                for d in &delegates[1..] {
                    raw.delegate(Did::from(key_of(*d)));
                }
                raw.threshold = threshold;
            })
            .unwrap();
        std::env::set_var("GIT_COMMITTER_DATE", "1600000000");
        let (repo, identity_root) = Repository::init(&doc, &server, &founder).unwrap();
        let raw = &repo.backend;
        // canonical identity reference, as `set_identity_head` leaves it
        raw.reference("refs/rad/id", *identity_root, true, "lab").unwrap();
        let mut epochs: BTreeMap<u8, Vec<BTreeMap<String, Oid>>> = BTreeMap::new();
        let base = commit_on(raw, &[], "base", 1_600_000_000);
        for (ki, k) in delegates.iter().chain(others.iter()).enumerate() {
            // the local node is part of the identity but has no namespace on the server
            if *k == LOCAL {
                continue;
            }
            let dev = peer_key(*k);
            let pk = *dev.public_key();
            let mut states = vec![];
            let mut head = base;
            // A second branch that does not only move forward between signed states: two commits ahead in
            // epoch 0, strictly rewound to its first commit in epoch 1, a diverged commit afterwards; and a
            // branch that exists in epoch 1 only.
            let f1 = commit_on(raw, &[base], &format!("k{k} feature 1"), 1_600_000_050);
            let f2 = commit_on(raw, &[f1], &format!("k{k} feature 2"), 1_600_000_051);
            for e in 0..nepochs {
                head = commit_on(raw, &[head], &format!("k{k} e{e}"), 1_600_000_100 + e as i64);
                raw.reference(&format!("{}refs/heads/master", ns_prefix(&pk)), head, true, "lab").unwrap();
                let feature = match e {
                    0 => f2,
                    1 => f1,
                    _ => commit_on(raw, &[base], &format!("k{k} feature diverged {e}"), 1_600_000_060 + e as i64),
                };
                raw.reference(&format!("{}refs/heads/feature", ns_prefix(&pk)), feature, true, "lab").unwrap();
                let tmp = format!("{}refs/heads/tmp", ns_prefix(&pk));
                if e == 1 {
                    raw.reference(&tmp, f2, true, "lab").unwrap();
                } else if let Ok(mut r) = raw.find_reference(&tmp) {
                    r.delete().unwrap();
                }
                if e == 0 && ki % 2 == 0 {
                    raw.reference(&format!("{}refs/tags/v1", ns_prefix(&pk)), head, true, "lab").unwrap();
                }
                std::env::set_var("GIT_COMMITTER_DATE", (1_600_001_000 + e as i64 * 10 + ki as i64).to_string());
                repo.sign_refs(&dev).unwrap();
                states.push(ns_refs(&snapshot(raw), &pk));
            }
            epochs.insert(*k, states);
        }
        std::env::remove_var("GIT_COMMITTER_DATE");
        let rid = repo.id;
        World { tmp, server, rid, doc, identity_root, delegates: delegates.to_vec(), others: others.to_vec(), epochs, clients: 0 }
    }

    /// An independent copy of this world (server directory copied, no clients).
    pub fn fork(&self) -> World {
        fn copy_dir(from: &Path, to: &Path) {
            std::fs::create_dir_all(to).unwrap();
            for e in std::fs::read_dir(from).unwrap() {
                let e = e.unwrap();
                let t = to.join(e.file_name());
                if e.file_type().unwrap().is_dir() {
                    copy_dir(&e.path(), &t);
                } else {
                    std::fs::copy(e.path(), &t).unwrap();
                }
            }
        }
        let tmp = crate::lab::tempdir();
        copy_dir(&self.tmp.path().join("server"), &tmp.path().join("server"));
        let founder = peer_key(self.delegates[0]);
        let server = Storage::open(
            tmp.path().join("server"),
            radicle::git::UserInfo { alias: radicle::node::Alias::new("server"), key: *founder.public_key() },
        )
        .unwrap();
        World {
            tmp,
            server,
            rid: self.rid,
            doc: self.doc.clone(),
            identity_root: self.identity_root,
            delegates: self.delegates.clone(),
            others: self.others.clone(),
            epochs: self.epochs.clone(),
            clients: 0,
        }
    }

    pub fn server_repo(&self) -> Repository {
        self.server.repository(self.rid).unwrap()
    }

    pub fn server_git_dir(&self) -> PathBuf {
        radicle::storage::git::paths::repository(&self.server, &self.rid)
    }

    /// Put namespace `k` on the server into its state of `epoch`.
    pub fn offer_epoch(&self, k: u8, epoch: usize) {
        let repo = self.server_repo();
        set_ns(&repo.backend, &key_of(k), &self.epochs[&k][epoch]);
    }

    /// A fresh fetching storage.
    pub fn client(&mut self) -> Storage {
        self.clients += 1;
        let local = peer_key(LOCAL);
        Storage::open(
            self.tmp.path().join(format!("client{}", self.clients)),
            radicle::git::UserInfo { alias: radicle::node::Alias::new("client"), key: *local.public_key() },
        )
        .unwrap()
    }
}

pub enum Fetched {
    Ok(FetchResult),
    Err(String),
}

/// Clone into `client` (which must not have the repository). Returns the result and the repository
/// (moved into place only on success, like the worker does).
pub fn clone(world: &World, client: &Storage, remote: u8, allowed: Allowed) -> (Fetched, Option<Repository>) {
    let local = *peer_key(LOCAL).public_key();
    let (repo, tmp) = client.lock_repository(world.rid).unwrap();
    let upload = Upload::spawn(&world.server_git_dir()).unwrap();
    let mut handle = Handle::new(local, repo, allowed, BlockList::from_iter(std::iter::empty::<PublicKey>()), upload).unwrap();
    let r = radicle_fetch::clone(&mut handle, FetchLimit::default(), key_of(remote));
    match r {
        Ok(res) => {
            let ok = res.is_success();
            drop(handle);
            if ok {
                // what `worker::fetch::mv` does
                let to = radicle::storage::git::paths::repository(client, &world.rid);
                std::fs::rename(tmp.into_path(), &to).unwrap();
                (Fetched::Ok(res), Some(client.repository(world.rid).unwrap()))
            } else {
                // keep the temporary repository around for inspection
                let path = tmp.into_path();
                let repo = Repository { id: world.rid, backend: git2::Repository::open(path).unwrap() };
                (Fetched::Ok(res), Some(repo))
            }
        }
        Err(e) => {
            let path = tmp.into_path();
            let repo = git2::Repository::open(&path).ok().map(|b| Repository { id: world.rid, backend: b });
            (Fetched::Err(e.to_string()), repo)
        }
    }
}

pub fn pull(world: &World, client: &Storage, remote: u8, allowed: Allowed, refs_at: Option<Vec<RefsAt>>) -> Fetched {
    let local = *peer_key(LOCAL).public_key();
    let repo = client.repository(world.rid).unwrap();
    let upload = Upload::spawn(&world.server_git_dir()).unwrap();
    let mut handle = Handle::new(local, repo, allowed, BlockList::from_iter(std::iter::empty::<PublicKey>()), upload).unwrap();
    match radicle_fetch::pull(&mut handle, FetchLimit::default(), key_of(remote), refs_at) {
        Ok(r) => Fetched::Ok(r),
        Err(e) => Fetched::Err(e.to_string()),
    }
}

pub fn _unused(_: &dyn Read) {}
