pub mod cob;
pub mod fetch;
pub mod service;

/// Scratch directory for one case: on tmpfs when available (sqlite and git
/// fsync there for free), removed when dropped.
pub fn tempdir() -> tempfile::TempDir {
    let shm = std::path::Path::new("/dev/shm");
    if shm.is_dir() {
        if let Ok(d) = tempfile::Builder::new().prefix("vcheck-").tempdir_in(shm) {
            return d;
        }
    }
    tempfile::Builder::new().prefix("vcheck-").tempdir().expect("tempdir")
}
