//! C14 — Frame decoding is memory-bounded and chunking-independent.
//!
//! Sub-checks:
//! * `lengths*`   (a) a frame header followed by a length prefix of every varint width and boundary value and
//!                0..n payload bytes: the largest single allocation made by the decode call is bounded by
//!                64 KiB + the bytes fed; an incomplete frame is never yielded; a complete frame is never
//!                reported as "incomplete" (`Ok(None)`).
//! * `single-cut`, `chunks`  (b) the encoding of 1..8 frames, cut at every single point / at random multi-cuts
//!                (including byte-by-byte), fed through the `Deserializer` exactly like the node's read loop:
//!                the frames come out equal and in order, nothing is left in the buffer.
//! * `inner`      (c) complete gossip frames whose inner message is truncated, over-long, of unknown type or has
//!                an invalid field: an error (never `Ok(None)`).
use proptest::prelude::*;
use radicle::node::PROTOCOL_VERSION;
use radicle_node::deserializer::Deserializer;
use radicle_node::wire::verif::{Control, Frame, FrameData, StreamId, PROTOCOL_VERSION_STRING};
use radicle_node::wire::{self, Encode};
use radicle_node::Link;
use serde::{Deserialize, Serialize};
use serde_json::json;

use super::c15::{self, MsgSpec};
use crate::core::*;
use crate::ensure;

pub const PROP: Prop = Prop {
    id: "C14",
    shards: (8, 16),
    level: "exploration",
    rule: "lengths: (stream kind, stream number, varint width, declared length, bytes supplied); non-trivial = the \
           declared length exceeds the bytes supplied. single-cut/chunks: 1..8 frame specs (gossip messages from \
           C15's generator, git data, control) encoded by Frame::encode and cut at generated positions; non-trivial \
           = >= 2 frames and a cut falls strictly inside a multi-byte varint (stream id or length prefix). inner: a \
           complete gossip frame around a damaged message encoding; non-trivial = the inner message ends before \
           its frame does (truncated). Distinct = hash of the case.",
    assumptions: &[
        "the node's read loop is modelled as: Deserializer<2 MiB, Frame>::default(); input(chunk); then \
         deserialize_next() until Ok(None) (radicle-node/src/wire/protocol.rs, SessionEvent::Data)",
        "memory clause: the largest single allocation request inside one decode call (deserialize_next / \
         Frame::decode) must be <= 65536 + the number of bytes buffered; the inbox buffer's own amortised growth in \
         input() is counted but not judged",
        "trailing bytes after a gossip message inside its frame are a documented extension mechanism (dropped), \
         hence an over-long inner message only must not be reported as incomplete",
        "a git frame prefix with a declared length <= 65535 is a prefix of a valid stream and must read as \
         incomplete; for larger declared lengths an early error is tolerated as well",
    ],
    run,
    budget_s: (600, 7200),
};

/// Inbox bound of the real caller (`wire::protocol::MAX_INBOX_SIZE`).
const INBOX: usize = 2 * 1024 * 1024;
/// The "small constant" of the memory clause.
const SLACK: usize = 64 * 1024;
/// Requests at or above this size terminate the child before they are served.
const TRIP: usize = 256 * 1024 * 1024;

type Inbox = Deserializer<INBOX, Frame>;

// ---------------------------------------------------------------------------
// Independent encoders (used where the bytes must not come from the code under test)
// ---------------------------------------------------------------------------

fn min_width(v: u64) -> usize {
    if v < 1 << 6 {
        1
    } else if v < 1 << 14 {
        2
    } else if v < 1 << 30 {
        4
    } else {
        8
    }
}

/// QUIC varint of `v` in exactly `width` bytes (`v` must fit).
fn enc_varint(v: u64, width: usize) -> Vec<u8> {
    assert!(width >= min_width(v) && v < 1 << 62);
    match width {
        1 => vec![v as u8],
        2 => ((v as u16) | 0b01 << 14).to_be_bytes().to_vec(),
        4 => ((v as u32) | 0b10 << 30).to_be_bytes().to_vec(),
        8 => (v | 0b11 << 62).to_be_bytes().to_vec(),
        _ => unreachable!(),
    }
}

const KIND_CONTROL: u64 = 0b00;
const KIND_GOSSIP: u64 = 0b01;
const KIND_GIT: u64 = 0b10;

fn stream_number(kind: u64, inbound: bool, nth: u64) -> u64 {
    (nth << 3) | (kind << 1) | inbound as u64
}

fn header(kind: u64, inbound: bool, nth: u64) -> Vec<u8> {
    let mut b = vec![b'r', b'a', b'd', PROTOCOL_VERSION];
    let id = stream_number(kind, inbound, nth);
    b.extend(enc_varint(id, min_width(id)));
    b
}

fn link(inbound: bool) -> Link {
    if inbound {
        Link::Inbound
    } else {
        Link::Outbound
    }
}

fn stream_id(kind: u64, inbound: bool, nth: u64) -> StreamId {
    let base = match kind {
        KIND_CONTROL => StreamId::control(link(inbound)),
        KIND_GOSSIP => StreamId::gossip(link(inbound)),
        _ => StreamId::git(link(inbound)),
    };
    base.nth(nth).expect("stream number below 2^62")
}

fn nth() -> impl Strategy<Value = u64> {
    prop_oneof![
        4 => Just(0u64),
        2 => 1u64..8,             // one-byte id
        2 => 8u64..2048,          // two-byte id
        1 => 2048u64..(1 << 27),  // four-byte id
        1 => (1u64 << 27)..(1 << 59), // eight-byte id
        1 => Just((1u64 << 59) - 1),
    ]
}

// ---------------------------------------------------------------------------
// Measured decoding
// ---------------------------------------------------------------------------

fn dump<T: Serialize>(sub: &str, case: &T) -> Vec<u8> {
    serde_json::to_vec(&json!({ "sub": sub, "case": case })).expect("case serializes")
}

/// One `deserialize_next` under the allocation guard, judged against the memory clause.
fn next_frame(ctx: &Ctx, dump: &[u8], de: &mut Inbox) -> Result<Result<Option<Frame>, wire::Error>, Fail> {
    let buffered = de.len();
    let (r, max) = alloc_guard::measure(dump, || de.deserialize_next());
    ensure!(
        max <= SLACK + buffered,
        "alloc-bound",
        "a single allocation of {max} bytes was requested by deserialize_next with {buffered} bytes buffered"
    );
    ctx.count(match max {
        0 => "alloc:none",
        1..=4096 => "alloc:<=4Ki",
        4097..=65536 => "alloc:<=64Ki",
        _ => "alloc:>64Ki(within received bytes)",
    });
    Ok(r)
}

// ---------------------------------------------------------------------------
// (a) declared lengths
// ---------------------------------------------------------------------------

#[derive(Debug, Clone, Serialize, Deserialize, Hash)]
pub struct LenCase {
    /// gossip (false) or git (true) frame
    git: bool,
    inbound: bool,
    nth: u64,
    /// bytes of the length prefix: 1, 2, 4, 8
    width: u8,
    declared: u64,
    /// payload bytes actually supplied after the prefix
    supplied: u32,
    seed: u64,
    /// also call `Frame::decode` directly on a cursor (no Deserializer)
    direct: bool,
}

fn check_len(ctx: &Ctx, sub: &str, c: &LenCase) -> CaseResult {
    let kind = if c.git { KIND_GIT } else { KIND_GOSSIP };
    let mut bytes = header(kind, c.inbound, c.nth);
    bytes.extend(enc_varint(c.declared, c.width as usize));
    let start = bytes.len();
    let mut s = c.seed;
    for _ in 0..c.supplied {
        s = mix(s);
        bytes.push(s as u8);
    }
    let complete = c.supplied as u64 >= c.declared;
    let d = dump(sub, c);

    if c.direct {
        // The decoder on its own, as the Deserializer would call it.
        let mut cur = std::io::Cursor::new(bytes.as_slice());
        let (r, max) = alloc_guard::measure(&d, || <Frame as wire::Decode>::decode(&mut cur));
        ensure!(
            max <= SLACK + bytes.len(),
            "alloc-bound",
            "a single allocation of {max} bytes was requested by Frame::decode on {} bytes (declared length {})",
            bytes.len(),
            c.declared
        );
        if !complete {
            ensure!(r.is_err(), "incomplete-frame-yielded", "declared {} supplied {}: {r:?}", c.declared, c.supplied);
        }
    }

    let mut de = Inbox::default();
    de.input(&bytes).map_err(|e| Fail { sig: "harness:input".into(), msg: e.to_string() })?;
    let r = next_frame(ctx, &d, &mut de)?;
    let minimal = c.width as usize == min_width(c.declared);
    ctx.count(&format!("{sub}:width{}", c.width));
    ctx.count(if c.git { "lengths:git" } else { "lengths:gossip" });
    if !complete {
        ctx.count("lengths:declared>supplied");
        match &r {
            Ok(None) => ctx.count("lengths:incomplete->need-more-data"),
            Err(_) => {
                // Rejecting a prefix of a valid stream breaks chunking independence; only absurd
                // declared lengths may be refused early.
                ensure!(
                    !(c.git && c.declared <= u16::MAX as u64),
                    "valid-prefix-rejected",
                    "git frame prefix (declared {}, supplied {}) was rejected: {r:?}",
                    c.declared,
                    c.supplied
                );
                ctx.count("lengths:incomplete->rejected-early");
            }
            Ok(Some(f)) => {
                return fail(
                    "incomplete-frame-yielded",
                    format!("declared {} but only {} bytes supplied, yet {f:?} came out", c.declared, c.supplied),
                );
            }
        }
        if matches!(r, Ok(None)) {
            ensure!(de.len() == bytes.len(), "incomplete-consumed-input", "{} of {} bytes left", de.len(), bytes.len());
        }
        ctx.nontrivial(c);
        ctx.sample(sub, c);
    } else {
        ctx.count("lengths:complete");
        let payload = &bytes[start..start + c.declared as usize];
        match r {
            Ok(None) => {
                return fail(
                    "complete-frame-reported-incomplete",
                    format!(
                        "{} frame with all {} declared payload bytes present reads as incomplete (payload {:02x?})",
                        if c.git { "git" } else { "gossip" },
                        c.declared,
                        &payload[..payload.len().min(48)]
                    ),
                );
            }
            Ok(Some(f)) => {
                ctx.count("lengths:complete->frame");
                if c.git {
                    let expected: Frame = Frame::git(stream_id(kind, c.inbound, c.nth), payload.to_vec());
                    ensure!(f == expected, "git-frame-differs", "got {f:?}, expected {expected:?}");
                }
                ensure!(
                    de.len() == c.supplied as usize - c.declared as usize,
                    "frame-consumed-wrong-length",
                    "{} bytes left, expected {}",
                    de.len(),
                    c.supplied as u64 - c.declared
                );
            }
            Err(e) => {
                ensure!(
                    !(c.git && minimal),
                    "valid-frame-rejected",
                    "complete git frame (declared {}) rejected: {e}",
                    c.declared
                );
                ctx.count("lengths:complete->error");
            }
        }
    }
    Ok(())
}

const BOUNDARY_LENGTHS: &[u64] =
    &[0, 1, 63, 64, (1 << 14) - 1, 1 << 14, 65535, 65536, 65537, 1 << 20, (1 << 24) + 1, (1 << 28) - 1];
const HUGE_LENGTHS: &[u64] =
    &[1 << 28, (1 << 30) - 1, 1 << 30, 1 << 32, (1 << 32) + 1, 1 << 40, 1 << 47, 1 << 61, (1 << 62) - 1];

fn len_case(values: &'static [u64], random_below: u64) -> impl Strategy<Value = LenCase> {
    let value = prop_oneof![
        3 => proptest::sample::select(values),
        1 => proptest::sample::select(values).prop_map(|v| v.saturating_sub(1)),
        2 => 0..random_below,
    ];
    (value, any::<bool>(), any::<bool>(), nth(), 0u8..4, any::<u8>(), any::<u16>(), any::<u64>(), any::<bool>()).prop_map(
        |(declared, git, inbound, nth, w, sup_class, sup, seed, direct)| {
            let mw = min_width(declared);
            // a width that can hold the value: minimal (mostly) or wider
            let widths: Vec<usize> = [1usize, 2, 4, 8].into_iter().filter(|x| *x >= mw).collect();
            let width = if w == 0 { widths[widths.len() - 1] } else if w == 1 && widths.len() > 1 { widths[1] } else { mw };
            let small = (sup % 200) as u64;
            let supplied = match sup_class % 8 {
                0 => 0,
                1 => small.min(declared.saturating_sub(1)),
                2 | 3 => small,
                // around the declared length when that is affordable
                4 if declared <= 70_000 => declared,
                5 if declared <= 70_000 => declared.saturating_sub(1),
                6 if declared <= 70_000 => declared + 1 + small % 7,
                // a large declared length with one or more full 64 KiB read steps actually supplied
                // (the allocation made *after* the first step must still be bounded)
                6 | 7 if declared > 70_000 => [65_536u64, 65_537, 66_560, 131_072, 196_700][(small % 5) as usize].min(declared - 1),
                _ => small,
            };
            LenCase { git, inbound, nth, width: width as u8, declared, supplied: supplied as u32, seed, direct }
        },
    )
}

fn len_grid(values: &'static [u64]) -> impl Iterator<Item = LenCase> {
    values.iter().flat_map(|v| {
        [1u8, 2, 4, 8].into_iter().filter(move |w| *w as usize >= min_width(*v)).flat_map(move |width| {
            [false, true].into_iter().flat_map(move |git| {
                let mut sup = vec![0u64, 1, 9];
                if *v <= 70_000 {
                    sup.extend([v.saturating_sub(1), *v, *v + 1]);
                } else {
                    sup.extend([65_536, 65_537, 131_073]);
                }
                sup.sort();
                sup.dedup();
                sup.into_iter().flat_map(move |supplied| {
                    [false, true].into_iter().map(move |direct| LenCase {
                        git,
                        inbound: width % 4 == 0,
                        nth: if width == 8 { 9 } else { 0 },
                        width,
                        declared: *v,
                        supplied: supplied as u32,
                        seed: *v ^ supplied,
                        direct,
                    })
                })
            })
        })
    })
}

// ---------------------------------------------------------------------------
// (b) chunking
// ---------------------------------------------------------------------------

#[derive(Debug, Clone, Serialize, Deserialize, Hash)]
pub enum FrameSpec {
    Gossip { inbound: bool, nth: u64, msg: MsgSpec },
    Git { inbound: bool, nth: u64, len: u32, seed: u64 },
    /// cmd: 0 open, 1 close, 2 eof; target = (kind, inbound, nth) of the stream it refers to
    Control { inbound: bool, cmd: u8, target: (u8, bool, u64) },
}

impl FrameSpec {
    fn build(&self) -> Frame {
        match self {
            FrameSpec::Gossip { inbound, nth, msg } => Frame {
                version: PROTOCOL_VERSION_STRING,
                stream: stream_id(KIND_GOSSIP, *inbound, *nth),
                data: FrameData::Gossip(c15::build(msg)),
            },
            FrameSpec::Git { inbound, nth, len, seed } => {
                let mut data = Vec::with_capacity(*len as usize);
                let mut s = *seed;
                for _ in 0..*len {
                    s = mix(s);
                    data.push(s as u8);
                }
                Frame::git(stream_id(KIND_GIT, *inbound, *nth), data)
            }
            FrameSpec::Control { inbound, cmd, target } => {
                let stream = stream_id(target.0 as u64 % 3, target.1, target.2);
                let ctrl = match cmd % 3 {
                    0 => Control::Open { stream },
                    1 => Control::Close { stream },
                    _ => Control::Eof { stream },
                };
                Frame::control(link(*inbound), ctrl)
            }
        }
    }

    /// Offsets (relative to the frame start) of the multi-byte varints in the encoding: (start, len).
    fn varints(&self, encoded: &[u8]) -> Vec<(usize, usize)> {
        let w = |b: u8| 1usize << (b >> 6);
        let mut v = vec![];
        let mut at = 4;
        let n = w(encoded[at]);
        v.push((at, n));
        at += n;
        match self {
            FrameSpec::Control { .. } => {
                at += 1;
                v.push((at, w(encoded[at])));
            }
            _ => v.push((at, w(encoded[at]))),
        }
        v.into_iter().filter(|(_, n)| *n > 1).collect()
    }
}

fn frame_spec(small: bool) -> impl Strategy<Value = FrameSpec> {
    let msg = if small {
        c15::small_msg_strategy().boxed()
    } else {
        prop_oneof![6 => c15::small_msg_strategy(), 1 => c15::msg_strategy()].boxed()
    };
    let git_len = if small {
        prop_oneof![2 => Just(0u32), 1 => Just(1u32), 2 => Just(63u32), 3 => Just(64u32), 4 => 0u32..160].boxed()
    } else {
        prop_oneof![
            1 => Just(0u32), 1 => Just(63u32), 1 => Just(64u32), 1 => Just(16383u32), 1 => Just(16384u32),
            1 => Just(65535u32), 1 => Just(65536u32), 6 => 0u32..300, 1 => 0u32..100_000
        ]
        .boxed()
    };
    prop_oneof![
        4 => (any::<bool>(), prop_oneof![3 => Just(0u64), 1 => nth()], msg)
            .prop_map(|(inbound, nth, msg)| FrameSpec::Gossip { inbound, nth, msg }),
        3 => (any::<bool>(), nth(), git_len, any::<u64>())
            .prop_map(|(inbound, nth, len, seed)| FrameSpec::Git { inbound, nth, len, seed }),
        2 => (any::<bool>(), 0u8..3, (0u8..3, any::<bool>(), nth()))
            .prop_map(|(inbound, cmd, target)| FrameSpec::Control { inbound, cmd, target }),
    ]
}

#[derive(Debug, Clone, Serialize, Deserialize, Hash)]
pub struct ChunkCase {
    frames: Vec<FrameSpec>,
    /// cut positions (monotone-mapped onto 1..len); empty = feed in one piece
    cuts: Vec<u16>,
    /// feed byte by byte instead
    bytewise: bool,
    /// try every single cut position
    every_single_cut: bool,
}

struct Stream {
    bytes: Vec<u8>,
    /// end offset of each frame
    ends: Vec<usize>,
    /// absolute (start, len) of multi-byte varints
    varints: Vec<(usize, usize)>,
}

fn encode_stream(frames: &[FrameSpec]) -> Result<Stream, Fail> {
    let mut bytes = vec![];
    let mut ends = vec![];
    let mut varints = vec![];
    for f in frames {
        let start = bytes.len();
        let n = f.build().encode(&mut bytes).map_err(|e| Fail { sig: "frame-encode-fails".into(), msg: e.to_string() })?;
        ensure!(bytes.len() - start == n, "frame-encode-length", "encode returned {n}, wrote {}", bytes.len() - start);
        varints.extend(f.varints(&bytes[start..]).into_iter().map(|(o, l)| (start + o, l)));
        ends.push(bytes.len());
    }
    Ok(Stream { bytes, ends, varints })
}

fn show(cuts: &[usize]) -> String {
    if cuts.len() <= 12 {
        format!("{cuts:?}")
    } else {
        format!("{:?}… ({} cuts)", &cuts[..12], cuts.len())
    }
}

/// Feed `stream` cut at `cuts` (sorted, within 1..len) through the node's read loop model.
fn feed_and_compare(ctx: &Ctx, d: &[u8], frames: &[FrameSpec], st: &Stream, cuts: &[usize]) -> CaseResult {
    let mut de = Inbox::default();
    let mut out: Vec<Frame> = vec![];
    let mut prev = 0;
    let mut max_input_alloc = 0;
    for end in cuts.iter().copied().chain(std::iter::once(st.bytes.len())) {
        if end < prev {
            continue;
        }
        let chunk = &st.bytes[prev..end];
        prev = end;
        let (r, max) = alloc_guard::measure(d, || de.input(chunk));
        max_input_alloc = max_input_alloc.max(max);
        r.map_err(|e| Fail { sig: "harness:input".into(), msg: e.to_string() })?;
        loop {
            match next_frame(ctx, d, &mut de)? {
                Ok(Some(f)) => out.push(f),
                Ok(None) => break,
                Err(e) => {
                    return fail(
                        "valid-stream-rejected",
                        format!("after {end} of {} bytes (cuts {}): {e}; {} frames out so far", st.bytes.len(), show(cuts), out.len()),
                    );
                }
            }
        }
        // Everything yielded so far is a prefix of what was sent ...
        ensure!(out.len() <= frames.len(), "extra-frames", "{} frames out of {} sent", out.len(), frames.len());
        // ... and when the bytes fed so far are themselves a whole number of frames, all of them are out.
        if let Some(k) = st.ends.iter().position(|e| *e == end) {
            ensure!(
                out.len() == k + 1,
                "frame-count-at-boundary",
                "fed exactly {} frames ({end} bytes, cuts {}) but {} came out",
                k + 1,
                show(cuts),
                out.len()
            );
        }
    }
    for (i, (got, spec)) in out.iter().zip(frames.iter()).enumerate() {
        let expected = spec.build();
        ensure!(*got == expected, "frame-differs", "frame {i} (cuts {}): got {got:?}, sent {expected:?}", show(cuts));
    }
    ensure!(out.len() == frames.len(), "frames-missing", "{} of {} frames came out (cuts {})", out.len(), frames.len(), show(cuts));
    ensure!(de.is_empty(), "buffer-not-empty", "{} bytes left after all frames (cuts {})", de.len(), show(cuts));
    if max_input_alloc > SLACK + st.bytes.len() {
        ctx.count("chunks:inbox-growth-above-64Ki+received(not judged)");
    }
    Ok(())
}

fn check_chunks(ctx: &Ctx, sub: &str, c: &ChunkCase) -> CaseResult {
    let st = encode_stream(&c.frames)?;
    let len = st.bytes.len();
    let d = dump(sub, c);
    let inside = |cut: usize| st.varints.iter().any(|(s, l)| cut > *s && cut < s + l);
    let mut nontrivial = false;
    if c.every_single_cut {
        for k in 0..=len {
            feed_and_compare(ctx, &d, &c.frames, &st, &[k])?;
        }
        ctx.count_n("chunks:single-cut-positions", len as u64 + 1);
        nontrivial = c.frames.len() >= 2 && !st.varints.is_empty();
    } else {
        let cuts: Vec<usize> = if c.bytewise {
            (1..len).collect()
        } else {
            let mut v: Vec<usize> = c.cuts.iter().map(|p| if len > 1 { 1 + pick(*p, len - 1) } else { 0 }).collect();
            v.sort();
            v.dedup();
            v
        };
        feed_and_compare(ctx, &d, &c.frames, &st, &cuts)?;
        if cuts.iter().any(|k| inside(*k)) {
            ctx.count("chunks:cut-inside-varint");
            nontrivial = c.frames.len() >= 2;
        }
        if cuts.iter().any(|k| st.ends.contains(k)) {
            ctx.count("chunks:cut-at-frame-boundary");
        }
        ctx.count(if c.bytewise { "chunks:bytewise" } else if cuts.is_empty() { "chunks:one-piece" } else { "chunks:multi-cut" });
    }
    ctx.count(&format!("chunks:frames={}", c.frames.len()));
    for f in &c.frames {
        ctx.count(match f {
            FrameSpec::Gossip { .. } => "chunks:frame:gossip",
            FrameSpec::Git { .. } => "chunks:frame:git",
            FrameSpec::Control { .. } => "chunks:frame:control",
        });
    }
    ctx.count(match len {
        0..=255 => "chunks:stream<256",
        256..=4095 => "chunks:stream<4Ki",
        4096..=65535 => "chunks:stream<64Ki",
        _ => "chunks:stream>=64Ki",
    });
    if nontrivial {
        ctx.nontrivial(c);
        ctx.sample(sub, c);
    }
    Ok(())
}

fn single_cut_case() -> impl Strategy<Value = ChunkCase> {
    proptest::collection::vec(frame_spec(true), 1..=4)
        .prop_map(|frames| ChunkCase { frames, cuts: vec![], bytewise: false, every_single_cut: true })
}

fn chunk_case() -> impl Strategy<Value = ChunkCase> {
    (
        proptest::collection::vec(frame_spec(false), 1..=8),
        prop_oneof![
            1 => Just(vec![]),
            3 => proptest::collection::vec(any::<u16>(), 1..4),
            2 => proptest::collection::vec(any::<u16>(), 4..40),
        ],
        proptest::bool::weighted(0.15),
    )
        .prop_map(|(frames, cuts, bytewise)| ChunkCase { frames, cuts, bytewise, every_single_cut: false })
}

// ---------------------------------------------------------------------------
// (c) damaged inner messages in complete frames
// ---------------------------------------------------------------------------

#[derive(Debug, Clone, Serialize, Deserialize, Hash)]
pub enum Damage {
    /// keep only the first `keep` (monotone-mapped, < len) bytes of the message
    Truncate { keep: u16 },
    /// drop the last `drop` (>= 1) bytes
    TruncateBack { drop: u8 },
    /// append bytes after the message
    Overlong { extra: Vec<u8> },
    /// replace the message type by one that is not assigned
    UnknownType { type_id: u16 },
    /// an invalid value in a fixed-position field (see `invalidate`)
    Field { which: u8, val: u16 },
    /// an empty payload
    Empty,
}

#[derive(Debug, Clone, Serialize, Deserialize, Hash)]
pub struct InnerCase {
    msg: MsgSpec,
    damage: Damage,
    inbound: bool,
    /// length prefix width class: false = minimal
    wide: bool,
    /// a valid pong frame follows
    trailer: bool,
    /// feed in two pieces, cut at this (monotone-mapped) position
    cut: Option<u16>,
}

/// What the statement demands for the damaged frame.
#[derive(Debug, PartialEq)]
enum Expect {
    /// complete and invalid: an error
    Error,
    /// complete; validity not decided by this check: anything but "incomplete"
    NotIncomplete,
    /// complete and valid: the frame
    Valid,
}

const ASSIGNED_TYPES: [u16; 7] = [2, 4, 6, 8, 10, 12, 14];

/// Overwrite a fixed-position field with an invalid value. Returns None when not applicable.
/// Layouts (wire format): announcement = type(2) node(32) signature(64) body; oid = u16 length (20) + bytes.
fn invalidate(spec: &MsgSpec, bytes: &mut [u8], which: u8, val: u16) -> Option<&'static str> {
    let put16 = |b: &mut [u8], at: usize, v: u16| b[at..at + 2].copy_from_slice(&v.to_be_bytes());
    match spec {
        MsgSpec::Info { .. } => match which % 3 {
            0 => {
                // info type: only 1 is assigned
                let v = if val == 1 { 0 } else { val };
                put16(bytes, 2, v);
                Some("info-type")
            }
            1 => {
                let v = if val == 20 { 21 } else { val };
                put16(bytes, 4, v);
                Some("oid-length")
            }
            _ => {
                let v = if val == 20 { 19 } else { val };
                put16(bytes, 26, v);
                Some("oid-length")
            }
        },
        MsgSpec::Refs { .. } => match which % 2 {
            0 => {
                let v = if val == 20 { 32 } else { val };
                put16(bytes, 98, v);
                Some("oid-length")
            }
            _ => {
                // timestamp (last 8 bytes) above Timestamp::MAX
                let n = bytes.len();
                bytes[n - 8] |= 0x80;
                Some("timestamp")
            }
        },
        MsgSpec::Inventory { .. } => match which % 2 {
            0 => {
                // more items than INVENTORY_LIMIT
                let v = val.max(2974);
                put16(bytes, 98, v);
                Some("count-over-limit")
            }
            _ => {
                let n = bytes.len();
                bytes[n - 8] |= 0x80;
                Some("timestamp")
            }
        },
        MsgSpec::Subscribe { .. } => {
            let v = if [1024, 4096, 16384].contains(&val) { val + 1 } else { val };
            put16(bytes, 2, v);
            Some("filter-size")
        }
        MsgSpec::Node { .. } => match which % 2 {
            0 => {
                // type(2) node(32) sig(64) version(1) features(8) timestamp(8)
                bytes[107] |= 0x80;
                Some("timestamp")
            }
            _ => {
                // empty alias
                bytes[115] = 0;
                Some("alias-empty")
            }
        },
        MsgSpec::Ping { .. } | MsgSpec::Pong { .. } => None,
    }
}

fn check_inner(ctx: &Ctx, sub: &str, c: &InnerCase) -> CaseResult {
    let valid = wire::serialize(&c15::build(&c.msg));
    let mut inner = valid.clone();
    let (class, expect) = match &c.damage {
        Damage::Truncate { .. } | Damage::TruncateBack { .. } | Damage::Empty => {
            let keep = match &c.damage {
                Damage::Truncate { keep } => pick(*keep, valid.len()),
                Damage::TruncateBack { drop } => valid.len().saturating_sub((*drop).max(1) as usize),
                _ => 0,
            };
            inner.truncate(keep);
            // The one proper prefix of a message that is itself a message: a node announcement
            // without its trailing user-agent field.
            let legacy = match &c.msg {
                MsgSpec::Node { agent, .. } => keep == valid.len() - (agent.len() + 1),
                _ => false,
            };
            if legacy {
                ("legacy-no-agent", Expect::NotIncomplete)
            } else {
                ("truncated", Expect::Error)
            }
        }
        Damage::Overlong { extra } => {
            inner.extend_from_slice(extra);
            ("overlong", Expect::NotIncomplete)
        }
        Damage::UnknownType { type_id } => {
            let t = if ASSIGNED_TYPES.contains(type_id) { type_id + 1 } else { *type_id };
            inner[..2].copy_from_slice(&t.to_be_bytes());
            ("unknown-type", Expect::Error)
        }
        Damage::Field { which, val } => match invalidate(&c.msg, &mut inner, *which, *val) {
            Some(_) => ("invalid-field", Expect::Error),
            None => ("intact", Expect::Valid),
        },
    };
    // The frame around it, assembled by hand.
    let mut bytes = header(KIND_GOSSIP, c.inbound, 0);
    let width = if c.wide { (min_width(inner.len() as u64) * 2).min(8) } else { min_width(inner.len() as u64) };
    bytes.extend(enc_varint(inner.len() as u64, width));
    bytes.extend_from_slice(&inner);
    let frame_len = bytes.len();
    let trailer = FrameSpec::Gossip { inbound: c.inbound, nth: 0, msg: MsgSpec::Pong { zeroes: 3 } };
    if c.trailer {
        trailer.build().encode(&mut bytes).expect("encode to vec");
    }
    let d = dump(sub, c);
    let mut de = Inbox::default();
    // optionally in two pieces: nothing may come out (or fail) before the frame is complete... unless
    // the first piece already holds the whole damaged frame.
    let first = match c.cut {
        Some(p) if bytes.len() > 1 => 1 + pick(p, bytes.len() - 1),
        _ => bytes.len(),
    };
    let mut result = None;
    let mut fed = 0;
    for end in [first, bytes.len()] {
        if end <= fed {
            continue;
        }
        de.input(&bytes[fed..end]).map_err(|e| Fail { sig: "harness:input".into(), msg: e.to_string() })?;
        fed = end;
        let r = next_frame(ctx, &d, &mut de)?;
        if end < frame_len {
            ensure!(
                !matches!(r, Ok(Some(_))),
                "incomplete-frame-yielded",
                "{end} of {frame_len} frame bytes fed, got {r:?}"
            );
            if r.is_err() {
                // an early verdict on a frame that is going to be invalid anyway is fine
                ensure!(expect != Expect::Valid, "valid-stream-rejected", "prefix of a valid frame rejected: {r:?}");
                ctx.count("inner:rejected-before-complete");
                result = Some(r);
                break;
            }
        } else {
            result = Some(r);
            break;
        }
    }
    let r = result.expect("at least one piece");
    ctx.count(&format!("inner:{class}:{}", c.msg.kind()));
    match (&r, &expect) {
        (Ok(None), _) => {
            return fail(
                "complete-frame-reported-incomplete",
                format!(
                    "complete gossip frame with a {class} {} ({} of {} message bytes) reads as incomplete: the stream stalls",
                    c.msg.kind(),
                    inner.len(),
                    valid.len()
                ),
            );
        }
        (Ok(Some(f)), Expect::Error) => {
            let sig = if class == "truncated" && matches!(c.msg, MsgSpec::Node { .. }) {
                "truncated-message-accepted:partial-user-agent".to_string()
            } else {
                format!("invalid-message-accepted:{class}")
            };
            return fail(sig, format!("{class} {} in a complete frame was accepted as {f:?}", c.msg.kind()));
        }
        (Err(e), Expect::Valid) => {
            return fail("valid-stream-rejected", format!("intact {} frame rejected: {e}", c.msg.kind()));
        }
        (Ok(Some(_)), Expect::NotIncomplete | Expect::Valid) => {
            ctx.count(&format!("inner:{class}->frame"));
            // the frame is consumed; the trailer (if any) comes out next
            if c.trailer {
                if fed < bytes.len() {
                    de.input(&bytes[fed..]).map_err(|e| Fail { sig: "harness:input".into(), msg: e.to_string() })?;
                }
                let t = next_frame(ctx, &d, &mut de)?;
                ensure!(
                    matches!(&t, Ok(Some(f)) if *f == trailer.build()),
                    "frame-after-extension-lost",
                    "the frame following a {class} message came out as {t:?}"
                );
            }
        }
        (Err(_), _) => ctx.count(&format!("inner:{class}->error")),
    }
    if class == "truncated" {
        ctx.nontrivial(c);
        ctx.sample(sub, c);
    }
    Ok(())
}

fn damage() -> impl Strategy<Value = Damage> {
    prop_oneof![
        4 => any::<u16>().prop_map(|keep| Damage::Truncate { keep }),
        4 => (1u8..80).prop_map(|drop| Damage::TruncateBack { drop }),
        2 => proptest::collection::vec(any::<u8>(), 1..16).prop_map(|extra| Damage::Overlong { extra }),
        2 => prop_oneof![0u16..20, any::<u16>()].prop_map(|type_id| Damage::UnknownType { type_id }),
        3 => (any::<u8>(), prop_oneof![Just(0u16), Just(19), Just(21), Just(0xffff), any::<u16>()])
            .prop_map(|(which, val)| Damage::Field { which, val }),
        1 => Just(Damage::Empty),
    ]
}

fn inner_case() -> impl Strategy<Value = InnerCase> {
    (
        prop_oneof![5 => c15::small_msg_strategy(), 1 => c15::msg_strategy()],
        damage(),
        any::<bool>(),
        proptest::bool::weighted(0.2),
        proptest::bool::weighted(0.4),
        proptest::option::weighted(0.3, any::<u16>()),
    )
        .prop_map(|(msg, damage, inbound, wide, trailer, cut)| InnerCase { msg, damage, inbound, wide, trailer, cut })
}

/// Every truncation point of a handful of small messages.
fn inner_grid() -> impl Iterator<Item = InnerCase> {
    let msgs = vec![
        MsgSpec::Pong { zeroes: 2 },
        MsgSpec::Ping { ponglen: 7, zeroes: 1 },
        MsgSpec::Info { rid: 1, at: 2 },
        MsgSpec::Inventory { key: 1, sig: c15::SigSpec::Raw(1), inv: c15::Bulk { n: 1, seed: 3 }, timestamp: 5 },
        MsgSpec::Refs { key: 1, sig: c15::SigSpec::Raw(1), rid: 4, refs: c15::Bulk { n: 1, seed: 3 }, timestamp: 5 },
        MsgSpec::Node {
            key: 1,
            sig: c15::SigSpec::Raw(1),
            version: 1,
            features: 1,
            timestamp: 5,
            alias: "al".into(),
            addrs: vec![c15::AddrSpec::V4([1, 2, 3, 4], 8776), c15::AddrSpec::Dns("seed.example".into(), 1)],
            nonce: 3,
            agent: "/radicle:1.2/".into(),
        },
    ];
    msgs.into_iter().flat_map(|m| {
        let len = wire::serialize(&c15::build(&m)).len();
        (1..=len as u8).map(move |drop| InnerCase {
            msg: m.clone(),
            damage: Damage::TruncateBack { drop },
            inbound: drop % 2 == 0,
            wide: drop % 5 == 0,
            trailer: drop % 3 == 0,
            cut: None,
        })
    })
}

/// Golden frame encodings (fuzz seed corpus) when `VERIF_GOLDEN` names a directory.
fn write_golden(ctx: &Ctx) {
    let Ok(dir) = std::env::var("VERIF_GOLDEN") else { return };
    if ctx.shard != 0 {
        return;
    }
    let fdir = std::path::Path::new(&dir).join("frame");
    std::fs::create_dir_all(&fdir).expect("golden dir");
    std::fs::write(fdir.join("empty"), b"").expect("write golden");
    let frames = ctx.draw("golden", &proptest::collection::vec(frame_spec(true), 64));
    for (i, f) in frames.iter().enumerate() {
        let b = f.build().to_bytes();
        let kind = match f {
            FrameSpec::Gossip { msg, .. } => format!("gossip-{}", msg.kind()),
            FrameSpec::Git { .. } => "git".to_string(),
            FrameSpec::Control { .. } => "control".to_string(),
        };
        std::fs::write(fdir.join(format!("{kind}-{:016x}", hash_of(&b))), &b).expect("write golden");
        if i % 8 == 0 {
            // a short stream of several frames
            let st: Vec<u8> = frames[i..(i + 3).min(frames.len())].iter().flat_map(|f| f.build().to_bytes()).collect();
            std::fs::write(fdir.join(format!("stream-{:016x}", hash_of(&st))), &st).expect("write golden");
        }
    }
}

fn run(ctx: &Ctx) {
    alloc_guard::TRIP_LIMIT.store(TRIP, std::sync::atomic::Ordering::SeqCst);
    write_golden(ctx);
    if std::env::var("VERIF_GOLDEN_ONLY").is_ok() {
        return;
    }
    ctx.enumerate("lengths-grid", len_grid(BOUNDARY_LENGTHS), true, |c: &LenCase| check_len(ctx, "lengths-grid", c));
    ctx.enumerate("inner-grid", inner_grid(), true, |c: &InnerCase| check_inner(ctx, "inner-grid", c));
    ctx.run("lengths", len_case(BOUNDARY_LENGTHS, 1 << 21), ctx.cases(8_000, 200_000), |c: &LenCase| {
        check_len(ctx, "lengths", c)
    });
    ctx.run("single-cut", single_cut_case(), ctx.cases(1_500, 30_000), |c: &ChunkCase| check_chunks(ctx, "single-cut", c));
    ctx.run("chunks", chunk_case(), ctx.cases(6_000, 240_000), |c: &ChunkCase| check_chunks(ctx, "chunks", c));
    ctx.run("inner", inner_case(), ctx.cases(10_000, 400_000), |c: &InnerCase| check_inner(ctx, "inner", c));
    // Declared lengths that would abort the process when allocated: last, because on a defective tree
    // the allocation guard terminates this shard (the parent reports it as the violation).
    ctx.enumerate("lengths-grid-huge", len_grid(HUGE_LENGTHS), true, |c: &LenCase| check_len(ctx, "lengths-grid-huge", c));
    ctx.run("lengths-huge", len_case(HUGE_LENGTHS, 1 << 62), ctx.cases(3_000, 100_000), |c: &LenCase| {
        check_len(ctx, "lengths-huge", c)
    });
}

// ---------------------------------------------------------------------------
// Entry point for the coverage-guided target (/verif/harness/fuzz, target `wire_frames`)
// ---------------------------------------------------------------------------

thread_local! {
    static FUZZ_CTX: Ctx = Ctx::new("C14", Tier::Thorough, 0, 0, 1);
}

/// Decode `stream` fed in chunks of the given sizes (cyclic; empty = all at once): frames, first error, bytes left.
fn fuzz_feed(ctx: &Ctx, stream: &[u8], sizes: &[usize]) -> Result<(Vec<Frame>, Option<String>, usize), Fail> {
    let mut de = Inbox::default();
    let mut out = vec![];
    let mut pos = 0;
    let mut k = 0;
    while pos < stream.len() {
        let n = if sizes.is_empty() { stream.len() } else { sizes[k % sizes.len()].max(1) };
        k += 1;
        let end = (pos + n).min(stream.len());
        if de.input(&stream[pos..end]).is_err() {
            return Ok((out, Some("inbox full".into()), de.len()));
        }
        pos = end;
        loop {
            match next_frame(ctx, stream, &mut de)? {
                Ok(Some(f)) => out.push(f),
                Ok(None) => break,
                Err(e) => return Ok((out, Some(e.to_string()), de.len())),
            }
        }
    }
    Ok((out, None, de.len()))
}

/// One libFuzzer iteration. The first two bytes choose the chunking, the rest is the inbound stream.
/// Clauses: (memory) no single allocation above 64 KiB + bytes buffered, for arbitrary bytes in any chunking;
/// (chunking) if the stream decodes completely and is the canonical encoding of the decoded frames, feeding
/// it in chunks yields exactly the same frames.
pub fn fuzz_one(data: &[u8]) {
    if data.len() < 3 {
        return;
    }
    // No trip wire here: an oversized request reaches the allocator, where libFuzzer's malloc limit
    // (or the sanitizer's own size check) turns it into a crash with a saved input.
    let (sel, stream) = data.split_at(2);
    // at most ~256 chunks per stream: the work per iteration stays linear in the input
    let floor = stream.len() / 128;
    let sizes = [floor + 1 + (sel[0] & 0x3f) as usize, floor + 1 + (sel[1] as usize) * ((sel[0] >> 6) as usize + 1)];
    FUZZ_CTX.with(|ctx| {
        let r = (|| -> CaseResult {
            let (whole, werr, wleft) = fuzz_feed(ctx, stream, &[])?;
            let (chunked, cerr, _) = fuzz_feed(ctx, stream, &sizes)?;
            if werr.is_none() && wleft == 0 {
                let mut again = vec![];
                for f in &whole {
                    if f.encode(&mut again).is_err() {
                        return Ok(());
                    }
                }
                if again == stream {
                    ensure!(
                        cerr.is_none() && chunked == whole,
                        "fuzz:chunked-differs",
                        "stream of {} frames fed in chunks of {sizes:?} gives {} frames, error {cerr:?}",
                        whole.len(),
                        chunked.len()
                    );
                }
            }
            Ok(())
        })();
        if let Err(f) = r {
            if !ctx.is_known(&f.sig) {
                panic!("VIOLATION property=C14 signature={} {}", f.sig, f.msg);
            }
        }
    });
}
