//! C07 — Issue and patch actions obey the authorization rules.
//!
//! Model-repo lab: `Issue` / `Patch` are driven purely in memory through
//! `Cob::{from_root, op}` against `ModelRepo`. Each history step is one op; the
//! oracle compares ACCESSOR snapshots before/after the op (delta invariants) and,
//! for single-action ops, an independently written reference authorization table.
use std::collections::{BTreeMap, BTreeSet};

use proptest::prelude::*;
use radicle::cob::issue::{self, Issue};
use radicle::cob::patch::{self, Patch, RevisionId, ReviewId};
use radicle::cob::store::Cob;
use radicle::cob::thread::{Comment, Thread};
use radicle::cob::{Label, Manifest, Op, Reaction, Timestamp, Version};
use radicle::crypto::PublicKey;
use radicle::git::Oid;
use radicle::identity::Did;
use serde::{Deserialize, Serialize};

use super::modelrepo::*;
use crate::core::*;
use crate::ensure;

pub const PROP: Prop = Prop {
    id: "C07",
    shards: (8, 16),
    level: "exploration",
    rule: "A case is (1..3 identity documents = delegate sets over 6 actor keys + thresholds, object author, \
           <= 25 (issue) / 30 (patch) ops). Each op has an actor, refers to one of the documents and carries 1..3 actions drawn from \
           every Issue / Patch action variant (targets are indices into the comments / revisions / reviews that \
           exist so far incl. redacted ones, or a never-created id; `*Same` variants are no-op label/assign). \
           After every accepted op the accessor snapshot before/after is compared: assignees/labels/merges \
           changed => actor is a delegate of the op's document; title/state changed => delegate or object \
           author; comment/review(/revision) edited or redacted => delegate or its author (objects that vanish \
           because their containing revision/review was redacted are not attributed). For single-action ops \
           that the reference table denies (or whose target is redacted/missing) the op must fail or leave the \
           snapshot unchanged. Non-trivial: the history contains >= 1 reference-denied action and >= 1 \
           effective action by a non-delegate that the table allows, or an edit/redact aimed at a redacted \
           target. Distinct = hash of the case.",
    assumptions: &[
        "an op refers to an identity document that exists (identity_doc_at succeeds)",
        "an op carries at most one identifier-producing / thread-touching action (Transaction::push enforces \
         the former; the thread timeline debug_assert the latter), further ones are dropped by the interpreter",
        "ops rejected with Err are rolled back by the harness (clone restored): what a rejected op leaves \
         behind is C06's subject, not C07's",
        "`concurrent` entries are not used by Issue/Patch::action (parameter is ignored) => empty iterator",
        "revision edit/redact by a non-author non-delegate is treated like comment/review edit/redact \
         (DESIGN oracle; the code documents 'only the revision author can edit or redact their revision')",
    ],
    run,
    budget_s: (900, 7200),
};

// ---------------------------------------------------------------------------
// Case types
// ---------------------------------------------------------------------------

#[derive(Debug, Clone, Serialize, Deserialize, Hash)]
pub struct Setup {
    pub docs: Vec<DocSpec>,
    pub author: u8,
    pub root_doc: u8,
}

#[derive(Debug, Clone, Serialize, Deserialize, Hash)]
pub enum IAct {
    Assign(u8),
    AssignSame,
    Label(u8),
    LabelSame,
    Edit(u8),
    Lifecycle(u8),
    Comment { reply: Option<u16> },
    CommentEdit { target: u16 },
    CommentRedact { target: u16 },
    React { target: u16, active: bool },
}

#[derive(Debug, Clone, Serialize, Deserialize, Hash)]
pub struct IStep {
    pub actor: u8,
    pub doc: u8,
    pub acts: Vec<IAct>,
}

#[derive(Debug, Clone, Serialize, Deserialize, Hash)]
pub struct IssueCase {
    pub setup: Setup,
    pub root_extra: Vec<IAct>,
    pub steps: Vec<IStep>,
}

#[derive(Debug, Clone, Serialize, Deserialize, Hash)]
pub enum PAct {
    Edit(u8),
    Label(u8),
    LabelSame,
    Assign(u8),
    AssignSame,
    Lifecycle(u8),
    Merge { rev: u16, commit: u8 },
    Revision,
    RevisionEdit { rev: u16 },
    RevisionRedact { rev: u16 },
    RevisionReact { rev: u16, active: bool },
    RevComment { rev: u16, reply: bool },
    RevCommentEdit { t: u16 },
    RevCommentRedact { t: u16 },
    RevCommentReact { t: u16, active: bool },
    Review { rev: u16, verdict: u8 },
    ReviewEdit { review: u16, verdict: u8 },
    ReviewRedact { review: u16 },
    ReviewComment { review: u16 },
    ReviewCommentEdit { t: u16 },
    ReviewCommentRedact { t: u16 },
    ReviewCommentReact { t: u16, active: bool },
    ReviewCommentResolve { t: u16 },
    ReviewCommentUnresolve { t: u16 },
}

#[derive(Debug, Clone, Serialize, Deserialize, Hash)]
pub struct PStep {
    pub actor: u8,
    pub doc: u8,
    pub acts: Vec<PAct>,
}

#[derive(Debug, Clone, Serialize, Deserialize, Hash)]
pub struct PatchCase {
    pub setup: Setup,
    pub root_extra: Vec<PAct>,
    pub steps: Vec<PStep>,
}

// ---------------------------------------------------------------------------
// Shared helpers
// ---------------------------------------------------------------------------

const TITLES: [&str; 4] = ["", "alpha", "beta", "gamma"];

fn labels_of(mask: u8) -> BTreeSet<Label> {
    (0..4).filter(|i| mask >> i & 1 == 1).map(|i| Label::new(format!("l{i}")).unwrap()).collect()
}

fn dids_of(mask: u8, keys: &[PublicKey]) -> BTreeSet<Did> {
    (0..ACTORS).filter(|i| mask >> i & 1 == 1).map(|i| Did::from(keys[i])).collect()
}

fn aidx(keys: &[PublicKey], pk: &PublicKey) -> u8 {
    keys.iter().position(|k| k == pk).map(|i| i as u8).unwrap_or(255)
}

/// Monotone choice among `len` existing items, with a small top slot meaning "an id that never existed".
fn choose(t: u16, len: usize) -> Option<usize> {
    let k = pick(t, len * 8 + 1);
    if k == len * 8 {
        None
    } else {
        Some(k / 8)
    }
}

fn reaction() -> Reaction {
    Reaction::new('\u{1F600}').unwrap()
}

fn doc_ix(setup: &Setup, doc: u8) -> usize {
    (doc as usize).min(setup.docs.len() - 1)
}

fn setup_normalised(s: &Setup) -> Setup {
    let docs: Vec<DocSpec> = if s.docs.is_empty() {
        vec![DocSpec { delegates: 1, threshold: 1 }]
    } else {
        s.docs.iter().map(|d| d.normalised()).collect()
    };
    Setup { docs, author: s.author.min(ACTORS as u8 - 1), root_doc: s.root_doc }
}

fn fixed_repo(setup: &Setup) -> ModelRepo {
    // commits: 0 <- 1, 2 unrelated; every actor's default branch is at commit 1.
    let dag = DagSpec { parents: vec![0, 0b1, 0] };
    ModelRepo::new(&setup.docs, dag, vec![Some(1); ACTORS])
}

#[derive(Debug, Clone, PartialEq, Eq)]
struct CSnap {
    author: u8,
    edits: Vec<(u8, String)>,
    reactions: BTreeSet<(u8, char)>,
    resolved: bool,
    reply_to: Option<Oid>,
}

fn thread_snap<L>(keys: &[PublicKey], t: &Thread<Comment<L>>) -> BTreeMap<Oid, CSnap> {
    t.comments().map(|(id, c)| (*id, comment_snap(keys, c))).collect()
}

/// What the reference table (written from the property statement) says about one action.
#[derive(Debug, Clone, Copy, PartialEq, Eq)]
enum Ref {
    /// actor is a delegate of the op's document: everything is allowed
    Delegate,
    /// restricted action, actor qualifies (object author / target's author)
    Allowed,
    /// restricted action, actor does not qualify
    Denied,
    /// restricted action whose target is redacted or never existed: must be ignored or rejected
    TargetGone,
    /// action not restricted by the statement (comment, react, new revision/review, resolve)
    Unrestricted,
}

impl Ref {
    fn name(&self) -> &'static str {
        match self {
            Ref::Delegate => "delegate",
            Ref::Allowed => "allowed",
            Ref::Denied => "denied",
            Ref::TargetGone => "target-gone",
            Ref::Unrestricted => "unrestricted",
        }
    }
}

#[derive(Default)]
struct Triv {
    denied: bool,
    allowed_effect_nondelegate: bool,
    redacted_target: bool,
}

impl Triv {
    fn nontrivial(&self) -> bool {
        (self.denied && self.allowed_effect_nondelegate) || self.redacted_target
    }
}

fn role_name(setup: &Setup, actor: usize, doc: usize, contributors: &BTreeSet<u8>) -> &'static str {
    if setup.docs[doc].is_delegate(actor) {
        "delegate"
    } else if actor == setup.author as usize {
        "object-author"
    } else if setup.docs.iter().any(|d| d.is_delegate(actor)) {
        "delegate-of-other-doc-only"
    } else if contributors.contains(&(actor as u8)) {
        "contributor"
    } else {
        "stranger"
    }
}

// ---------------------------------------------------------------------------
// Issue
// ---------------------------------------------------------------------------

#[derive(Debug, Clone, PartialEq, Eq)]
struct ISnap {
    title: String,
    state: String,
    assignees: BTreeSet<String>,
    labels: BTreeSet<String>,
    comments: BTreeMap<Oid, CSnap>,
}

fn issue_snap(keys: &[PublicKey], i: &Issue) -> ISnap {
    ISnap {
        title: i.title().to_string(),
        state: format!("{:?}", i.state()),
        assignees: i.assignees().map(|d| d.to_string()).collect(),
        labels: i.labels().map(|l| l.name().to_string()).collect(),
        comments: thread_snap(keys, i.thread()),
    }
}

fn is_thread_act_i(a: &IAct) -> bool {
    matches!(a, IAct::Comment { .. } | IAct::CommentEdit { .. } | IAct::CommentRedact { .. } | IAct::React { .. })
}

fn iact_kind(a: &IAct) -> &'static str {
    match a {
        IAct::Assign(_) => "assign",
        IAct::AssignSame => "assign-noop",
        IAct::Label(_) => "label",
        IAct::LabelSame => "label-noop",
        IAct::Edit(_) => "edit",
        IAct::Lifecycle(_) => "lifecycle",
        IAct::Comment { .. } => "comment",
        IAct::CommentEdit { .. } => "comment.edit",
        IAct::CommentRedact { .. } => "comment.redact",
        IAct::React { .. } => "comment.react",
    }
}

struct IConcrete {
    action: issue::Action,
    reference: Ref,
    /// the action is an edit/redact aimed at a redacted comment
    redacted_target: bool,
}

fn issue_concrete(
    a: &IAct,
    step: usize,
    actor: usize,
    is_del: bool,
    is_author: bool,
    keys: &[PublicKey],
    obj: &Issue,
    before: &ISnap,
    known: &[Oid],
) -> IConcrete {
    let missing = oid_of(TAG_MISSING, step as u32);
    let target = |t: u16| -> (Oid, bool) {
        match choose(t, known.len()) {
            Some(i) => (known[i], true),
            None => (missing, false),
        }
    };
    let by_author = |ok: bool| if is_del { Ref::Delegate } else if ok { Ref::Allowed } else { Ref::Denied };
    let mut redacted_target = false;
    let (action, reference) = match a {
        IAct::Assign(m) => (issue::Action::Assign { assignees: dids_of(*m, keys) }, by_author(false)),
        IAct::AssignSame => {
            (issue::Action::Assign { assignees: obj.assignees().cloned().collect() }, by_author(false))
        }
        IAct::Label(m) => (issue::Action::Label { labels: labels_of(*m) }, by_author(false)),
        IAct::LabelSame => (issue::Action::Label { labels: obj.labels().cloned().collect() }, by_author(false)),
        IAct::Edit(t) => {
            (issue::Action::Edit { title: TITLES[(*t & 3) as usize].to_string() }, by_author(is_author))
        }
        IAct::Lifecycle(s) => {
            let state = match s & 3 {
                0 => issue::State::Open,
                1 => issue::State::Closed { reason: issue::CloseReason::Other },
                _ => issue::State::Closed { reason: issue::CloseReason::Solved },
            };
            (issue::Action::Lifecycle { state }, by_author(is_author))
        }
        IAct::Comment { reply } => {
            let reply_to = reply.map(|t| target(t).0);
            (
                issue::Action::Comment { body: format!("c{step}"), reply_to, embeds: vec![] },
                if is_del { Ref::Delegate } else { Ref::Unrestricted },
            )
        }
        IAct::CommentEdit { target: t } | IAct::CommentRedact { target: t } => {
            let (id, existed) = target(*t);
            let r = match before.comments.get(&id) {
                Some(c) => by_author(c.author as usize == actor),
                None => {
                    redacted_target = existed;
                    if is_del {
                        Ref::Delegate
                    } else {
                        Ref::TargetGone
                    }
                }
            };
            let action = if matches!(a, IAct::CommentEdit { .. }) {
                issue::Action::CommentEdit { id, body: format!("e{step}"), embeds: vec![] }
            } else {
                issue::Action::CommentRedact { id }
            };
            (action, r)
        }
        IAct::React { target: t, active } => (
            issue::Action::CommentReact { id: target(*t).0, reaction: reaction(), active: *active },
            if is_del { Ref::Delegate } else { Ref::Unrestricted },
        ),
    };
    IConcrete { action, reference, redacted_target }
}

fn issue_manifest() -> Manifest {
    Manifest::new((*issue::TYPENAME).clone(), Version::default())
}

fn issue_delta(before: &ISnap, after: &ISnap, actor: usize, is_del: bool, is_author: bool) -> CaseResult {
    ensure!(
        before.assignees == after.assignees || is_del,
        "issue:assignees-changed-by-non-delegate",
        "actor {actor}: assignees {:?} -> {:?}",
        before.assignees,
        after.assignees
    );
    ensure!(
        before.labels == after.labels || is_del,
        "issue:labels-changed-by-non-delegate",
        "actor {actor}: labels {:?} -> {:?}",
        before.labels,
        after.labels
    );
    ensure!(
        before.title == after.title || is_del || is_author,
        "issue:title-changed-by-unauthorized",
        "actor {actor}: title {:?} -> {:?}",
        before.title,
        after.title
    );
    ensure!(
        before.state == after.state || is_del || is_author,
        "issue:state-changed-by-unauthorized",
        "actor {actor}: state {} -> {}",
        before.state,
        after.state
    );
    for (id, cb) in &before.comments {
        let entitled = is_del || cb.author as usize == actor;
        match after.comments.get(id) {
            None => ensure!(
                entitled,
                "issue:comment-redacted-by-unauthorized",
                "actor {actor} redacted comment {id} of actor {}",
                cb.author
            ),
            Some(ca) => ensure!(
                ca.edits == cb.edits || entitled,
                "issue:comment-edited-by-unauthorized",
                "actor {actor} edited comment {id} of actor {}",
                cb.author
            ),
        }
    }
    Ok(())
}

fn check_issue(ctx: &Ctx, c: &IssueCase) -> CaseResult {
    let setup = setup_normalised(&c.setup);
    let repo = fixed_repo(&setup);
    let keys = repo.keys.clone();
    let author = setup.author as usize;
    let root_doc = doc_ix(&setup, setup.root_doc);
    let root_id = oid_of(TAG_OP, 0);
    let empty = Issue::new(Thread::default());
    let empty_snap = ISnap {
        title: String::new(),
        state: format!("{:?}", issue::State::Open),
        assignees: BTreeSet::new(),
        labels: BTreeSet::new(),
        comments: BTreeMap::new(),
    };

    // ---- root op (with optional extra actions)
    let root_is_del = setup.docs[root_doc].is_delegate(author);
    let build_root = |extra: &[IAct]| {
        let mut op = Op::new(
            root_id,
            nonempty::NonEmpty::new(issue::Action::Comment {
                body: "root".to_string(),
                reply_to: None,
                embeds: vec![],
            }),
            keys[author],
            Timestamp::from_secs(1_000),
            Some(ModelRepo::doc_oid(root_doc)),
            issue_manifest(),
        );
        for a in extra.iter().filter(|a| !is_thread_act_i(a)) {
            let k = issue_concrete(a, 0, author, root_is_del, true, &keys, &empty, &empty_snap, &[]);
            op.actions.push(k.action);
        }
        op
    };
    let mut obj = match guarded(|| Issue::from_root(build_root(&c.root_extra), &repo))? {
        Ok(i) => {
            if !c.root_extra.is_empty() {
                ctx.count("issue/root-with-extras:accepted");
            }
            i
        }
        Err(_) => {
            ctx.count("issue/root-with-extras:rejected");
            match guarded(|| Issue::from_root(build_root(&[]), &repo))? {
                Ok(i) => i,
                Err(e) => harness_trouble(&format!("plain issue root rejected: {e}")),
            }
        }
    };
    let mut snap = issue_snap(&keys, &obj);
    if !root_is_del {
        ensure!(
            snap.assignees.is_empty(),
            "issue:root:assignees-set-by-non-delegate",
            "root op by non-delegate {author} set assignees {:?}",
            snap.assignees
        );
        ensure!(
            snap.labels.is_empty(),
            "issue:root:labels-set-by-non-delegate",
            "root op by non-delegate {author} set labels {:?}",
            snap.labels
        );
    }

    let mut known: Vec<Oid> = snap.comments.keys().copied().collect();
    let mut contributors: BTreeSet<u8> = BTreeSet::new();
    let mut triv = Triv::default();

    for (i, step) in c.steps.iter().enumerate() {
        let n = i + 1;
        let actor = (step.actor as usize).min(ACTORS - 1);
        let doc = doc_ix(&setup, step.doc);
        let is_del = setup.docs[doc].is_delegate(actor);
        let is_author = actor == author;
        let role = role_name(&setup, actor, doc, &contributors);

        // sanitise: at most one thread action per op
        let mut acts: Vec<&IAct> = vec![];
        let mut thread_seen = false;
        for a in &step.acts {
            if is_thread_act_i(a) {
                if thread_seen {
                    continue;
                }
                thread_seen = true;
            }
            acts.push(a);
        }
        if acts.is_empty() {
            continue;
        }
        let concrete: Vec<IConcrete> = acts
            .iter()
            .map(|a| issue_concrete(a, n, actor, is_del, is_author, &keys, &obj, &snap, &known))
            .collect();
        let mut op = Op::new(
            oid_of(TAG_OP, n as u32),
            nonempty::NonEmpty::new(concrete[0].action.clone()),
            keys[actor],
            Timestamp::from_secs(1_000 + n as u64),
            Some(ModelRepo::doc_oid(doc)),
            issue_manifest(),
        );
        for k in &concrete[1..] {
            op.actions.push(k.action.clone());
        }
        let single = concrete.len() == 1;
        let backup = obj.clone();
        let res = guarded(|| obj.op(op, std::iter::empty(), &repo))?;
        let after = issue_snap(&keys, &obj);
        let changed = after != snap;

        if single {
            let k = &concrete[0];
            let outcome = match (&res, changed) {
                (Err(_), _) => "rejected",
                (Ok(()), true) => "effect",
                (Ok(()), false) => "no-effect",
            };
            ctx.count(&format!("issue/{}/{}/{}", role, k.reference.name(), outcome));
            ctx.count(&format!("issue/act/{}/{}", iact_kind(acts[0]), outcome));
            match k.reference {
                Ref::Denied => {
                    triv.denied = true;
                    ensure!(
                        res.is_err() || !changed,
                        "issue:denied-action-has-effect",
                        "step {n}: {:?} by actor {actor} ({role}) is denied by the reference rules but was \
                         accepted and changed the issue: {:?} -> {:?}",
                        acts[0],
                        snap,
                        after
                    );
                }
                Ref::TargetGone => {
                    ensure!(
                        res.is_err() || !changed,
                        "issue:action-on-gone-target-has-effect",
                        "step {n}: {:?} by actor {actor} ({role}) aims at a redacted/missing comment but \
                         changed the issue",
                        acts[0]
                    );
                }
                Ref::Allowed => {
                    if res.is_ok() && changed {
                        triv.allowed_effect_nondelegate = true;
                    }
                }
                _ => {}
            }
            if k.redacted_target {
                triv.redacted_target = true;
                ctx.count("issue/edit-or-redact-of-redacted-comment");
            }
        } else {
            ctx.count(if res.is_ok() { "issue/multi-action-op:accepted" } else { "issue/multi-action-op:rejected" });
        }

        match res {
            Ok(()) => {
                issue_delta(&snap, &after, actor, is_del, is_author)?;
                for id in after.comments.keys() {
                    if !known.contains(id) {
                        known.push(*id);
                        contributors.insert(actor as u8);
                    }
                }
                snap = after;
            }
            Err(_) => {
                // rejected: roll back (what a rejected op leaves behind is C06's subject)
                obj = backup;
            }
        }
    }
    ctx.count(&format!("issue/docs={}", setup.docs.len()));
    if triv.nontrivial() {
        ctx.nontrivial(c);
        ctx.sample("issue-history", c);
    }
    Ok(())
}

// ---------------------------------------------------------------------------
// Patch
// ---------------------------------------------------------------------------

#[derive(Debug, Clone, PartialEq, Eq)]
struct ReviewSnap {
    id: ReviewId,
    author: u8,
    verdict: Option<String>,
    summary: Option<String>,
    labels: Vec<String>,
    comments: BTreeMap<Oid, CSnap>,
}

#[derive(Debug, Clone, PartialEq, Eq)]
struct RevSnap {
    author: u8,
    edits: Vec<(u8, String)>,
    comments: BTreeMap<Oid, CSnap>,
    reviews: BTreeMap<u8, ReviewSnap>,
    reactions: BTreeSet<(u8, char)>,
}

#[derive(Debug, Clone, PartialEq, Eq)]
struct PSnap {
    title: String,
    state: String,
    labels: BTreeSet<String>,
    assignees: BTreeSet<String>,
    merges: BTreeMap<u8, patch::Merge>,
    revisions: BTreeMap<RevisionId, RevSnap>,
}

pub fn norm_state(s: &patch::State) -> String {
    match s {
        patch::State::Open { conflicts } => {
            // conflict order comes out of a HashMap: not part of what is compared here
            let mut c: Vec<String> = conflicts.iter().map(|(r, o)| format!("{r}@{o}")).collect();
            c.sort();
            format!("open{c:?}")
        }
        other => format!("{other:?}"),
    }
}

fn patch_snap(keys: &[PublicKey], p: &Patch) -> PSnap {
    PSnap {
        title: p.title().to_string(),
        state: norm_state(p.state()),
        labels: p.labels().map(|l| l.name().to_string()).collect(),
        assignees: p.assignees().map(|d| d.to_string()).collect(),
        merges: p.merges().map(|(k, m)| (aidx(keys, k), m.clone())).collect(),
        revisions: p
            .revisions()
            .map(|(id, r)| {
                let mut reactions = BTreeSet::new();
                for set in r.reactions().values() {
                    for (k, re) in set {
                        reactions.insert((aidx(keys, k), re.emoji()));
                    }
                }
                (
                    id,
                    RevSnap {
                        author: aidx(keys, r.author().public_key()),
                        edits: r.edits().map(|e| (aidx(keys, &e.author), e.body.clone())).collect(),
                        comments: thread_snap(keys, r.discussion()),
                        reviews: r
                            .reviews()
                            .map(|(k, v)| {
                                (
                                    aidx(keys, k),
                                    ReviewSnap {
                                        id: v.id(),
                                        author: aidx(keys, v.author().public_key()),
                                        verdict: v.verdict().map(|x| x.to_string()),
                                        summary: v.summary().map(|s| s.to_string()),
                                        labels: v.labels().map(|l| l.name().to_string()).collect(),
                                        comments: v
                                            .comments()
                                            .map(|(id, c)| (*id, comment_snap(keys, c)))
                                            .collect(),
                                    },
                                )
                            })
                            .collect(),
                        reactions,
                    },
                )
            })
            .collect(),
    }
}

fn comment_snap<L>(keys: &[PublicKey], c: &Comment<L>) -> CSnap {
    let mut reactions = BTreeSet::new();
    for (r, who) in c.reactions() {
        for w in who {
            reactions.insert((aidx(keys, w), r.emoji()));
        }
    }
    CSnap {
        author: aidx(keys, &c.author()),
        edits: c.edits().map(|e| (aidx(keys, &e.author), e.body.clone())).collect(),
        reactions,
        resolved: c.is_resolved(),
        reply_to: c.reply_to(),
    }
}

#[derive(Default)]
struct Known {
    revs: Vec<RevisionId>,
    rev_comments: Vec<(RevisionId, Oid)>,
    reviews: Vec<ReviewId>,
    review_comments: Vec<(ReviewId, Oid)>,
}

impl Known {
    /// Learn new ids from a snapshot; returns true if something new appeared.
    fn learn(&mut self, s: &PSnap) -> bool {
        let mut new = false;
        for (rid, r) in &s.revisions {
            if !self.revs.contains(rid) {
                self.revs.push(*rid);
                new = true;
            }
            for cid in r.comments.keys() {
                if !self.rev_comments.contains(&(*rid, *cid)) {
                    self.rev_comments.push((*rid, *cid));
                    new = true;
                }
            }
            for v in r.reviews.values() {
                if !self.reviews.contains(&v.id) {
                    self.reviews.push(v.id);
                    new = true;
                }
                for cid in v.comments.keys() {
                    if !self.review_comments.contains(&(v.id, *cid)) {
                        self.review_comments.push((v.id, *cid));
                        new = true;
                    }
                }
            }
        }
        new
    }
}

fn find_review<'a>(s: &'a PSnap, id: &ReviewId) -> Option<(&'a RevSnap, &'a ReviewSnap)> {
    for r in s.revisions.values() {
        for v in r.reviews.values() {
            if &v.id == id {
                return Some((r, v));
            }
        }
    }
    None
}

/// Plain actions: touch neither a thread nor produce an identifier.
fn is_plain_p(a: &PAct) -> bool {
    matches!(
        a,
        PAct::Edit(_)
            | PAct::Label(_)
            | PAct::LabelSame
            | PAct::Assign(_)
            | PAct::AssignSame
            | PAct::Lifecycle(_)
            | PAct::Merge { .. }
            | PAct::RevisionEdit { .. }
            | PAct::RevisionRedact { .. }
            | PAct::RevisionReact { .. }
            | PAct::ReviewEdit { .. }
            | PAct::ReviewRedact { .. }
    )
}

fn pact_kind(a: &PAct) -> &'static str {
    match a {
        PAct::Edit(_) => "edit",
        PAct::Label(_) => "label",
        PAct::LabelSame => "label-noop",
        PAct::Assign(_) => "assign",
        PAct::AssignSame => "assign-noop",
        PAct::Lifecycle(_) => "lifecycle",
        PAct::Merge { .. } => "merge",
        PAct::Revision => "revision",
        PAct::RevisionEdit { .. } => "revision.edit",
        PAct::RevisionRedact { .. } => "revision.redact",
        PAct::RevisionReact { .. } => "revision.react",
        PAct::RevComment { .. } => "revision.comment",
        PAct::RevCommentEdit { .. } => "revision.comment.edit",
        PAct::RevCommentRedact { .. } => "revision.comment.redact",
        PAct::RevCommentReact { .. } => "revision.comment.react",
        PAct::Review { .. } => "review",
        PAct::ReviewEdit { .. } => "review.edit",
        PAct::ReviewRedact { .. } => "review.redact",
        PAct::ReviewComment { .. } => "review.comment",
        PAct::ReviewCommentEdit { .. } => "review.comment.edit",
        PAct::ReviewCommentRedact { .. } => "review.comment.redact",
        PAct::ReviewCommentReact { .. } => "review.comment.react",
        PAct::ReviewCommentResolve { .. } => "review.comment.resolve",
        PAct::ReviewCommentUnresolve { .. } => "review.comment.unresolve",
    }
}

struct PConcrete {
    action: patch::Action,
    reference: Ref,
    redacted_target: bool,
}

fn patch_concrete(
    a: &PAct,
    step: usize,
    actor: usize,
    is_del: bool,
    is_author: bool,
    keys: &[PublicKey],
    labels_now: &BTreeSet<Label>,
    assignees_now: &BTreeSet<Did>,
    before: &PSnap,
    known: &Known,
    root: RevisionId,
) -> PConcrete {
    let missing = oid_of(TAG_MISSING, step as u32);
    let by_author = |ok: bool| if is_del { Ref::Delegate } else if ok { Ref::Allowed } else { Ref::Denied };
    let gone = || if is_del { Ref::Delegate } else { Ref::TargetGone };
    let free = || if is_del { Ref::Delegate } else { Ref::Unrestricted };
    let rev_of = |t: u16| -> (RevisionId, bool) {
        match choose(t, known.revs.len()) {
            Some(i) => (known.revs[i], true),
            None => (RevisionId::from(missing), false),
        }
    };
    let review_of = |t: u16| -> (ReviewId, bool) {
        match choose(t, known.reviews.len()) {
            Some(i) => (known.reviews[i], true),
            None => (ReviewId::from(missing), false),
        }
    };
    let revc_of = |t: u16| -> (RevisionId, Oid, bool) {
        match choose(t, known.rev_comments.len()) {
            Some(i) => (known.rev_comments[i].0, known.rev_comments[i].1, true),
            None => (known.revs.first().copied().unwrap_or(root), missing, false),
        }
    };
    let reviewc_of = |t: u16| -> (Option<ReviewId>, Oid, bool) {
        match choose(t, known.review_comments.len()) {
            Some(i) => (Some(known.review_comments[i].0), known.review_comments[i].1, true),
            None => (known.reviews.first().copied(), missing, false),
        }
    };
    let verdict_of = |v: u8| match v % 3 {
        0 => None,
        1 => Some(patch::Verdict::Accept),
        _ => Some(patch::Verdict::Reject),
    };
    let mut redacted_target = false;
    let (action, reference) = match a {
        PAct::Edit(t) => (
            patch::Action::Edit {
                title: TITLES[(*t & 3) as usize].to_string(),
                target: patch::MergeTarget::Delegates,
            },
            by_author(is_author),
        ),
        PAct::Label(m) => (patch::Action::Label { labels: labels_of(*m) }, by_author(false)),
        PAct::LabelSame => (patch::Action::Label { labels: labels_now.clone() }, by_author(false)),
        PAct::Assign(m) => (patch::Action::Assign { assignees: dids_of(*m, keys) }, by_author(false)),
        PAct::AssignSame => (patch::Action::Assign { assignees: assignees_now.clone() }, by_author(false)),
        PAct::Lifecycle(s) => {
            let state = match s % 3 {
                0 => patch::Lifecycle::Open,
                1 => patch::Lifecycle::Draft,
                _ => patch::Lifecycle::Archived,
            };
            (patch::Action::Lifecycle { state }, by_author(is_author))
        }
        PAct::Merge { rev, commit } => (
            patch::Action::Merge { revision: rev_of(*rev).0, commit: commit_oid((*commit % 3) as usize) },
            by_author(false),
        ),
        PAct::Revision => (
            patch::Action::Revision {
                description: format!("rev{step}"),
                base: commit_oid(0),
                oid: oid_of(0x77, step as u32),
                resolves: BTreeSet::new(),
            },
            free(),
        ),
        PAct::RevisionEdit { rev } | PAct::RevisionRedact { rev } => {
            let (id, existed) = rev_of(*rev);
            let r = match before.revisions.get(&id) {
                Some(r) => by_author(r.author as usize == actor),
                None => {
                    redacted_target = existed;
                    gone()
                }
            };
            let action = if matches!(a, PAct::RevisionEdit { .. }) {
                patch::Action::RevisionEdit { revision: id, description: format!("d{step}"), embeds: vec![] }
            } else {
                patch::Action::RevisionRedact { revision: id }
            };
            (action, r)
        }
        PAct::RevisionReact { rev, active } => (
            patch::Action::RevisionReact {
                revision: rev_of(*rev).0,
                location: None,
                reaction: reaction(),
                active: *active,
            },
            free(),
        ),
        PAct::RevComment { rev, reply } => {
            let (id, _) = rev_of(*rev);
            let reply_to =
                if *reply { known.rev_comments.iter().find(|(r, _)| *r == id).map(|(_, c)| *c) } else { None };
            (
                patch::Action::RevisionComment {
                    revision: id,
                    location: None,
                    body: format!("c{step}"),
                    reply_to,
                    embeds: vec![],
                },
                free(),
            )
        }
        PAct::RevCommentEdit { t } | PAct::RevCommentRedact { t } => {
            let (rid, cid, existed) = revc_of(*t);
            let r = match before.revisions.get(&rid).and_then(|r| r.comments.get(&cid)) {
                Some(c) => by_author(c.author as usize == actor),
                None => {
                    redacted_target = existed;
                    gone()
                }
            };
            let action = if matches!(a, PAct::RevCommentEdit { .. }) {
                patch::Action::RevisionCommentEdit {
                    revision: rid,
                    comment: cid,
                    body: format!("e{step}"),
                    embeds: vec![],
                }
            } else {
                patch::Action::RevisionCommentRedact { revision: rid, comment: cid }
            };
            (action, r)
        }
        PAct::RevCommentReact { t, active } => {
            let (rid, cid, _) = revc_of(*t);
            (
                patch::Action::RevisionCommentReact {
                    revision: rid,
                    comment: cid,
                    reaction: reaction(),
                    active: *active,
                },
                free(),
            )
        }
        PAct::Review { rev, verdict } => (
            patch::Action::Review {
                revision: rev_of(*rev).0,
                summary: Some(format!("s{step}")),
                verdict: verdict_of(*verdict),
                labels: vec![],
            },
            free(),
        ),
        PAct::ReviewEdit { review, verdict } => {
            let (id, existed) = review_of(*review);
            let r = match find_review(before, &id) {
                Some((_, v)) => by_author(v.author as usize == actor),
                None => {
                    redacted_target = existed;
                    gone()
                }
            };
            (
                patch::Action::ReviewEdit {
                    review: id,
                    summary: Some(format!("se{step}")),
                    verdict: verdict_of(*verdict),
                    labels: vec![Label::new("concept").unwrap()],
                },
                r,
            )
        }
        PAct::ReviewRedact { review } => {
            let (id, existed) = review_of(*review);
            let r = match find_review(before, &id) {
                Some((_, v)) => by_author(v.author as usize == actor),
                None => {
                    redacted_target = existed;
                    gone()
                }
            };
            (patch::Action::ReviewRedact { review: id }, r)
        }
        PAct::ReviewComment { review } => (
            patch::Action::ReviewComment {
                review: review_of(*review).0,
                body: format!("rc{step}"),
                location: None,
                reply_to: None,
                embeds: vec![],
            },
            free(),
        ),
        PAct::ReviewCommentEdit { t } | PAct::ReviewCommentRedact { t } => {
            let (vid, cid, existed) = reviewc_of(*t);
            let vid = vid.unwrap_or(ReviewId::from(missing));
            let r = match find_review(before, &vid).and_then(|(_, v)| v.comments.get(&cid)) {
                Some(c) => by_author(c.author as usize == actor),
                None => {
                    redacted_target = existed;
                    gone()
                }
            };
            let action = if matches!(a, PAct::ReviewCommentEdit { .. }) {
                patch::Action::ReviewCommentEdit {
                    review: vid,
                    comment: cid,
                    body: format!("re{step}"),
                    embeds: vec![],
                }
            } else {
                patch::Action::ReviewCommentRedact { review: vid, comment: cid }
            };
            (action, r)
        }
        PAct::ReviewCommentReact { t, active } => {
            let (vid, cid, _) = reviewc_of(*t);
            (
                patch::Action::ReviewCommentReact {
                    review: vid.unwrap_or(ReviewId::from(missing)),
                    comment: cid,
                    reaction: reaction(),
                    active: *active,
                },
                free(),
            )
        }
        PAct::ReviewCommentResolve { t } => {
            let (vid, cid, _) = reviewc_of(*t);
            (
                patch::Action::ReviewCommentResolve {
                    review: vid.unwrap_or(ReviewId::from(missing)),
                    comment: cid,
                },
                free(),
            )
        }
        PAct::ReviewCommentUnresolve { t } => {
            let (vid, cid, _) = reviewc_of(*t);
            (
                patch::Action::ReviewCommentUnresolve {
                    review: vid.unwrap_or(ReviewId::from(missing)),
                    comment: cid,
                },
                free(),
            )
        }
    };
    PConcrete { action, reference, redacted_target }
}

fn patch_manifest() -> Manifest {
    Manifest::new((*patch::TYPENAME).clone(), Version::default())
}

fn comments_delta(
    what: &str,
    before: &BTreeMap<Oid, CSnap>,
    after: &BTreeMap<Oid, CSnap>,
    actor: usize,
    is_del: bool,
) -> CaseResult {
    for (id, cb) in before {
        let entitled = is_del || cb.author as usize == actor;
        match after.get(id) {
            None => ensure!(
                entitled,
                format!("patch:{what}-redacted-by-unauthorized"),
                "actor {actor} redacted {what} {id} of actor {}",
                cb.author
            ),
            Some(ca) => ensure!(
                ca.edits == cb.edits || entitled,
                format!("patch:{what}-edited-by-unauthorized"),
                "actor {actor} edited {what} {id} of actor {}",
                cb.author
            ),
        }
    }
    Ok(())
}

fn patch_delta(before: &PSnap, after: &PSnap, actor: usize, is_del: bool, is_author: bool) -> CaseResult {
    ensure!(
        before.assignees == after.assignees || is_del,
        "patch:assignees-changed-by-non-delegate",
        "actor {actor}: assignees {:?} -> {:?}",
        before.assignees,
        after.assignees
    );
    ensure!(
        before.labels == after.labels || is_del,
        "patch:labels-changed-by-non-delegate",
        "actor {actor}: labels {:?} -> {:?}",
        before.labels,
        after.labels
    );
    ensure!(
        before.merges == after.merges || is_del,
        "patch:merges-changed-by-non-delegate",
        "actor {actor}: merges {:?} -> {:?}",
        before.merges,
        after.merges
    );
    ensure!(
        before.title == after.title || is_del || is_author,
        "patch:title-changed-by-unauthorized",
        "actor {actor}: title {:?} -> {:?}",
        before.title,
        after.title
    );
    ensure!(
        before.state == after.state || is_del || is_author,
        "patch:state-changed-by-unauthorized",
        "actor {actor}: state {} -> {}",
        before.state,
        after.state
    );
    for (rid, rb) in &before.revisions {
        let rev_entitled = is_del || rb.author as usize == actor;
        let Some(ra) = after.revisions.get(rid) else {
            ensure!(
                rev_entitled,
                "patch:revision-redacted-by-unauthorized",
                "actor {actor} redacted revision {rid} of actor {}",
                rb.author
            );
            // comments and reviews vanish with their revision: not attributed
            continue;
        };
        ensure!(
            ra.edits == rb.edits || rev_entitled,
            "patch:revision-edited-by-unauthorized",
            "actor {actor} edited revision {rid} of actor {}",
            rb.author
        );
        comments_delta("revision-comment", &rb.comments, &ra.comments, actor, is_del)?;
        for (who, vb) in &rb.reviews {
            let entitled = is_del || vb.author as usize == actor;
            match ra.reviews.get(who) {
                Some(va) if va.id == vb.id => {
                    ensure!(
                        (va.verdict == vb.verdict && va.summary == vb.summary && va.labels == vb.labels)
                            || entitled,
                        "patch:review-edited-by-unauthorized",
                        "actor {actor} edited review {} of actor {}",
                        vb.id,
                        vb.author
                    );
                    comments_delta("review-comment", &vb.comments, &va.comments, actor, is_del)?;
                }
                _ => {
                    ensure!(
                        entitled,
                        "patch:review-redacted-by-unauthorized",
                        "actor {actor} redacted review {} of actor {}",
                        vb.id,
                        vb.author
                    );
                    // review comments vanish with their review: not attributed
                }
            }
        }
    }
    Ok(())
}

fn check_patch(ctx: &Ctx, c: &PatchCase) -> CaseResult {
    let setup = setup_normalised(&c.setup);
    let repo = fixed_repo(&setup);
    let keys = repo.keys.clone();
    let author = setup.author as usize;
    let root_doc = doc_ix(&setup, setup.root_doc);
    let root_id = oid_of(TAG_OP, 0);
    let root_rev = RevisionId::from(root_id);
    let root_is_del = setup.docs[root_doc].is_delegate(author);
    let empty_snap = PSnap {
        title: String::new(),
        state: String::new(),
        labels: BTreeSet::new(),
        assignees: BTreeSet::new(),
        merges: BTreeMap::new(),
        revisions: BTreeMap::new(),
    };
    let root_known = Known { revs: vec![root_rev], ..Known::default() };

    let build_root = |extra: &[PAct]| {
        let mut op = Op::new(
            root_id,
            nonempty::NonEmpty::new(patch::Action::Revision {
                description: "root".to_string(),
                base: commit_oid(0),
                oid: oid_of(0x77, 0),
                resolves: BTreeSet::new(),
            }),
            keys[author],
            Timestamp::from_secs(1_000),
            Some(ModelRepo::doc_oid(root_doc)),
            patch_manifest(),
        );
        op.actions.push(patch::Action::Edit { title: "patch".to_string(), target: patch::MergeTarget::Delegates });
        for a in extra.iter().filter(|a| {
            matches!(
                a,
                PAct::Label(_) | PAct::Assign(_) | PAct::Lifecycle(_) | PAct::Merge { .. } | PAct::Edit(_)
            )
        }) {
            let k = patch_concrete(
                a,
                0,
                author,
                root_is_del,
                true,
                &keys,
                &BTreeSet::new(),
                &BTreeSet::new(),
                &empty_snap,
                &root_known,
                root_rev,
            );
            op.actions.push(k.action);
        }
        op
    };
    let mut obj = match guarded(|| Patch::from_root(build_root(&c.root_extra), &repo))? {
        Ok(p) => {
            if !c.root_extra.is_empty() {
                ctx.count("patch/root-with-extras:accepted");
            }
            p
        }
        Err(_) => {
            ctx.count("patch/root-with-extras:rejected");
            match guarded(|| Patch::from_root(build_root(&[]), &repo))? {
                Ok(p) => p,
                Err(e) => harness_trouble(&format!("plain patch root rejected: {e}")),
            }
        }
    };
    let mut snap = patch_snap(&keys, &obj);
    if !root_is_del {
        ensure!(
            snap.assignees.is_empty(),
            "patch:root:assignees-set-by-non-delegate",
            "root op by non-delegate {author} set assignees {:?}",
            snap.assignees
        );
        ensure!(
            snap.labels.is_empty(),
            "patch:root:labels-set-by-non-delegate",
            "root op by non-delegate {author} set labels {:?}",
            snap.labels
        );
        ensure!(
            snap.merges.is_empty() && !obj.is_merged(),
            "patch:root:merge-by-non-delegate",
            "root op by non-delegate {author} recorded merges {:?}, state {}",
            snap.merges,
            snap.state
        );
    }

    let mut known = Known::default();
    known.learn(&snap);
    let mut contributors: BTreeSet<u8> = BTreeSet::new();
    let mut triv = Triv::default();

    for (i, step) in c.steps.iter().enumerate() {
        let n = i + 1;
        let actor = (step.actor as usize).min(ACTORS - 1);
        let doc = doc_ix(&setup, step.doc);
        let is_del = setup.docs[doc].is_delegate(actor);
        let is_author = actor == author;
        let role = role_name(&setup, actor, doc, &contributors);

        // sanitise: only the first action may touch a thread / produce an identifier
        let acts: Vec<&PAct> =
            step.acts.iter().enumerate().filter(|(j, a)| *j == 0 || is_plain_p(a)).map(|(_, a)| a).collect();
        if acts.is_empty() {
            continue;
        }
        let labels_now: BTreeSet<Label> = obj.labels().cloned().collect();
        let assignees_now: BTreeSet<Did> = obj.assignees().collect();
        let concrete: Vec<PConcrete> = acts
            .iter()
            .map(|a| {
                patch_concrete(
                    a,
                    n,
                    actor,
                    is_del,
                    is_author,
                    &keys,
                    &labels_now,
                    &assignees_now,
                    &snap,
                    &known,
                    root_rev,
                )
            })
            .collect();
        let mut op = Op::new(
            oid_of(TAG_OP, n as u32),
            nonempty::NonEmpty::new(concrete[0].action.clone()),
            keys[actor],
            Timestamp::from_secs(1_000 + n as u64),
            Some(ModelRepo::doc_oid(doc)),
            patch_manifest(),
        );
        for k in &concrete[1..] {
            op.actions.push(k.action.clone());
        }
        let single = concrete.len() == 1;
        let backup = obj.clone();
        let res = guarded(|| obj.op(op, std::iter::empty(), &repo))?;
        let after = patch_snap(&keys, &obj);
        let changed = after != snap;

        if single {
            let k = &concrete[0];
            let outcome = match (&res, changed) {
                (Err(_), _) => "rejected",
                (Ok(()), true) => "effect",
                (Ok(()), false) => "no-effect",
            };
            ctx.count(&format!("patch/{}/{}/{}", role, k.reference.name(), outcome));
            ctx.count(&format!("patch/act/{}/{}", pact_kind(acts[0]), outcome));
            match k.reference {
                Ref::Denied => {
                    triv.denied = true;
                    ensure!(
                        res.is_err() || !changed,
                        "patch:denied-action-has-effect",
                        "step {n}: {:?} by actor {actor} ({role}) is denied by the reference rules but was \
                         accepted and changed the patch",
                        acts[0]
                    );
                }
                Ref::TargetGone => {
                    ensure!(
                        res.is_err() || !changed,
                        "patch:action-on-gone-target-has-effect",
                        "step {n}: {:?} by actor {actor} ({role}) aims at a redacted/missing target but \
                         changed the patch",
                        acts[0]
                    );
                }
                Ref::Allowed => {
                    if res.is_ok() && changed {
                        triv.allowed_effect_nondelegate = true;
                    }
                }
                _ => {}
            }
            if k.redacted_target {
                triv.redacted_target = true;
                ctx.count("patch/edit-or-redact-of-redacted-target");
            }
        } else {
            ctx.count(if res.is_ok() { "patch/multi-action-op:accepted" } else { "patch/multi-action-op:rejected" });
        }

        match res {
            Ok(()) => {
                patch_delta(&snap, &after, actor, is_del, is_author)?;
                if known.learn(&after) {
                    contributors.insert(actor as u8);
                }
                snap = after;
            }
            Err(_) => {
                obj = backup;
            }
        }
    }
    ctx.count(&format!("patch/docs={}", setup.docs.len()));
    if obj.is_merged() {
        ctx.count("patch/final-state-merged");
    }
    if triv.nontrivial() {
        ctx.nontrivial(c);
        ctx.sample("patch-history", c);
    }
    Ok(())
}

// ---------------------------------------------------------------------------
// Strategies
// ---------------------------------------------------------------------------

pub fn docs_strategy(max: usize) -> impl Strategy<Value = Vec<DocSpec>> {
    proptest::collection::vec((0u8..64, 0u8..64, 0u8..ACTORS as u8, 1u8..=4), 1..=max).prop_map(|v| {
        v.into_iter()
            .map(|(a, b, f, t)| DocSpec { delegates: (a & b) | 1 << f, threshold: t }.normalised())
            .collect()
    })
}

fn setup_strategy() -> impl Strategy<Value = Setup> {
    (docs_strategy(3), 0u8..ACTORS as u8, 0u8..3).prop_map(|(docs, author, root_doc)| Setup { docs, author, root_doc })
}

fn iact_plain() -> impl Strategy<Value = IAct> {
    prop_oneof![
        2 => (0u8..64).prop_map(IAct::Assign),
        1 => Just(IAct::AssignSame),
        2 => (0u8..16).prop_map(IAct::Label),
        1 => Just(IAct::LabelSame),
        2 => (0u8..4).prop_map(IAct::Edit),
        2 => (0u8..3).prop_map(IAct::Lifecycle),
    ]
}

fn iact() -> impl Strategy<Value = IAct> {
    prop_oneof![
        10 => iact_plain(),
        4 => proptest::option::of(any::<u16>()).prop_map(|reply| IAct::Comment { reply }),
        4 => any::<u16>().prop_map(|target| IAct::CommentEdit { target }),
        3 => any::<u16>().prop_map(|target| IAct::CommentRedact { target }),
        1 => any::<(u16, bool)>().prop_map(|(target, active)| IAct::React { target, active }),
    ]
}

fn issue_case() -> impl Strategy<Value = IssueCase> {
    let step = (
        0u8..ACTORS as u8,
        0u8..3,
        prop_oneof![5 => proptest::collection::vec(iact(), 1..=1), 1 => proptest::collection::vec(iact(), 2..=3)],
    )
        .prop_map(|(actor, doc, acts)| IStep { actor, doc, acts });
    (
        setup_strategy(),
        prop_oneof![3 => Just(vec![]), 1 => proptest::collection::vec(iact_plain(), 1..=2)],
        proptest::collection::vec(step, 0..=25),
    )
        .prop_map(|(setup, root_extra, steps)| IssueCase { setup, root_extra, steps })
}

fn pact_plain() -> impl Strategy<Value = PAct> {
    prop_oneof![
        2 => (0u8..4).prop_map(PAct::Edit),
        2 => (0u8..16).prop_map(PAct::Label),
        1 => Just(PAct::LabelSame),
        2 => (0u8..64).prop_map(PAct::Assign),
        1 => Just(PAct::AssignSame),
        2 => (0u8..3).prop_map(PAct::Lifecycle),
        3 => (any::<u16>(), 0u8..3).prop_map(|(rev, commit)| PAct::Merge { rev, commit }),
        2 => any::<u16>().prop_map(|rev| PAct::RevisionEdit { rev }),
        2 => any::<u16>().prop_map(|rev| PAct::RevisionRedact { rev }),
        1 => any::<(u16, bool)>().prop_map(|(rev, active)| PAct::RevisionReact { rev, active }),
        2 => (any::<u16>(), 0u8..3).prop_map(|(review, verdict)| PAct::ReviewEdit { review, verdict }),
        2 => any::<u16>().prop_map(|review| PAct::ReviewRedact { review }),
    ]
}

fn pact() -> impl Strategy<Value = PAct> {
    prop_oneof![
        22 => pact_plain(),
        3 => Just(PAct::Revision),
        4 => any::<(u16, bool)>().prop_map(|(rev, reply)| PAct::RevComment { rev, reply }),
        3 => any::<u16>().prop_map(|t| PAct::RevCommentEdit { t }),
        3 => any::<u16>().prop_map(|t| PAct::RevCommentRedact { t }),
        1 => any::<(u16, bool)>().prop_map(|(t, active)| PAct::RevCommentReact { t, active }),
        5 => (any::<u16>(), 0u8..3).prop_map(|(rev, verdict)| PAct::Review { rev, verdict }),
        6 => any::<u16>().prop_map(|review| PAct::ReviewComment { review }),
        4 => any::<u16>().prop_map(|t| PAct::ReviewCommentEdit { t }),
        4 => any::<u16>().prop_map(|t| PAct::ReviewCommentRedact { t }),
        1 => any::<(u16, bool)>().prop_map(|(t, active)| PAct::ReviewCommentReact { t, active }),
        1 => any::<u16>().prop_map(|t| PAct::ReviewCommentResolve { t }),
        1 => any::<u16>().prop_map(|t| PAct::ReviewCommentUnresolve { t }),
    ]
}

fn patch_case() -> impl Strategy<Value = PatchCase> {
    let step = (
        0u8..ACTORS as u8,
        0u8..3,
        prop_oneof![5 => proptest::collection::vec(pact(), 1..=1), 1 => proptest::collection::vec(pact(), 2..=3)],
    )
        .prop_map(|(actor, doc, acts)| PStep { actor, doc, acts });
    (
        setup_strategy(),
        prop_oneof![3 => Just(vec![]), 1 => proptest::collection::vec(pact_plain(), 1..=2)],
        proptest::collection::vec(step, 0..=30),
    )
        .prop_map(|(setup, root_extra, steps)| PatchCase { setup, root_extra, steps })
}

fn run(ctx: &Ctx) {
    ctx.run("issue-history", issue_case(), ctx.cases(20_000, 600_000), |c: &IssueCase| check_issue(ctx, c));
    ctx.run("patch-history", patch_case(), ctx.cases(20_000, 600_000), |c: &PatchCase| check_patch(ctx, c));
}
