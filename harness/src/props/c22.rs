//! C22 — CRDT merges are associative, commutative and idempotent; last-writer-wins
//! structures expose the value written with the greatest clock, insert wins over
//! remove at equal clocks.
//!
//! Every CRDT value is described by the *operation sequence* that builds it
//! (`Vec<Op>`, interpreted by `Lab::apply` through the public API: constructors,
//! `singleton`, `insert`, `remove`, `set`, `merge`). A case is a triple of such
//! sequences. Small domains are enumerated: all states reachable by <= 3
//! operations over a tiny alphabet (deduplicated with the type's own `==`), then
//! all triples (or all pairs + a sampled set of triples in the quick tier for the
//! two big LWWMap domains).
use std::cell::RefCell;
use std::collections::{BTreeMap, BTreeSet};
use std::fmt::Debug;
use std::marker::PhantomData;
use std::rc::Rc;

use proptest::prelude::*;
use radicle_crdt::{GMap, GSet, LWWMap, LWWReg, LWWSet, Lamport, Max, Min, Redactable, Semilattice};
use serde::{Deserialize, Serialize};

use crate::core::*;
use crate::ensure;

pub const PROP: Prop = Prop {
    id: "C22",
    shards: (8, 16),
    level: "exploration",
    rule: "A case is (type, clock base, three operation sequences); each sequence is interpreted through the \
           public API (new/singleton/insert/remove/set/merge) into a CRDT value. Enumerated sub-spaces: all \
           states reachable by <= 3 operations over keys {0,1} ({0,1,2} for GSet and the thorough-only \
           LWWSet-3-keys space), clocks {0,1,2}, values {0,1,2} (+Redacted), deduplicated with the type's own \
           `==`; then all triples (quick: all triples for the 14 small types, all pairs + sampled triples for \
           LWWMap<Max>/LWWMap<Redactable>). Random sub-check: <= 10 operations per operand, keys 0..6, values \
           u8, clocks base+{0,1,2} with base in {0, random, u64::MAX-2}. Non-trivial: for clocked (LWW) types \
           two writes in different operands hit the same key with the same clock; for clock-less types the \
           three operands are not all equal. Distinct = hash of the whole case (for enumerated sub-spaces only \
           the first 20000 non-trivial cases per type and shard are hashed; the full number is the counter \
           `<type>:nontrivial`).",
    assumptions: &[
        "laws are judged with the types' own PartialEq, like radicle_crdt::test::assert_laws",
        "clock type is the default `Lamport`; keys and payloads are u8; `Immutable` is out of scope (documented panic)",
        "equal-clock conflicts between distinct values resolve by the value type's semilattice (doc of LWWReg); \
         the reference joins are max (Max), min (Min), equal-or-Redacted (Redactable), Some-over-None (Option)",
    ],
    run,
    budget_s: (600, 7200),
};

// ---------------------------------------------------------------------------
// Cases
// ---------------------------------------------------------------------------

#[derive(Debug, Clone, Copy, PartialEq, Eq, PartialOrd, Ord, Hash, Serialize, Deserialize)]
pub enum Ty {
    Bool,
    Max,
    Min,
    Redact,
    OptMax,
    OptRedact,
    GSet,
    GMapMax,
    GMapRedact,
    RegMax,
    RegMin,
    RegRedact,
    RegOptMax,
    MapMax,
    MapRedact,
    Set,
}

const ALL_TYPES: [Ty; 16] = [
    Ty::Bool,
    Ty::Max,
    Ty::Min,
    Ty::Redact,
    Ty::OptMax,
    Ty::OptRedact,
    Ty::GSet,
    Ty::GMapMax,
    Ty::GMapRedact,
    Ty::RegMax,
    Ty::RegMin,
    Ty::RegRedact,
    Ty::RegOptMax,
    Ty::MapMax,
    Ty::MapRedact,
    Ty::Set,
];

#[derive(Debug, Clone, Copy, PartialEq, Eq, Hash, Serialize, Deserialize)]
pub enum Kind {
    /// write / insert / set the value `v`
    Put,
    /// write the `Redacted` value (types with a Redactable payload)
    Top,
    /// remove the key / write `None`
    Del,
}

#[derive(Debug, Clone, Copy, PartialEq, Eq, Hash, Serialize, Deserialize)]
pub struct Op {
    kind: Kind,
    /// key
    k: u8,
    /// value
    v: u8,
    /// clock offset (real clock = base + c)
    c: u8,
}

#[derive(Debug, Clone, PartialEq, Eq, Hash, Serialize, Deserialize)]
pub struct Case {
    ty: Ty,
    base: u64,
    a: Vec<Op>,
    b: Vec<Op>,
    c: Vec<Op>,
}

/// What a type's operations use.
struct Shape {
    top: bool,
    del: bool,
    key: bool,
    val: bool,
    clock: bool,
    /// values are reduced modulo this (bool: 2), 0 = unrestricted
    vmod: u8,
}

impl Ty {
    fn shape(self) -> Shape {
        let s = |top, del, key, val, clock| Shape { top, del, key, val, clock, vmod: 0 };
        match self {
            Ty::Bool => Shape { vmod: 2, ..s(false, false, false, true, false) },
            Ty::Max | Ty::Min => s(false, false, false, true, false),
            Ty::Redact => s(true, false, false, true, false),
            Ty::OptMax => s(false, true, false, true, false),
            Ty::OptRedact => s(true, true, false, true, false),
            Ty::GSet => s(false, false, true, false, false),
            Ty::GMapMax => s(false, false, true, true, false),
            Ty::GMapRedact => s(true, false, true, true, false),
            Ty::RegMax | Ty::RegMin => s(false, false, false, true, true),
            Ty::RegRedact => s(true, false, false, true, true),
            Ty::RegOptMax => s(false, true, false, true, true),
            Ty::MapMax => s(false, true, true, true, true),
            Ty::MapRedact => s(true, true, true, true, true),
            Ty::Set => s(false, true, true, false, true),
        }
    }

    /// Normalise an operation: every op means something for every type (unsupported
    /// kinds fall back to `Put`), unused fields are zeroed.
    fn norm(self, op: Op) -> Op {
        let sh = self.shape();
        let kind = match op.kind {
            Kind::Top if !sh.top => Kind::Put,
            Kind::Del if !sh.del => Kind::Put,
            k => k,
        };
        let mut v = if sh.val && kind == Kind::Put { op.v } else { 0 };
        if sh.vmod != 0 {
            v %= sh.vmod;
        }
        Op { kind, k: if sh.key { op.k } else { 0 }, v, c: if sh.clock { op.c } else { 0 } }
    }

    /// Operation alphabet of the small domain.
    fn alphabet(self, nkeys: u8) -> Vec<Op> {
        let sh = self.shape();
        let mut out = vec![];
        let keys = if sh.key { nkeys } else { 1 };
        let clocks = if sh.clock { 3 } else { 1 };
        let vals = if !sh.val {
            1
        } else if sh.vmod != 0 {
            sh.vmod
        } else {
            3
        };
        for k in 0..keys {
            for c in 0..clocks {
                for v in 0..vals {
                    out.push(Op { kind: Kind::Put, k, v, c });
                }
                if sh.top {
                    out.push(Op { kind: Kind::Top, k, v: 0, c });
                }
                if sh.del {
                    out.push(Op { kind: Kind::Del, k, v: 0, c });
                }
            }
        }
        out
    }
}

fn clock(base: u64, op: &Op) -> u64 {
    base.saturating_add(op.c as u64)
}

// ---------------------------------------------------------------------------
// Reference model (only used for the last-writer-wins exposure clause)
// ---------------------------------------------------------------------------

#[derive(Debug, Clone, Copy, PartialEq, Eq, PartialOrd, Ord)]
enum Val {
    N(u8),
    Top,
}

#[derive(Debug, Clone, Copy, PartialEq, Eq)]
enum VT {
    Bool,
    Max,
    Min,
    Redact,
    Unit,
}

fn vjoin(vt: VT, a: Val, b: Val) -> Val {
    match (vt, a, b) {
        (VT::Max, Val::N(x), Val::N(y)) => Val::N(x.max(y)),
        (VT::Bool, Val::N(x), Val::N(y)) => Val::N(x.max(y)),
        (VT::Min, Val::N(x), Val::N(y)) => Val::N(x.min(y)),
        (VT::Unit, _, _) => Val::N(0),
        (VT::Redact, x, y) if x == y => x,
        _ => Val::Top,
    }
}

fn content(op: &Op) -> Option<Val> {
    match op.kind {
        Kind::Put => Some(Val::N(op.v)),
        Kind::Top => Some(Val::Top),
        Kind::Del => None,
    }
}

/// Expected exposure of one last-writer-wins cell given all writes to it.
struct Expect {
    cmax: u64,
    value: Option<Val>,
    /// all writes at the greatest clock have identical content
    unique: bool,
    /// at the greatest clock there is both an insertion and a removal
    ins_and_del: bool,
}

fn expect<'a>(vt: VT, base: u64, writes: impl Iterator<Item = &'a Op>) -> Option<Expect> {
    let writes: Vec<&Op> = writes.collect();
    let cmax = writes.iter().map(|w| clock(base, w)).max()?;
    let top: Vec<Option<Val>> = writes.iter().filter(|w| clock(base, w) == cmax).map(|w| content(w)).collect();
    let unique = top.iter().all(|c| *c == top[0]);
    let ins: Vec<Val> = top.iter().filter_map(|c| *c).collect();
    let ins_and_del = !ins.is_empty() && ins.len() != top.len();
    let value = ins.iter().copied().reduce(|x, y| vjoin(vt, x, y));
    Some(Expect { cmax, value, unique, ins_and_del })
}

/// Compare one exposed cell with the model; picks the oracle clause for the signature.
fn cell_check(ty: Ty, what: &str, exp: &Expect, real: Option<Val>, dbg: &dyn Debug) -> CaseResult {
    if real == exp.value {
        return Ok(());
    }
    let clause = if exp.unique {
        "greatest-clock"
    } else if exp.ins_and_del && real.is_none() {
        "insert-over-remove"
    } else {
        "equal-clock-value-join"
    };
    fail(
        format!("{ty:?}:expose:{clause}"),
        format!("{what}: exposed {real:?}, expected {:?} (greatest clock {}) in {dbg:?}", exp.value, exp.cmax),
    )
}

// ---------------------------------------------------------------------------
// Labs: interpretation of operation sequences per type
// ---------------------------------------------------------------------------

/// Payload adapters.
trait Payload {
    type V: Semilattice + Clone + PartialEq + Debug;
    const VT: VT;
    /// Build the payload of a `Put`/`Top` op.
    fn mk(op: &Op) -> Self::V;
    fn val(v: &Self::V) -> Val;
    /// `Default` value when it differs from every written value of the small domain.
    fn bottom() -> Option<Self::V> {
        None
    }
}

struct PBool;
struct PMax;
struct PMin;
struct PRedact;

impl Payload for PBool {
    type V = bool;
    const VT: VT = VT::Bool;
    fn mk(op: &Op) -> bool {
        op.v != 0
    }
    fn val(v: &bool) -> Val {
        Val::N(*v as u8)
    }
}
impl Payload for PMax {
    type V = Max<u8>;
    const VT: VT = VT::Max;
    fn mk(op: &Op) -> Max<u8> {
        Max::from(op.v)
    }
    fn val(v: &Max<u8>) -> Val {
        Val::N(*v.get())
    }
}
impl Payload for PMin {
    type V = Min<u8>;
    const VT: VT = VT::Min;
    fn mk(op: &Op) -> Min<u8> {
        Min::from(op.v)
    }
    fn val(v: &Min<u8>) -> Val {
        Val::N(v.0)
    }
    fn bottom() -> Option<Min<u8>> {
        Some(Min::default())
    }
}
impl Payload for PRedact {
    type V = Redactable<u8>;
    const VT: VT = VT::Redact;
    fn mk(op: &Op) -> Redactable<u8> {
        match op.kind {
            Kind::Top => Redactable::Redacted,
            _ => Redactable::Present(op.v),
        }
    }
    fn val(v: &Redactable<u8>) -> Val {
        match v {
            Redactable::Present(x) => Val::N(*x),
            Redactable::Redacted => Val::Top,
        }
    }
}

trait Lab {
    type S: Semilattice + Clone + PartialEq + Debug;
    /// Apply one normalised op. `None` = nothing built yet (the op constructs).
    fn apply(s: Option<Self::S>, op: &Op, base: u64) -> Self::S;
    /// The value denoted by the empty operation sequence, for types that have an
    /// empty/bottom value that no write produces.
    fn empty() -> Option<Self::S> {
        None
    }
    /// Last-writer-wins exposure clause (no-op for clock-less types). `writes` are
    /// all normalised ops that went into `s` (directly or through merges).
    fn expose(_ty: Ty, _what: &str, _s: &Self::S, _writes: &[Op], _base: u64) -> CaseResult {
        Ok(())
    }
}

fn build<L: Lab>(ty: Ty, ops: &[Op], base: u64) -> L::S {
    let mut s: Option<L::S> = None;
    for op in ops {
        s = Some(L::apply(s, &ty.norm(*op), base));
    }
    match s.or_else(L::empty) {
        Some(s) => s,
        // Without an empty value, the empty sequence denotes the all-zero write.
        None => L::apply(None, &ty.norm(ZERO), base),
    }
}

const ZERO: Op = Op { kind: Kind::Put, k: 0, v: 0, c: 0 };

fn merged<S: Semilattice>(s: Option<S>, x: S) -> S {
    match s {
        None => x,
        Some(mut s) => {
            s.merge(x);
            s
        }
    }
}

struct Scalar<P>(PhantomData<P>);
impl<P: Payload> Lab for Scalar<P> {
    type S = P::V;
    fn apply(s: Option<P::V>, op: &Op, _: u64) -> P::V {
        merged(s, P::mk(op))
    }
    fn empty() -> Option<P::V> {
        P::bottom()
    }
}

struct Opt<P>(PhantomData<P>);
impl<P: Payload> Lab for Opt<P> {
    type S = Option<P::V>;
    fn apply(s: Option<Self::S>, op: &Op, _: u64) -> Self::S {
        let x = if op.kind == Kind::Del { None } else { Some(P::mk(op)) };
        merged(s, x)
    }
}

struct GSetLab;
impl Lab for GSetLab {
    type S = GSet<u8>;
    fn empty() -> Option<Self::S> {
        Some(GSet::default())
    }
    fn apply(s: Option<Self::S>, op: &Op, _: u64) -> Self::S {
        match s {
            None => GSet::singleton(op.k),
            Some(mut s) => {
                s.insert(op.k);
                s
            }
        }
    }
}

struct GMapLab<P>(PhantomData<P>);
impl<P: Payload> Lab for GMapLab<P> {
    type S = GMap<u8, P::V>;
    fn empty() -> Option<Self::S> {
        Some(GMap::default())
    }
    fn apply(s: Option<Self::S>, op: &Op, _: u64) -> Self::S {
        match s {
            None => GMap::singleton(op.k, P::mk(op)),
            Some(mut s) => {
                s.insert(op.k, P::mk(op));
                s
            }
        }
    }
}

struct Reg<P>(PhantomData<P>);
impl<P: Payload> Lab for Reg<P> {
    type S = LWWReg<P::V, Lamport>;
    fn apply(s: Option<Self::S>, op: &Op, base: u64) -> Self::S {
        let c = Lamport::from(clock(base, op));
        match s {
            None => LWWReg::new(P::mk(op), c),
            Some(mut s) => {
                s.set(P::mk(op), c);
                s
            }
        }
    }
    fn expose(ty: Ty, what: &str, s: &Self::S, writes: &[Op], base: u64) -> CaseResult {
        let Some(exp) = expect(P::VT, base, writes.iter()) else { return Ok(()) };
        ensure!(
            s.clock().get().get() == exp.cmax,
            format!("{ty:?}:expose:clock"),
            "{what}: clock {} but greatest written clock is {} in {s:?}",
            s.clock().get().get(),
            exp.cmax
        );
        cell_check(ty, what, &exp, Some(P::val(s.get())), s)
    }
}

struct RegOpt<P>(PhantomData<P>);
impl<P: Payload> Lab for RegOpt<P> {
    type S = LWWReg<Option<P::V>, Lamport>;
    fn apply(s: Option<Self::S>, op: &Op, base: u64) -> Self::S {
        let c = Lamport::from(clock(base, op));
        let x = if op.kind == Kind::Del { None } else { Some(P::mk(op)) };
        match s {
            None => LWWReg::new(x, c),
            Some(mut s) => {
                s.set(x, c);
                s
            }
        }
    }
    fn expose(ty: Ty, what: &str, s: &Self::S, writes: &[Op], base: u64) -> CaseResult {
        let Some(exp) = expect(P::VT, base, writes.iter()) else { return Ok(()) };
        ensure!(
            s.clock().get().get() == exp.cmax,
            format!("{ty:?}:expose:clock"),
            "{what}: clock {} but greatest written clock is {} in {s:?}",
            s.clock().get().get(),
            exp.cmax
        );
        cell_check(ty, what, &exp, s.get().as_ref().map(P::val), s)
    }
}

/// Keys to look at: every written key plus two that never were.
fn probe_keys(writes: &[Op]) -> BTreeSet<u8> {
    let mut ks: BTreeSet<u8> = writes.iter().map(|w| w.k).collect();
    ks.insert(0);
    ks.insert(251);
    ks
}

struct MapLab<P>(PhantomData<P>);
impl<P: Payload> Lab for MapLab<P> {
    type S = LWWMap<u8, P::V, Lamport>;
    fn empty() -> Option<Self::S> {
        Some(LWWMap::default())
    }
    fn apply(s: Option<Self::S>, op: &Op, base: u64) -> Self::S {
        let c = Lamport::from(clock(base, op));
        match (s, op.kind) {
            (None, Kind::Del) => {
                let mut m = LWWMap::default();
                m.remove(op.k, c);
                m
            }
            (None, _) => LWWMap::singleton(op.k, P::mk(op), c),
            (Some(mut m), Kind::Del) => {
                m.remove(op.k, c);
                m
            }
            (Some(mut m), _) => {
                m.insert(op.k, P::mk(op), c);
                m
            }
        }
    }
    fn expose(ty: Ty, what: &str, s: &Self::S, writes: &[Op], base: u64) -> CaseResult {
        let mut expected: BTreeMap<u8, Val> = BTreeMap::new();
        for k in probe_keys(writes) {
            let real = s.get(&k).map(P::val);
            match expect(P::VT, base, writes.iter().filter(|w| w.k == k)) {
                None => ensure!(
                    real.is_none() && !s.contains_key(&k),
                    format!("{ty:?}:expose:never-written"),
                    "{what}: key {k} was never written but is exposed as {real:?} in {s:?}"
                ),
                Some(exp) => {
                    cell_check(ty, &format!("{what} key {k}"), &exp, real, s)?;
                    ensure!(
                        s.contains_key(&k) == exp.value.is_some(),
                        format!("{ty:?}:expose:accessors"),
                        "{what}: contains_key({k}) = {} disagrees with get in {s:?}",
                        s.contains_key(&k)
                    );
                    if let Some(v) = exp.value {
                        expected.insert(k, v);
                    }
                }
            }
        }
        let listed: BTreeMap<u8, Val> = s.iter().map(|(k, v)| (*k, P::val(v))).collect();
        ensure!(
            listed == expected && s.iter().count() == expected.len(),
            format!("{ty:?}:expose:accessors"),
            "{what}: iter() lists {listed:?}, expected {expected:?} in {s:?}"
        );
        ensure!(
            s.len() == expected.len() && s.is_empty() == expected.is_empty(),
            format!("{ty:?}:expose:accessors"),
            "{what}: len {} / is_empty {} but {} live keys expected in {s:?}",
            s.len(),
            s.is_empty(),
            expected.len()
        );
        Ok(())
    }
}

struct SetLab;
impl Lab for SetLab {
    type S = LWWSet<u8, Lamport>;
    fn empty() -> Option<Self::S> {
        Some(LWWSet::default())
    }
    fn apply(s: Option<Self::S>, op: &Op, base: u64) -> Self::S {
        let c = Lamport::from(clock(base, op));
        match (s, op.kind) {
            (None, Kind::Del) => {
                let mut m = LWWSet::default();
                m.remove(op.k, c);
                m
            }
            (None, _) => LWWSet::singleton(op.k, c),
            (Some(mut m), Kind::Del) => {
                m.remove(op.k, c);
                m
            }
            (Some(mut m), _) => {
                m.insert(op.k, c);
                m
            }
        }
    }
    fn expose(ty: Ty, what: &str, s: &Self::S, writes: &[Op], base: u64) -> CaseResult {
        let mut expected: BTreeSet<u8> = BTreeSet::new();
        for k in probe_keys(writes) {
            let real = if s.contains(&k) { Some(Val::N(0)) } else { None };
            match expect(VT::Unit, base, writes.iter().filter(|w| w.k == k)) {
                None => ensure!(
                    real.is_none(),
                    format!("{ty:?}:expose:never-written"),
                    "{what}: element {k} was never written but is contained in {s:?}"
                ),
                Some(exp) => {
                    cell_check(ty, &format!("{what} element {k}"), &exp, real, s)?;
                    if exp.value.is_some() {
                        expected.insert(k);
                    }
                }
            }
        }
        let listed: BTreeSet<u8> = s.iter().copied().collect();
        ensure!(
            listed == expected && s.iter().count() == expected.len() && s.is_empty() == expected.is_empty(),
            format!("{ty:?}:expose:accessors"),
            "{what}: iter() lists {listed:?} (is_empty {}), expected {expected:?} in {s:?}",
            s.is_empty()
        );
        Ok(())
    }
}

/// Dispatch a generic function over the lab of a type.
macro_rules! with_lab {
    ($ty:expr, $f:ident, $($arg:expr),*) => {
        match $ty {
            Ty::Bool => $f::<Scalar<PBool>>($($arg),*),
            Ty::Max => $f::<Scalar<PMax>>($($arg),*),
            Ty::Min => $f::<Scalar<PMin>>($($arg),*),
            Ty::Redact => $f::<Scalar<PRedact>>($($arg),*),
            Ty::OptMax => $f::<Opt<PMax>>($($arg),*),
            Ty::OptRedact => $f::<Opt<PRedact>>($($arg),*),
            Ty::GSet => $f::<GSetLab>($($arg),*),
            Ty::GMapMax => $f::<GMapLab<PMax>>($($arg),*),
            Ty::GMapRedact => $f::<GMapLab<PRedact>>($($arg),*),
            Ty::RegMax => $f::<Reg<PMax>>($($arg),*),
            Ty::RegMin => $f::<Reg<PMin>>($($arg),*),
            Ty::RegRedact => $f::<Reg<PRedact>>($($arg),*),
            Ty::RegOptMax => $f::<RegOpt<PMax>>($($arg),*),
            Ty::MapMax => $f::<MapLab<PMax>>($($arg),*),
            Ty::MapRedact => $f::<MapLab<PRedact>>($($arg),*),
            Ty::Set => $f::<SetLab>($($arg),*),
        }
    };
}

// ---------------------------------------------------------------------------
// The check
// ---------------------------------------------------------------------------

/// Per-run bookkeeping that must not cost a `format!` per case.
struct Stats {
    labels: BTreeMap<Ty, [String; 5]>,
    nontrivial: RefCell<BTreeMap<Ty, u64>>,
}

impl Stats {
    fn new() -> Self {
        let labels = ALL_TYPES
            .iter()
            .map(|t| {
                (
                    *t,
                    [
                        format!("{t:?}:cases"),
                        format!("{t:?}:nontrivial"),
                        format!("{t:?}:equal-clock-insert-vs-remove"),
                        format!("{t:?}:equal-clock-distinct-values"),
                        format!("{t:?}:operands-pairwise-distinct"),
                    ],
                )
            })
            .collect();
        Stats { labels, nontrivial: RefCell::new(BTreeMap::new()) }
    }
}

fn laws<L: Lab>(c: &Case) -> CaseResult {
    let ty = c.ty;
    let norm = |ops: &[Op]| -> Vec<Op> {
        if ops.is_empty() && L::empty().is_none() {
            vec![ty.norm(ZERO)]
        } else {
            ops.iter().map(|o| ty.norm(*o)).collect()
        }
    };
    let (wa, wb, wc) = (norm(&c.a), norm(&c.b), norm(&c.c));
    let a = build::<L>(ty, &c.a, c.base);
    let b = build::<L>(ty, &c.b, c.base);
    let cc = build::<L>(ty, &c.c, c.base);
    let j = |x: &L::S, y: &L::S| x.clone().join(y.clone());

    // idempotence
    for (n, x) in [("a", &a), ("b", &b), ("c", &cc)] {
        let xx = j(x, x);
        ensure!(xx == *x, format!("{ty:?}:idempotent"), "{n} ⊔ {n} = {xx:?} but {n} = {x:?}");
    }
    // commutativity
    let ab = j(&a, &b);
    let bc = j(&b, &cc);
    let ac = j(&a, &cc);
    for (n, x, y, xy) in [("a,b", &a, &b, &ab), ("b,c", &b, &cc, &bc), ("a,c", &a, &cc, &ac)] {
        let yx = j(y, x);
        ensure!(*xy == yx, format!("{ty:?}:commutative"), "({n}): x ⊔ y = {xy:?} but y ⊔ x = {yx:?}; x = {x:?}, y = {y:?}");
    }
    // associativity
    let ab_c = j(&ab, &cc);
    let a_bc = j(&a, &bc);
    ensure!(
        ab_c == a_bc,
        format!("{ty:?}:associative"),
        "(a ⊔ b) ⊔ c = {ab_c:?} but a ⊔ (b ⊔ c) = {a_bc:?}; a = {a:?}, b = {b:?}, c = {cc:?}"
    );
    // every other order / grouping (consequence of the three laws)
    for (n, r) in [
        ("(a ⊔ c) ⊔ b", j(&ac, &b)),
        ("b ⊔ (a ⊔ c)", j(&b, &ac)),
        ("c ⊔ (a ⊔ b)", j(&cc, &ab)),
        ("(b ⊔ c) ⊔ a", j(&bc, &a)),
    ] {
        ensure!(
            r == ab_c,
            format!("{ty:?}:order-invariance"),
            "{n} = {r:?} but (a ⊔ b) ⊔ c = {ab_c:?}; a = {a:?}, b = {b:?}, c = {cc:?}"
        );
    }
    // in-place merge of an already contained operand changes nothing (absorption; consequence of the laws)
    for (n, x) in [("a", &a), ("b", &b), ("c", &cc), ("a ⊔ b", &ab)] {
        let mut m = ab_c.clone();
        m.merge(x.clone());
        ensure!(m == ab_c, format!("{ty:?}:absorption"), "((a ⊔ b) ⊔ c) ⊔ {n} = {m:?} differs from (a ⊔ b) ⊔ c = {ab_c:?}");
    }
    // last-writer-wins exposure against the reference model
    L::expose(ty, "a", &a, &wa, c.base)?;
    L::expose(ty, "b", &b, &wb, c.base)?;
    L::expose(ty, "c", &cc, &wc, c.base)?;
    let mut w = wa.clone();
    w.extend(wb.iter().copied());
    L::expose(ty, "a ⊔ b", &ab, &w, c.base)?;
    w.extend(wc.iter().copied());
    L::expose(ty, "(a ⊔ b) ⊔ c", &ab_c, &w, c.base)?;
    Ok(())
}

/// Are two values of this type equal / how many states are there: used for enumeration.
fn same_state<L: Lab>(ty: Ty, x: &[Op], y: &[Op]) -> bool {
    build::<L>(ty, x, 0) == build::<L>(ty, y, 0)
}

fn check(ctx: &Ctx, st: &Stats, c: &Case, hash_cap: u64) -> CaseResult {
    let ty = c.ty;
    with_lab!(ty, laws, c)?;

    // classification
    let sh = ty.shape();
    let ops = [&c.a, &c.b, &c.c];
    let lab = &st.labels[&ty];
    ctx.count(&lab[0]);
    let mut nontrivial = false;
    if sh.clock {
        let (mut ins_del, mut distinct) = (false, false);
        for i in 0..3 {
            for jx in i + 1..3 {
                for x in ops[i].iter().map(|o| ty.norm(*o)) {
                    for y in ops[jx].iter().map(|o| ty.norm(*o)) {
                        if x.k == y.k && x.c == y.c {
                            nontrivial = true;
                            if (x.kind == Kind::Del) != (y.kind == Kind::Del) {
                                ins_del = true;
                            } else if x != y {
                                distinct = true;
                            }
                        }
                    }
                }
            }
        }
        if ins_del {
            ctx.count(&lab[2]);
        }
        if distinct {
            ctx.count(&lab[3]);
        }
    } else {
        let (ab, bc, ac) = (
            with_lab!(ty, same_state, ty, &c.a, &c.b),
            with_lab!(ty, same_state, ty, &c.b, &c.c),
            with_lab!(ty, same_state, ty, &c.a, &c.c),
        );
        nontrivial = !(ab && bc);
        if !ab && !bc && !ac {
            ctx.count(&lab[4]);
        }
    }
    if nontrivial {
        ctx.count(&lab[1]);
        let mut nt = st.nontrivial.borrow_mut();
        let n = nt.entry(ty).or_insert(0);
        *n += 1;
        if *n <= hash_cap {
            ctx.nontrivial(c);
        }
        if *n <= 2 {
            ctx.sample(&format!("{ty:?}"), c);
        }
    }
    Ok(())
}

// ---------------------------------------------------------------------------
// Enumeration of small domains
// ---------------------------------------------------------------------------

/// All states reachable from nothing by 0..=max_ops operations of the alphabet,
/// deduplicated with the type's own equality; each represented by a shortest
/// operation sequence.
fn reachable<L: Lab>(ty: Ty, alphabet: &[Op], max_ops: usize) -> Vec<Vec<Op>> {
    let mut seen: Vec<(L::S, Vec<Op>)> = vec![(build::<L>(ty, &[], 0), vec![])];
    let mut frontier: Vec<Vec<Op>> = vec![vec![]];
    for _ in 0..max_ops {
        let mut next = vec![];
        for seq in &frontier {
            for op in alphabet {
                let mut s2 = seq.clone();
                s2.push(*op);
                let st = build::<L>(ty, &s2, 0);
                if !seen.iter().any(|(x, _)| *x == st) {
                    seen.push((st, s2.clone()));
                    next.push(s2);
                }
            }
        }
        frontier = next;
    }
    seen.into_iter().map(|(_, ops)| ops).collect()
}

fn states(ty: Ty, nkeys: u8) -> Rc<Vec<Vec<Op>>> {
    let alphabet = ty.alphabet(nkeys);
    Rc::new(with_lab!(ty, reachable, ty, &alphabet, 3))
}

fn triples(ty: Ty, st: Rc<Vec<Vec<Op>>>) -> impl Iterator<Item = Case> {
    let n = st.len();
    (0..n).flat_map(move |i| {
        let st = st.clone();
        (0..n).flat_map(move |j| {
            let st = st.clone();
            (0..n).map(move |k| Case { ty, base: 0, a: st[i].clone(), b: st[j].clone(), c: st[k].clone() })
        })
    })
}

fn pairs(ty: Ty, st: Rc<Vec<Vec<Op>>>) -> impl Iterator<Item = Case> {
    let n = st.len();
    (0..n).flat_map(move |i| {
        let st = st.clone();
        (0..n).map(move |j| Case { ty, base: 0, a: st[i].clone(), b: st[j].clone(), c: st[j].clone() })
    })
}

fn sampled_triples(ty: Ty, st: Rc<Vec<Vec<Op>>>) -> impl Strategy<Value = Case> {
    let n = st.len();
    (0..n, 0..n, 0..n).prop_map(move |(i, j, k)| Case { ty, base: 0, a: st[i].clone(), b: st[j].clone(), c: st[k].clone() })
}

// ---------------------------------------------------------------------------
// Random larger values
// ---------------------------------------------------------------------------

fn random_case() -> impl Strategy<Value = Case> {
    let ty = (0..ALL_TYPES.len()).prop_map(|i| ALL_TYPES[i]);
    let base = prop_oneof![Just(0u64), Just(u64::MAX - 2), any::<u64>().prop_map(|x| x.min(u64::MAX - 2))];
    (ty, base, 1u8..=6).prop_flat_map(|(ty, base, nkeys)| {
        let op = (
            prop_oneof![4 => Just(Kind::Put), 1 => Just(Kind::Top), 2 => Just(Kind::Del)],
            0..nkeys,
            prop_oneof![0u8..3, any::<u8>()],
            0u8..3,
        )
            .prop_map(move |(kind, k, v, c)| ty.norm(Op { kind, k, v, c }));
        let ops = || proptest::collection::vec(op.clone(), 0..=10);
        (Just(ty), Just(base), ops(), ops(), ops()).prop_map(|(ty, base, a, b, c)| Case { ty, base, a, b, c })
    })
}

fn run(ctx: &Ctx) {
    let st = Stats::new();
    let enumerated = |c: &Case| check(ctx, &st, c, 20_000);
    let random = |c: &Case| check(ctx, &st, c, u64::MAX);
    let mut sizes = vec![];

    // Small domains: all triples in both tiers.
    for ty in ALL_TYPES {
        if matches!(ty, Ty::MapMax | Ty::MapRedact) {
            continue;
        }
        let nkeys = if ty == Ty::GSet { 3 } else { 2 };
        let s = states(ty, nkeys);
        sizes.push(format!("{ty:?}={}", s.len()));
        ctx.enumerate(&format!("triples-{ty:?}"), triples(ty, s), true, enumerated);
    }
    // The two big last-writer-wins map domains.
    for ty in [Ty::MapMax, Ty::MapRedact] {
        let s = states(ty, 2);
        sizes.push(format!("{ty:?}={}", s.len()));
        if ctx.quick() {
            ctx.enumerate(&format!("pairs-{ty:?}"), pairs(ty, s.clone()), true, enumerated);
            ctx.run(&format!("triple-sample-{ty:?}"), sampled_triples(ty, s), ctx.cases(160_000, 0), enumerated);
        } else {
            ctx.enumerate(&format!("triples-{ty:?}"), triples(ty, s), true, enumerated);
        }
    }
    if !ctx.quick() {
        let s = states(Ty::Set, 3);
        sizes.push(format!("Set(3 keys)={}", s.len()));
        ctx.enumerate("triples-Set-3keys", triples(Ty::Set, s), true, enumerated);
    }
    if ctx.shard == 0 {
        ctx.note(format!("distinct states reachable by <= 3 operations: {}", sizes.join(", ")));
    }
    ctx.run("random", random_case(), ctx.cases(80_000, 2_000_000), random);
}
