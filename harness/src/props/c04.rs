//! C04 — Identity revisions need a majority of valid delegate signatures.
use std::collections::{BTreeMap, BTreeSet};

use proptest::prelude::*;
use radicle::cob::identity::{self, Identity};
use radicle::cob::{ObjectId, TypeName};
use radicle::crypto::{PublicKey, Signature};
use radicle::git::Oid;
use radicle::identity::{Did, Doc, Visibility};
use serde::{Deserialize, Serialize};

use crate::core::*;
use crate::ensure;
use crate::lab::cob::*;

pub const PROP: Prop = Prop {
    id: "C04",
    shards: (16, 16),
    level: "exploration",
    rule: "Identity COB histories (<= 12 changes after the root, 5 keys: founder, delegates, later-added delegates, strangers) \
           written as raw change commits: revisions that add/remove delegates, change the threshold or the visibility, with \
           valid / wrong-key / wrong-blob signatures and arbitrary parent revisions; accepts (valid, signature over another \
           blob, by another key, duplicates), rejects, edits, redactions (own, foreign, of the current revision); concurrent \
           branches (each change picks 1..3 parents among earlier ones), timestamps from a 3-value domain. The history is \
           evaluated through cob::get after every prefix. Oracle: walk current -> parent -> root; every link P->C has at \
           least floor(|delegates(P)|/2)+1 keys that are delegates of P's document and whose signature (as exposed by \
           Revision::signatures) verifies over C's blob, checked independently with ed25519; every revision on the chain is \
           present and Accepted; the chain of a prefix is a prefix of the chain of every later prefix, with identical \
           title/description/document; dropping all changes authored by keys that never are delegates in any evaluated \
           document leaves current and document unchanged. Non-trivial: a history in which a revision was adopted and that \
           contains an invalid or duplicate accept/revision signature, or concurrent branches. Distinct = hash of the case.",
    assumptions: &[
        "prefixes are taken in generation order (a linear extension of the causal order), so every later prefix is a causal extension",
        "commit timestamps are injected through GIT_COMMITTER_DATE (one single-threaded process per shard)",
    ],
    run,
    budget_s: (1200, 7200),
};

#[derive(Debug, Clone, Copy, Serialize, Deserialize, Hash, PartialEq, Eq)]
pub enum Sg {
    Valid,
    OtherBlob,
    OtherKey,
}

#[derive(Debug, Clone, Serialize, Deserialize, Hash)]
pub enum DocEdit {
    AddDelegate(u8),
    RemoveDelegate(u8),
    Threshold(u8),
    ToggleVisibility,
}

#[derive(Debug, Clone, Serialize, Deserialize, Hash)]
pub enum Act {
    Revision { edit: DocEdit, parent: u16, sig: Sg },
    Accept { revision: u16, sig: Sg },
    Reject { revision: u16 },
    Edit { revision: u16 },
    Redact { revision: u16 },
}

#[derive(Debug, Clone, Serialize, Deserialize, Hash)]
pub struct Change {
    author: u8,
    parents: Vec<u16>,
    ts: u8,
    actions: Vec<Act>,
}

#[derive(Debug, Clone, Serialize, Deserialize, Hash)]
pub struct Case {
    /// number of initial delegates (1..=4), keys 0..n
    delegates: u8,
    changes: Vec<Change>,
}

const NKEYS: u8 = 6;

fn sg() -> impl Strategy<Value = Sg> {
    prop_oneof![8 => Just(Sg::Valid), 1 => Just(Sg::OtherBlob), 1 => Just(Sg::OtherKey)]
}

/// Index-like values biased towards "the latest one" (`pick` maps u16::MAX to the last element).
fn late() -> impl Strategy<Value = u16> {
    prop_oneof![4 => Just(u16::MAX), 1 => Just(0u16), 2 => any::<u16>()]
}

fn act_strategy() -> impl Strategy<Value = Act> {
    let edit = prop_oneof![
        3 => (0u8..NKEYS).prop_map(DocEdit::AddDelegate),
        2 => (0u8..NKEYS).prop_map(DocEdit::RemoveDelegate),
        2 => (1u8..4).prop_map(DocEdit::Threshold),
        2 => Just(DocEdit::ToggleVisibility),
    ];
    prop_oneof![
        5 => (edit, late(), sg()).prop_map(|(edit, parent, sig)| Act::Revision { edit, parent, sig }),
        8 => (late(), sg()).prop_map(|(revision, sig)| Act::Accept { revision, sig }),
        2 => late().prop_map(|revision| Act::Reject { revision }),
        1 => late().prop_map(|revision| Act::Edit { revision }),
        2 => late().prop_map(|revision| Act::Redact { revision }),
    ]
}

/// Initial delegates: 1 (the author's own vote is a majority), 2-3, and 4 (smallest set in which one
/// wrongly counted vote tips a majority of 3).
fn delegates_strategy() -> impl Strategy<Value = u8> {
    prop_oneof![5 => Just(1u8), 3 => Just(2u8), 5 => Just(3u8), 7 => Just(4u8)]
}

fn case_strategy(max: usize) -> impl Strategy<Value = Case> {
    delegates_strategy().prop_flat_map(move |delegates| case_strategy_for(delegates, max))
}

fn case_strategy_for(delegates: u8, max: usize) -> impl Strategy<Value = Case> {
    let change = (
        // mostly initial delegates, sometimes the other keys
        prop_oneof![8 => 0u8..delegates, 2 => 0u8..NKEYS],
        prop_oneof![3 => proptest::collection::vec(late(), 1..=1), 1 => proptest::collection::vec(any::<u16>(), 1..=3)],
        0u8..3,
        // one action per change: the identity code asserts (debug builds only) that a change id enters the timeline once
        proptest::collection::vec(act_strategy(), 1..=1),
    )
        .prop_map(|(author, parents, ts, actions)| Change { author, parents, ts, actions });
    proptest::collection::vec(change, 1..max).prop_map(move |changes| Case { delegates, changes })
}

/// Directed histories: rounds of (proposal by a current delegate on the current revision, accepts by
/// current delegates with mostly valid signatures), linear by default, with noise changes mixed in.
fn rounds_strategy() -> impl Strategy<Value = Case> {
    let edit = prop_oneof![
        3 => (0u8..NKEYS).prop_map(DocEdit::AddDelegate),
        2 => (0u8..NKEYS).prop_map(DocEdit::RemoveDelegate),
        2 => (1u8..4).prop_map(DocEdit::Threshold),
        2 => Just(DocEdit::ToggleVisibility),
    ];
    let round = (
        0u8..5,
        edit,
        sg(),
        proptest::collection::vec((0u8..5, sg(), proptest::bool::weighted(0.15)), 0..5),
        proptest::option::weighted(0.3, (0u8..NKEYS, act_strategy(), any::<u16>())),
        0u8..3,
        // a proposal on top of a revision that is no longer current (made from an outdated replica)
        proptest::option::weighted(0.35, (0u8..5, prop_oneof![1 => Just(DocEdit::ToggleVisibility), 1 => (0u8..NKEYS).prop_map(DocEdit::AddDelegate)], prop_oneof![3 => Just(65533u16), 1 => Just(0u16)])),
    );
    (delegates_strategy(), proptest::collection::vec(round, 1..5)).prop_map(|(delegates, rounds)| {
        let mut changes = vec![];
        for (proposer, edit, sig, accepts, noise, ts, stale) in rounds {
            changes.push(Change { author: 100 + proposer, parents: vec![u16::MAX], ts, actions: vec![Act::Revision { edit, parent: 65534, sig }] });
            for (voter, sig, fork) in accepts {
                // mostly linear; a "fork" accept hangs off an earlier change (concurrent branch)
                let parents = if fork { vec![u16::MAX / 2] } else { vec![u16::MAX] };
                changes.push(Change { author: 100 + voter, parents, ts, actions: vec![Act::Accept { revision: u16::MAX, sig }] });
            }
            if let Some((who, act, parent)) = noise {
                changes.push(Change { author: who, parents: vec![parent], ts, actions: vec![act] });
            }
            if let Some((who, edit, parent)) = stale {
                changes.push(Change { author: 100 + who, parents: vec![u16::MAX], ts, actions: vec![Act::Revision { edit, parent, sig: Sg::Valid }] });
            }
        }
        Case { delegates, changes }
    })
}

thread_local! {
    static LABS: std::cell::RefCell<BTreeMap<u8, CobLab>> = const { std::cell::RefCell::new(BTreeMap::new()) };
}

fn encode<A: Serialize>(a: &A) -> Vec<u8> {
    radicle::cob::store::encoding::encode(a).unwrap()
}

struct RevInfo {
    change: usize,
    doc: Doc,
    blob: Oid,
    /// index (into the generator's list of revisions) of the revision this one was proposed on
    parent_ix: usize,
}

fn check(ctx: &Ctx, c: &Case) -> CaseResult {
    check_mode(ctx, c, false)
}

/// C06's clause for identity histories: the state equals that of the history without the dropped changes.
pub fn check_clean_history(ctx: &Ctx, c: &Case) -> CaseResult {
    check_mode(ctx, c, true)
}

pub fn rounds_cases() -> impl Strategy<Value = Case> {
    rounds_strategy()
}

pub fn history_cases(max: usize) -> impl Strategy<Value = Case> {
    case_strategy(max)
}

fn check_mode(ctx: &Ctx, c: &Case, clean_only: bool) -> CaseResult {
    let lab = LABS
        .with(|l| l.borrow_mut().remove(&c.delegates))
        .unwrap_or_else(|| {
            let ds: Vec<u8> = (0..c.delegates).collect();
            CobLab::new(NKEYS, &ds, 1)
        });
    let r = check_in(ctx, &lab, c, clean_only);
    LABS.with(|l| l.borrow_mut().insert(c.delegates, lab));
    r
}

fn check_in(ctx: &Ctx, lab: &CobLab, c: &Case, clean_only: bool) -> CaseResult {
    use radicle::crypto::signature::Signer as _;
    let tn: &TypeName = &identity::TYPENAME;
    let root = lab.identity_root;
    let oid = ObjectId::from(root);
    let n = c.changes.len() + 1;
    // ---- build
    let mut ids: Vec<Oid> = vec![root];
    let mut parents: Vec<Vec<usize>> = vec![vec![]];
    let mut authors: Vec<u8> = vec![0];
    // revisions known so far (by index into `revs`): root first
    let mut revs: Vec<RevInfo> = vec![RevInfo { change: 0, doc: lab.doc.clone(), blob: lab.doc.encode().unwrap().0, parent_ix: 0 }];
    let mut had_bad_sig = false;
    // generator-side guess of which revision is current and who voted for the open proposal
    let mut model_current: usize = 0;
    let mut proposal: Option<(usize, BTreeSet<u8>)> = None;
    let other_blob = lab.repo.backend.blob(b"not a document").map(Oid::from).unwrap();
    for (k, ch) in c.changes.iter().enumerate() {
        let i = k + 1;
        let mut ps: Vec<usize> = ch.parents.iter().map(|p| pick(*p, i)).collect();
        ps.sort();
        ps.dedup();
        let mut tips: Vec<Oid> = ps.iter().map(|p| ids[*p]).collect();
        tips.sort();
        tips.dedup();
        // authors >= 100 name "the k-th delegate of the document the generator's model considers current"
        let author: u8 = if ch.author >= 100 {
            let ds: Vec<u8> = (0..NKEYS).filter(|k| revs[model_current].doc.delegates().iter().any(|d| *d == Did::from(lab.key(*k)))).collect();
            ds[(ch.author - 100) as usize % ds.len()]
        } else {
            ch.author
        };
        let me = &lab.signers[author as usize];
        let other = &lab.signers[(author as usize + 1) % lab.signers.len()];
        let sign = |blob: Oid, mode: Sg| -> Signature {
            match mode {
                Sg::Valid => me.sign(blob.as_bytes()),
                Sg::OtherBlob => me.sign(other_blob.as_bytes()),
                Sg::OtherKey => other.sign(blob.as_bytes()),
            }
        };
        let mut contents = vec![];
        let mut new_rev: Option<RevInfo> = None;
        for a in &ch.actions {
            let rev_id = |t: u16| -> (Oid, Oid) {
                let r = &revs[pick(t, revs.len())];
                (ids[r.change], r.blob)
            };
            let action = match a {
                Act::Revision { edit, parent, sig } if new_rev.is_none() => {
                    // 65534: the revision the generator's model considers current; 65533: the one before it (stale)
                    let pr_ix = match *parent {
                        65534 => model_current,
                        65533 => revs[model_current].parent_ix,
                        p => pick(p, revs.len()),
                    };
                    let pr = &revs[pr_ix];
                    let did = |k: u8| Did::from(lab.key(k));
                    // Resolve the edit against the parent document so that it usually is a real change:
                    // add the next key that is not a delegate yet, remove the next key that is one,
                    // pick a threshold within range that differs from the present one.
                    let is_del = |k: u8| pr.doc.delegates().iter().any(|d| *d == did(k));
                    let ndel = pr.doc.delegates().len();
                    let cur_t = pr.doc.threshold();
                    // with a single delegate, removing it or changing the threshold cannot be a real change:
                    // toggle the visibility instead (keeps the single-delegate document, majority 1)
                    let edit = if ndel == 1 && matches!(edit, DocEdit::RemoveDelegate(_) | DocEdit::Threshold(_)) { &DocEdit::ToggleVisibility } else { edit };
                    let edited = pr.doc.clone().with_edits(|raw| match edit {
                        DocEdit::AddDelegate(k) => {
                            let k = (0..NKEYS).map(|o| (*k + o) % NKEYS).find(|k| !is_del(*k)).unwrap_or(*k);
                            raw.delegate(did(k))
                        }
                        DocEdit::RemoveDelegate(k) => {
                            let k = (0..NKEYS).map(|o| (*k + o) % NKEYS).find(|k| is_del(*k)).unwrap_or(*k);
                            let _ = raw.rescind(&did(k));
                            if raw.threshold > ndel.saturating_sub(1) && ndel > 1 {
                                raw.threshold = ndel - 1;
                            }
                        }
                        DocEdit::Threshold(t) => {
                            let mut t = (*t as usize - 1) % ndel + 1;
                            if t == cur_t {
                                t = t % ndel + 1;
                            }
                            raw.threshold = t
                        }
                        DocEdit::ToggleVisibility => {
                            raw.visibility = if raw.visibility.is_public() { Visibility::private([]) } else { Visibility::Public };
                        }
                    });
                    let Ok(doc) = edited else {
                        ctx.count("skipped:invalid-document-edit");
                        continue;
                    };
                    let (blob, bytes) = doc.encode().unwrap();
                    lab.repo.backend.blob(&bytes).unwrap();
                    if *sig != Sg::Valid {
                        had_bad_sig = true;
                    }
                    if pr_ix == model_current && *sig == Sg::Valid && pr.doc.delegates().iter().any(|d| *d == did(author)) {
                        proposal = Some((revs.len(), BTreeSet::from([author])));
                    }
                    new_rev = Some(RevInfo { change: i, doc, blob, parent_ix: pr_ix });
                    identity::Action::Revision {
                        title: format!("rev {i}"),
                        description: String::new(),
                        blob,
                        parent: Some(ids[pr.change]),
                        signature: sign(blob, *sig),
                    }
                }
                Act::Revision { .. } => continue,
                Act::Accept { revision, sig } => {
                    let target_ix = pick(*revision, revs.len());
                    if let Some((pix, votes)) = proposal.as_mut() {
                        let cur_doc = &revs[model_current].doc;
                        if *pix == target_ix && *sig == Sg::Valid && cur_doc.delegates().iter().any(|d| *d == Did::from(lab.key(author))) {
                            votes.insert(author);
                        }
                    }
                    let (rid, blob) = rev_id(*revision);
                    if *sig != Sg::Valid {
                        had_bad_sig = true;
                    }
                    identity::Action::RevisionAccept { revision: rid, signature: sign(blob, *sig) }
                }
                Act::Reject { revision } => identity::Action::RevisionReject { revision: rev_id(*revision).0 },
                Act::Edit { revision } => identity::Action::RevisionEdit {
                    revision: rev_id(*revision).0,
                    title: format!("edited by {i}"),
                    description: "d".into(),
                },
                Act::Redact { revision } => identity::Action::RevisionRedact { revision: rev_id(*revision).0 },
            };
            contents.push(encode(&action));
        }
        if contents.is_empty() {
            contents.push(encode(&identity::Action::RevisionReject { revision: root }));
        }
        let e = lab.store(tn, author, None, vec![], tips, contents, 1_700_000_000 + ch.ts as u64, SigMode::Valid);
        ids.push(e.id);
        parents.push(ps);
        authors.push(author);
        if let Some(mut r) = new_rev {
            r.change = i;
            revs.push(r);
        }
        if let Some((pix, votes)) = &proposal {
            let need = revs[model_current].doc.delegates().len() / 2 + 1;
            if votes.len() >= need && *pix < revs.len() {
                model_current = *pix;
                proposal = None;
            }
        }
    }
    let rev_by_id: BTreeMap<Oid, &RevInfo> = revs.iter().map(|r| (ids[r.change], r)).collect();

    // ---- evaluate every prefix
    let eval_subset = |keep: &dyn Fn(usize) -> bool, upto: usize, ns_base: u8| -> Result<Option<(Identity, BTreeSet<Oid>)>, String> {
        lab.clear_refs(tn, &oid);
        let kept: Vec<usize> = (0..upto).filter(|i| *i == 0 || keep(*i)).collect();
        // a change is usable only if all its parents are kept (otherwise it cannot be reached consistently)
        let mut usable: BTreeSet<usize> = BTreeSet::new();
        for i in &kept {
            if parents[*i].iter().all(|p| usable.contains(p)) {
                usable.insert(*i);
            }
        }
        let mut has_child: BTreeSet<Oid> = BTreeSet::new();
        for i in &usable {
            for p in &parents[*i] {
                if ids[*p] != ids[*i] {
                    has_child.insert(ids[*p]);
                }
            }
        }
        let tips: BTreeSet<Oid> = usable.iter().map(|i| ids[*i]).filter(|id| !has_child.contains(id)).collect();
        for (j, t) in tips.iter().enumerate() {
            lab.set_ref(&spare_key(ns_base + j as u8), tn, &oid, *t);
        }
        match lab.eval::<Identity>(tn, &oid) {
            Ok(o) => Ok(o.map(|o| {
                let e = entries(&o.history);
                (o.object, e)
            })),
            Err(e) => Err(e.to_string()),
        }
    };

    if clean_only {
        let (full, e1) = match eval_subset(&|_| true, n, 0) {
            Ok(Some(i)) => i,
            Ok(None) => return fail("identity:not-found", "identity object not found"),
            Err(e) => return fail("identity:evaluation-failed", format!("full history: {e}")),
        };
        let kept: BTreeSet<usize> = (0..n).filter(|i| e1.contains(&ids[*i])).collect();
        let mut direct = 0;
        for i in 1..n {
            if !kept.contains(&i) {
                if parents[i].iter().all(|p| kept.contains(p)) {
                    direct += 1;
                    ctx.count("identity:directly-rejected-change");
                } else {
                    ctx.count("identity:dropped-as-dependant");
                }
            }
        }
        for i in &kept {
            for p in &parents[*i] {
                ensure!(kept.contains(p), "identity:dependant-of-dropped-change-kept", "change #{i} is in the history but its parent #{p} was dropped");
            }
        }
        let (clean, e2) = match eval_subset(&|i| kept.contains(&i), n, 100) {
            Ok(Some(i)) => i,
            other => return fail("identity:clean-history-does-not-evaluate", format!("evaluating the history without the rejected changes failed: {:?}", other.err())),
        };
        if e1 != e2 {
            // Which change is kept in the full history but not in the clean one? If it had a concurrent
            // change that was dropped, its own failure was tolerated only because of that sibling
            // (Identity::op ignores UnexpectedState whenever the change has any concurrent change).
            let mut anc: Vec<BTreeSet<usize>> = vec![BTreeSet::new(); n];
            for i in 1..n {
                let mut a = BTreeSet::new();
                for p in &parents[i] {
                    a.insert(*p);
                    a.extend(anc[*p].iter().copied());
                }
                anc[i] = a;
            }
            let lost: Vec<usize> = kept.iter().copied().filter(|i| !e2.contains(&ids[*i])).collect();
            let minimal: Vec<usize> = lost.iter().copied().filter(|i| parents[*i].iter().all(|p| e2.contains(&ids[*p]))).collect();
            let beside_dropped = !minimal.is_empty()
                && e2.is_subset(&e1)
                && minimal.iter().all(|m| (1..n).any(|d| !kept.contains(&d) && ids[d] != ids[*m] && !anc[*m].contains(&d) && !anc[d].contains(m)));
            let sig = if beside_dropped {
                "identity:change-kept-only-beside-dropped-concurrent-change"
            } else {
                "identity:entries-differ-on-clean-history"
            };
            return fail(
                sig,
                format!(
                    "evaluating only the kept entries keeps another set: {} then {} entries; changes {:?} are kept only in the full history",
                    e1.len(),
                    e2.len(),
                    minimal
                ),
            );
        }
        if full != clean {
            let a = format!("{full:?}");
            let b2 = format!("{clean:?}");
            let at = a.bytes().zip(b2.bytes()).position(|(x, y)| x != y).unwrap_or(0);
            let lo = at.saturating_sub(80);
            return fail(
                "identity:rejected-change-left-a-trace",
                format!(
                    "state with rejected changes differs from the state of the clean history; first difference near: …{}… vs …{}…",
                    &a[lo..(at + 80).min(a.len())],
                    &b2[lo..(at + 80).min(b2.len())]
                ),
            );
        }
        ctx.count("identity:cases");
        if direct > 0 && kept.len() > 1 {
            ctx.nontrivial(c);
            ctx.sample("identity-histories", c);
        }
        return Ok(());
    }

    let mut prev_chain: Vec<(Oid, String, String, Oid)> = vec![];
    let mut adopted = false;
    let mut final_identity: Option<(Identity, BTreeSet<Oid>)> = None;
    let mut ever_delegates: BTreeSet<PublicKey> = BTreeSet::new();
    for upto in 1..=n {
        let (identity, kept_entries) = match eval_subset(&|_| true, upto, 0) {
            Ok(Some(i)) => i,
            Ok(None) => return fail("identity:not-found", "identity object not found"),
            Err(e) => return fail("identity:evaluation-failed", format!("prefix {upto}: {e}")),
        };
        // walk the chain
        let mut chain: Vec<(Oid, String, String, Oid)> = vec![];
        let mut cur = identity.current;
        let mut guard = 0;
        loop {
            guard += 1;
            ensure!(guard < 64, "identity:parent-chain-cycle", "parent chain of the current revision does not end at the root");
            let Some(rev) = identity.revision(&cur) else {
                return fail("identity:chain-revision-missing-or-redacted", format!("prefix {upto}: revision {cur} on the accepted chain is missing or redacted"));
            };
            ensure!(
                rev.is_accepted(),
                "identity:chain-revision-not-accepted",
                "prefix {upto}: revision {cur} on the chain of the current document is in state {}",
                rev.state
            );
            for d in rev.doc.delegates().iter() {
                ever_delegates.insert(*d.as_key());
            }
            chain.push((cur, rev.title.clone(), rev.description.clone(), rev.blob));
            let Some(parent) = rev.parent else {
                ensure!(cur == identity.root, "identity:chain-does-not-end-at-root", "chain ends at {cur}, not at the root");
                break;
            };
            let Some(prev) = identity.revision(&parent) else {
                return fail("identity:chain-revision-missing-or-redacted", format!("prefix {upto}: parent {parent} of {cur} is missing or redacted"));
            };
            // majority of valid delegate signatures of the replaced document, over the new blob
            let pdoc = &prev.doc;
            let need = pdoc.delegates().len() / 2 + 1;
            let mut valid: BTreeSet<PublicKey> = BTreeSet::new();
            for (key, sig) in rev.signatures() {
                let is_delegate = pdoc.delegates().iter().any(|d| d.as_key() == key);
                let verifies = key.verify(rev.blob.as_bytes(), &sig).is_ok();
                if is_delegate && verifies {
                    valid.insert(*key);
                }
            }
            ensure!(
                valid.len() >= need,
                "identity:adopted-without-majority-of-valid-signatures",
                "prefix {upto}: revision {cur} replaced {parent} with {} valid delegate signature(s) over its blob, {need} needed ({} delegates)",
                valid.len(),
                pdoc.delegates().len()
            );
            ensure!(
                pdoc.delegates().iter().any(|d| d == rev.author.id()),
                "identity:adopted-revision-by-non-delegate",
                "prefix {upto}: revision {cur} on the accepted chain was authored by {}, who is not a delegate of the document it replaces",
                rev.author.id()
            );
            // verdict keys ⊆ delegates of the parent document
            for (key, _) in rev.verdicts() {
                ensure!(
                    pdoc.delegates().iter().any(|d| d.as_key() == key),
                    "identity:verdict-by-non-delegate",
                    "prefix {upto}: revision {cur} has a verdict by {key}, who is not a delegate of the document it replaces"
                );
            }
            // the blob is what the generator wrote for that revision
            if let Some(info) = rev_by_id.get(&cur) {
                ensure!(info.blob == rev.blob && info.doc == rev.doc, "identity:revision-document-differs", "revision {cur} carries another document than was written");
            }
            cur = parent;
        }
        chain.reverse();
        if std::env::var("VERIF_DEBUG").is_ok() {
            eprintln!("prefix {upto}: chain {:?} entries {}", chain.iter().map(|c| c.1.clone()).collect::<Vec<_>>(), kept_entries.len());
        }
        // monotonic: the previous chain is a prefix of this one
        // (is the history up to here linear, or does it have concurrent branches?)
        let shape = {
            let mut kids = vec![0usize; upto];
            for i in 1..upto {
                for p in &parents[i] {
                    kids[*p] += 1;
                }
            }
            if kids.iter().any(|k| *k > 1) || (1..upto).any(|i| parents[i].len() > 1) { "concurrent-branches" } else { "linear-history" }
        };
        for (k, old) in prev_chain.iter().enumerate() {
            let Some(new) = chain.get(k) else {
                return fail(
                    format!("identity:accepted-revision-lost:{shape}"),
                    format!("prefix {upto}: revision {} was accepted in the shorter history and is no longer on the accepted chain (chain got shorter)", old.0),
                );
            };
            if new.0 != old.0 {
                // Another child of the same accepted parent took its place. Both have a majority of valid
                // signatures (the clause above passed for both evaluations): some delegate voted for two
                // competing revisions in concurrent branches.
                return fail(
                    format!("identity:accepted-revision-replaced-by-competing-revision:{shape}"),
                    format!(
                        "prefix {upto}: accepted revision {} ({:?}) was replaced by {} ({:?}), which is not its successor",
                        old.0, old.1, new.0, new.1
                    ),
                );
            }
            ensure!(
                new == old,
                "identity:accepted-revision-edited",
                "prefix {upto}: accepted revision {} changed: {:?} -> {:?}",
                old.0,
                (&old.1, &old.2, old.3),
                (&new.1, &new.2, new.3)
            );
        }
        if chain.len() > 1 {
            adopted = true;
        }
        prev_chain = chain;
        if upto == n {
            final_identity = Some((identity, kept_entries));
        }
    }
    // ---- metamorphic: drop everything authored by keys that never were delegates
    let (full, full_entries) = final_identity.unwrap();
    let strangers: BTreeSet<u8> = (0..NKEYS).filter(|k| !ever_delegates.contains(&lab.key(*k))).collect();
    if !strangers.is_empty() && (1..n).any(|i| strangers.contains(&authors[i])) {
        let (without, without_entries) = match eval_subset(&|i| !strangers.contains(&authors[i]), n, 100) {
            Ok(Some(i)) => i,
            other => return fail("identity:evaluation-failed", format!("history without strangers' changes: {:?}", other.err())),
        };
        if !(without.current == full.current && without.doc() == full.doc()) {
            // Which delegate-authored changes are kept differs? Then the strangers' changes did not act
            // themselves: their mere presence as concurrent siblings (or as parents) changed which
            // delegate changes survive pruning.
            let by_delegates = |e: &BTreeSet<Oid>| -> BTreeSet<Oid> {
                e.iter().filter(|id| ids.iter().position(|x| x == *id).map(|i| !strangers.contains(&authors[i])).unwrap_or(true)).copied().collect()
            };
            let sig = if by_delegates(&full_entries) != by_delegates(&without_entries) {
                "identity:stranger-change-alters-which-delegate-changes-survive"
            } else {
                "identity:changed-by-non-delegate"
            };
            return fail(
                sig,
                format!(
                    "removing the changes authored by never-delegates {:?} changes the identity: current {} vs {}",
                    strangers, full.current, without.current
                ),
            );
        }
        ctx.count("metamorphic:strangers-removed");
    }
    let concurrent = (1..n).any(|i| parents[i].len() > 1) || {
        let mut has_child = vec![0usize; n];
        for i in 1..n {
            for p in &parents[i] {
                has_child[*p] += 1;
            }
        }
        has_child.iter().any(|c| *c > 1)
    };
    ctx.count_n("chain-length", prev_chain.len() as u64);
    if adopted {
        ctx.count("case:revision-adopted");
    }
    if adopted && (had_bad_sig || concurrent) {
        ctx.nontrivial(c);
        ctx.sample("histories", c);
    }
    Ok(())
}

fn run(ctx: &Ctx) {
    ctx.run("proposal-rounds", rounds_strategy(), ctx.cases(480, 6_000), |c: &Case| check(ctx, c));
    ctx.run("histories", case_strategy(12), ctx.cases(320, 4_000), |c: &Case| check(ctx, c));
    ctx.run("short-histories", case_strategy(5), ctx.cases(160, 2_000), |c: &Case| check(ctx, c));
}
