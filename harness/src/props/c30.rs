//! C30 — Unified diffs round-trip through their text encoding.
//!
//! Two small trees of newline-terminated UTF-8 text files are written into an
//! in-memory object database of a scratch bare repository; `git2` computes the
//! tree-to-tree diff with the options the CLI uses (`rad diff` / `rad patch
//! review`: patience + minimal, N context lines, exact-match rename detection,
//! no copies); the result is converted with `radicle_surf` exactly as the CLI
//! does, encoded with `Encode::to_unified_string` and decoded again with
//! `Decode::parse`. The decoded diff must list the same files with the same
//! change kinds and the same hunks (header bytes, line kinds, line contents,
//! line numbers).
use std::collections::BTreeMap;
use std::path::PathBuf;

use proptest::prelude::*;
use radicle::git::raw as git2;
use radicle_cli::git::unified_diff::{Decode, Encode};
use radicle_surf::diff::{Diff, DiffContent, EofNewLine, FileDiff, Hunk, Modification};
use serde::{Deserialize, Serialize};

use crate::core::*;
use crate::ensure;

pub const PROP: Prop = Prop {
    id: "C30",
    shards: (4, 16),
    level: "exploration",
    rule: "A case is 1..4 files, each with an old and/or new version (>= 1 line, every line newline-terminated, \
           valid UTF-8, no NUL), the new version derived from the old one by line edits (insert, delete, replace, \
           duplicate, toggle trailing blank), or the file is added, deleted, renamed unchanged, renamed and edited, \
           or only changes its executable bit; plus the diff options (0..5 context lines, patience, minimal). Line \
           contents are drawn from classes: words, empty, trailing blanks/tabs, blank-only, trailing CR, trailing \
           Unicode white space, diff-syntax look-alikes (leading +, -, @@, ---, +++, 'diff --git', backslash marker), \
           Unicode words, function-like lines (picked up as hunk header context) and long lines. Each diff is \
           round-tripped twice: whole (Diff::parse, git's patch parser) and per file content (DiffContent::parse, \
           the crate's own decoder). Non-trivial: the \
           git diff contains at least one hunk and the case was not excluded (binary / missing EOF newline / copy). \
           Distinct = hash of the whole case.",
    assumptions: &[
        "file contents are valid UTF-8 without NUL bytes and end with a newline; files are non-empty",
        "file names are plain ASCII without spaces or characters git would quote",
        "diffs are computed like the CLI does: exact-match rename detection, copy detection off",
        "object ids and file modes in the file headers are not part of the comparison (the encoder abbreviates ids)",
    ],
    run,
    budget_s: (600, 7200),
};

#[derive(Debug, Clone, Serialize, Deserialize, Hash, PartialEq, Eq)]
pub struct FileCase {
    /// path in the old tree (used when `old` is present)
    old_name: String,
    /// path in the new tree (used when `new` is present)
    new_name: String,
    /// lines (without the terminating newline) of the old version
    old: Option<Vec<String>>,
    /// lines of the new version
    new: Option<Vec<String>>,
    old_exec: bool,
    new_exec: bool,
}

#[derive(Debug, Clone, Serialize, Deserialize, Hash, PartialEq, Eq)]
pub struct Case {
    files: Vec<FileCase>,
    context: u8,
    patience: bool,
    minimal: bool,
}

// ---------------------------------------------------------------------------
// Scratch repository (in-memory object database)
// ---------------------------------------------------------------------------

struct Lab {
    _dir: tempfile::TempDir,
    repo: git2::Repository,
}

impl Lab {
    fn new() -> Self {
        let dir = tempfile::Builder::new().prefix("vcheck-c30-").tempdir().expect("tempdir");
        let repo = git2::Repository::init_bare(dir.path()).expect("init scratch repository");
        Lab { _dir: dir, repo }
    }

    /// Write a tree (one optional directory level is enough for the name pool).
    fn tree(&self, files: &BTreeMap<String, (Vec<u8>, bool)>) -> git2::Oid {
        let mut top: BTreeMap<&str, (git2::Oid, i32)> = BTreeMap::new();
        let mut dirs: BTreeMap<&str, BTreeMap<&str, (git2::Oid, i32)>> = BTreeMap::new();
        for (name, (content, exec)) in files {
            let oid = self.repo.blob(content).expect("blob");
            let mode = if *exec { 0o100755 } else { 0o100644 };
            match name.split_once('/') {
                Some((d, f)) => {
                    dirs.entry(d).or_default().insert(f, (oid, mode));
                }
                None => {
                    top.insert(name.as_str(), (oid, mode));
                }
            }
        }
        for (d, entries) in &dirs {
            let mut b = self.repo.treebuilder(None).expect("treebuilder");
            for (f, (oid, mode)) in entries {
                b.insert(f, *oid, *mode).expect("tree insert");
            }
            top.insert(d, (b.write().expect("tree write"), 0o040000));
        }
        let mut b = self.repo.treebuilder(None).expect("treebuilder");
        for (f, (oid, mode)) in &top {
            b.insert(f, *oid, *mode).expect("tree insert");
        }
        b.write().expect("tree write")
    }
}

fn content(lines: &[String]) -> Vec<u8> {
    let mut v = Vec::new();
    for l in lines {
        v.extend_from_slice(l.as_bytes());
        v.push(b'\n');
    }
    v
}

// ---------------------------------------------------------------------------
// Comparison
// ---------------------------------------------------------------------------

fn kind(f: &FileDiff) -> &'static str {
    match f {
        FileDiff::Added(_) => "added",
        FileDiff::Deleted(_) => "deleted",
        FileDiff::Modified(_) => "modified",
        FileDiff::Moved(_) => "moved",
        FileDiff::Copied(_) => "copied",
    }
}

fn paths(f: &FileDiff) -> (PathBuf, PathBuf) {
    match f {
        FileDiff::Added(x) => (x.path.clone(), x.path.clone()),
        FileDiff::Deleted(x) => (x.path.clone(), x.path.clone()),
        FileDiff::Modified(x) => (x.path.clone(), x.path.clone()),
        FileDiff::Moved(x) => (x.old_path.clone(), x.new_path.clone()),
        FileDiff::Copied(x) => (x.old_path.clone(), x.new_path.clone()),
    }
}

fn diff_content(f: &FileDiff) -> &DiffContent {
    match f {
        FileDiff::Added(x) => &x.diff,
        FileDiff::Deleted(x) => &x.diff,
        FileDiff::Modified(x) => &x.diff,
        FileDiff::Moved(x) => &x.diff,
        FileDiff::Copied(x) => &x.diff,
    }
}

fn hunks(c: &DiffContent) -> &[Hunk<Modification>] {
    match c {
        DiffContent::Plain { hunks, .. } => hunks.0.as_slice(),
        _ => &[],
    }
}

/// (kind, content bytes, old line number, new line number)
fn line_parts(m: &Modification) -> (&'static str, &[u8], Option<u32>, Option<u32>) {
    match m {
        Modification::Addition(a) => ("addition", a.line.as_bytes(), None, Some(a.line_no)),
        Modification::Deletion(d) => ("deletion", d.line.as_bytes(), Some(d.line_no), None),
        Modification::Context { line, line_no_old, line_no_new } => {
            ("context", line.as_bytes(), Some(*line_no_old), Some(*line_no_new))
        }
    }
}

fn lossy(b: &[u8]) -> String {
    String::from_utf8_lossy(b).into_owned()
}

/// Compare two hunk lists: header bytes, line kinds, contents and numbers (and the
/// ranges when `ranges` is set). `pre` prefixes the failure signatures.
fn compare_hunks(
    pre: &str,
    path: &std::path::Path,
    hx: &[Hunk<Modification>],
    hy: &[Hunk<Modification>],
    ranges: bool,
    text: &str,
) -> CaseResult {
    ensure!(
        hx.len() == hy.len(),
        format!("{pre}hunks:count"),
        "{path:?}: {} hunks decoded as {}; text:\n{text}",
        hx.len(),
        hy.len()
    );
    for (p, q) in hx.iter().zip(hy.iter()) {
        ensure!(
            p.header.as_bytes() == q.header.as_bytes(),
            format!("{pre}hunk:header"),
            "{path:?}: hunk header {:?} decoded as {:?}",
            lossy(p.header.as_bytes()),
            lossy(q.header.as_bytes())
        );
        ensure!(
            p.lines.len() == q.lines.len(),
            format!("{pre}hunk:line-count"),
            "{path:?}: hunk {:?} has {} lines, decoded {}; text:\n{text}",
            lossy(p.header.as_bytes()),
            p.lines.len(),
            q.lines.len()
        );
        for (l, m) in p.lines.iter().zip(q.lines.iter()) {
            let (lk, lc, lo, ln) = line_parts(l);
            let (mk, mc, mo, mn) = line_parts(m);
            ensure!(
                lk == mk,
                format!("{pre}line:kind"),
                "{path:?}: {lk} line {:?} decoded as {mk} line {:?}",
                lossy(lc),
                lossy(mc)
            );
            ensure!(
                lc == mc,
                format!("{pre}line:content"),
                "{path:?}: {lk} line {:?} decoded as {:?}",
                lossy(lc),
                lossy(mc)
            );
            ensure!(
                lo == mo && ln == mn,
                format!("{pre}line:number"),
                "{path:?}: {lk} line {:?} numbered ({lo:?},{ln:?}) decoded as ({mo:?},{mn:?})",
                lossy(lc)
            );
        }
        if ranges {
            ensure!(
                p.old == q.old && p.new == q.new,
                format!("{pre}hunk:range"),
                "{path:?}: hunk {:?} ranges {:?}/{:?} decoded as {:?}/{:?}",
                lossy(p.header.as_bytes()),
                p.old,
                p.new,
                q.old,
                q.new
            );
        }
    }
    Ok(())
}

fn compare(a: &Diff, b: &Diff, text: &str) -> CaseResult {
    let fa: Vec<&FileDiff> = a.files().collect();
    let fb: Vec<&FileDiff> = b.files().collect();
    ensure!(
        fa.len() == fb.len(),
        "files:count",
        "diff has {} files, decoded diff has {}; text:\n{text}",
        fa.len(),
        fb.len()
    );
    for (x, y) in fa.iter().zip(fb.iter()) {
        ensure!(
            kind(x) == kind(y),
            "file:kind",
            "{:?}: change kind {} decoded as {}; text:\n{text}",
            paths(x),
            kind(x),
            kind(y)
        );
        ensure!(
            paths(x) == paths(y),
            "file:path",
            "paths {:?} decoded as {:?}; text:\n{text}",
            paths(x),
            paths(y)
        );
        let (hx, hy) = (hunks(diff_content(x)), hunks(diff_content(y)));
        compare_hunks("", &paths(x).1, hx, hy, true, text)?;
    }
    Ok(())
}

// ---------------------------------------------------------------------------
// Check
// ---------------------------------------------------------------------------

fn trailing_ws(line: &[u8]) -> bool {
    // `line` includes the terminating newline
    let s = String::from_utf8_lossy(line);
    let body = s.strip_suffix('\n').unwrap_or(&s);
    body.trim_end().len() != body.len()
}

fn check(ctx: &Ctx, lab: &Lab, c: &Case) -> CaseResult {
    // Build the two trees. Later files win on a name clash (replay files edited by hand).
    let mut old_files: BTreeMap<String, (Vec<u8>, bool)> = BTreeMap::new();
    let mut new_files: BTreeMap<String, (Vec<u8>, bool)> = BTreeMap::new();
    for f in &c.files {
        if let Some(l) = &f.old {
            if !l.is_empty() {
                old_files.insert(f.old_name.clone(), (content(l), f.old_exec));
            }
        }
        if let Some(l) = &f.new {
            if !l.is_empty() {
                new_files.insert(f.new_name.clone(), (content(l), f.new_exec));
            }
        }
    }
    let repo = &lab.repo;
    let old_tree = repo.find_tree(lab.tree(&old_files)).expect("old tree");
    let new_tree = repo.find_tree(lab.tree(&new_files)).expect("new tree");

    // As `rad diff` / the review builder do.
    let mut opts = git2::DiffOptions::new();
    opts.patience(c.patience).minimal(c.minimal).context_lines(c.context as u32);
    let mut find_opts = git2::DiffFindOptions::new();
    find_opts.exact_match_only(true);
    find_opts.all(true);
    find_opts.copies(false);

    let mut gdiff =
        repo.diff_tree_to_tree(Some(&old_tree), Some(&new_tree), Some(&mut opts)).expect("git diff");
    gdiff.find_similar(Some(&mut find_opts)).expect("find_similar");
    let diff = match Diff::try_from(gdiff) {
        Ok(d) => d,
        Err(_) => {
            ctx.count("excluded:surf-conversion-error");
            return Ok(());
        }
    };

    // Exclusions stated by the property (and copies, which the encoder marks `todo!`).
    let mut n_hunks = 0usize;
    let mut max_hunks_per_file = 0usize;
    let mut has_trailing_ws = false;
    let mut has_header_ctx = false;
    let mut has_lookalike = false;
    let mut has_non_ascii = false;
    for f in diff.files() {
        if matches!(f, FileDiff::Copied(_)) {
            ctx.count("excluded:copy");
            return Ok(());
        }
        match diff_content(f) {
            DiffContent::Binary => {
                ctx.count("excluded:binary");
                return Ok(());
            }
            DiffContent::Plain { eof, hunks, .. } => {
                if *eof != EofNewLine::NoneMissing {
                    ctx.count("excluded:missing-eof-newline");
                    return Ok(());
                }
                n_hunks += hunks.0.len();
                max_hunks_per_file = max_hunks_per_file.max(hunks.0.len());
                for h in hunks.iter() {
                    let hdr = h.header.as_bytes();
                    if let Some(p) = hdr.windows(3).rposition(|w| w == b" @@") {
                        if hdr[p + 3..].iter().any(|b| !b.is_ascii_whitespace()) {
                            has_header_ctx = true;
                        }
                    }
                    for l in &h.lines {
                        let (_, bytes, _, _) = line_parts(l);
                        has_trailing_ws |= trailing_ws(bytes);
                        has_non_ascii |= !bytes.is_ascii();
                        has_lookalike |= [&b"+"[..], b"-", b"@@", b"\\ ", b"diff --git", b" ", b"index ", b"rename "]
                            .iter()
                            .any(|p| bytes.starts_with(p));
                    }
                }
            }
            DiffContent::Empty => {}
        }
    }

    // Encode. A panic here propagates (signature `panic@<file>`).
    let text = match diff.to_unified_string() {
        Ok(t) => t,
        Err(e) => return fail("encode:error", format!("to_unified_string failed: {e}")),
    };
    // Hand-written decoder first (it also applies to diffs the known finding excludes below):
    // the hunks of every file, encoded on their own (`Encode for DiffContent`, as the review
    // builder does) and decoded with the crate's own `Decode for DiffContent /
    // Hunk / Modification`. Headers and lines must come back; the decoder's `old`/`new` ranges
    // follow a different convention than git's and are not part of the statement.
    for f in diff.files() {
        let dc = diff_content(f);
        if hunks(dc).is_empty() {
            continue;
        }
        let part = match dc.to_unified_string() {
            Ok(t) => t,
            Err(e) => return fail("content:encode:error", format!("to_unified_string failed: {e}")),
        };
        let back = match DiffContent::parse(&part) {
            Ok(d) => d,
            Err(e) => {
                return fail("content:decode:error", format!("DiffContent::parse failed: {e}; text:\n{part}"))
            }
        };
        compare_hunks("content:", &paths(f).1, hunks(dc), hunks(&back), false, &part)?;
        ctx.count("file-contents-round-tripped-through-DiffContent::parse");
    }

    // Decode.
    let decoded = match Diff::parse(&text) {
        Ok(d) => d,
        Err(e) => {
            let msg = e.to_string();
            // Stable sub-clause for the one known cause: the text of an unchanged rename
            // carries no file mode and the decoder refuses a delta without one.
            let sig = if msg.contains("unknown file mode") && diff.moved().next().is_some() {
                "decode:error:moved-file-mode"
            } else {
                "decode:error"
            };
            return fail(sig, format!("Diff::parse failed: {msg}; text:\n{text}"));
        }
    };
    compare(&diff, &decoded, &text)?;

    // Classification.
    let nfiles = diff.files().count();
    ctx.count(&format!("diff-files={}", nfiles.min(5)));
    for f in diff.files() {
        ctx.count(&format!("kind:{}", kind(f)));
        if let FileDiff::Modified(m) = f {
            if m.old.mode != m.new.mode {
                ctx.count("modified:mode-change");
                if hunks(&m.diff).is_empty() {
                    ctx.count("modified:mode-change-only");
                }
            }
        }
    }
    ctx.count(&format!("context-lines={}", c.context));
    ctx.count(match n_hunks {
        0 => "hunks=0",
        1 => "hunks=1",
        2..=3 => "hunks=2-3",
        _ => "hunks>=4",
    });
    if max_hunks_per_file >= 2 {
        ctx.count("file-with-multiple-hunks");
    }
    if has_trailing_ws {
        ctx.count("line-with-trailing-whitespace");
    }
    if has_header_ctx {
        ctx.count("hunk-header-with-function-context");
    }
    if has_lookalike {
        ctx.count("line-looking-like-diff-syntax");
    }
    if has_non_ascii {
        ctx.count("line-with-non-ascii");
    }
    if n_hunks >= 1 {
        ctx.nontrivial(c);
        ctx.sample("random", c);
    }
    Ok(())
}

// ---------------------------------------------------------------------------
// Generators
// ---------------------------------------------------------------------------

const NAMES: [&str; 10] = [
    "a.txt",
    "b.rs",
    "README",
    "Makefile",
    "x-y_z.1",
    "src/lib.rs",
    "src/main.rs",
    "docs/guide.md",
    "docs/a.txt",
    "zeta",
];

const LOOKALIKES: [&str; 18] = [
    "+added",
    "-removed",
    "++",
    "--",
    "+",
    "-",
    "@@ -1,2 +1,2 @@",
    "@@ -0,0 +1 @@ fn x()",
    "--- a/a.txt",
    "+++ b/a.txt",
    "--- /dev/null",
    "diff --git a/a.txt b/a.txt",
    "\\ No newline at end of file",
    "index 0000000..1111111 100644",
    " leading space",
    "\tleading tab",
    "rename from a.txt",
    "Binary files a/a.txt and b/a.txt differ",
];

fn line() -> impl Strategy<Value = String> {
    prop_oneof![
        8 => "[a-z]{1,8}( [a-z]{1,6}){0,3}",
        2 => Just(String::new()),
        3 => "[a-z]{1,6}( [a-z]{1,4})?[ \t]{1,3}",
        1 => "[ \t]{1,4}",
        1 => "[a-z]{1,6}\r",
        1 => "[a-z]{0,4}[\u{a0}\u{2003}\u{3000}\u{85}\u{0c}\u{0b}\u{2028}]",
        3 => proptest::sample::select(LOOKALIKES.to_vec()).prop_map(|s| s.to_string()),
        2 => "[a-zéßΩж日本語]{1,8}",
        1 => "[a-z]{1,4}[\u{1}-\u{8}\u{e}-\u{1f}\u{7f}][a-z]{0,3}",
        2 => "(fn|pub fn|def|class|struct|function) [a-z]{1,8}\\(\\) \\{?[ \t]{0,2}",
        1 => "[a-z ]{70,130}",
        1 => "[a-z]{1,3}[é日Ω ]{30,60}",
    ]
}

fn lines(max: usize) -> impl Strategy<Value = Vec<String>> {
    prop_oneof![
        2 => proptest::collection::vec(line(), 1..=max.min(5)),
        3 => proptest::collection::vec(line(), 1..=max),
    ]
}

#[derive(Debug, Clone)]
enum Edit {
    Insert(u16, String),
    Delete(u16),
    Replace(u16, String),
    Duplicate(u16, u16),
    ToggleTrailingBlank(u16, bool),
}

fn edit() -> impl Strategy<Value = Edit> {
    prop_oneof![
        3 => (any::<u16>(), line()).prop_map(|(p, l)| Edit::Insert(p, l)),
        3 => any::<u16>().prop_map(Edit::Delete),
        3 => (any::<u16>(), line()).prop_map(|(p, l)| Edit::Replace(p, l)),
        1 => any::<(u16, u16)>().prop_map(|(a, b)| Edit::Duplicate(a, b)),
        2 => any::<(u16, bool)>().prop_map(|(p, t)| Edit::ToggleTrailingBlank(p, t)),
    ]
}

fn apply(old: &[String], edits: &[Edit]) -> Vec<String> {
    let mut v = old.to_vec();
    for e in edits {
        match e {
            Edit::Insert(p, l) => v.insert(pick(*p, v.len() + 1), l.clone()),
            Edit::Delete(p) => {
                if v.len() > 1 {
                    v.remove(pick(*p, v.len()));
                }
            }
            Edit::Replace(p, l) => {
                let i = pick(*p, v.len());
                v[i] = l.clone();
            }
            Edit::Duplicate(a, b) => {
                let l = v[pick(*a, v.len())].clone();
                v.insert(pick(*b, v.len() + 1), l);
            }
            Edit::ToggleTrailingBlank(p, tab) => {
                let i = pick(*p, v.len());
                let l = &mut v[i];
                if l.ends_with(' ') || l.ends_with('\t') {
                    l.pop();
                } else {
                    l.push(if *tab { '\t' } else { ' ' });
                }
            }
        }
    }
    v
}

/// What happens to one file between the two trees.
#[derive(Debug, Clone, Copy)]
enum Fate {
    Modified,
    Added,
    Deleted,
    Renamed,
    RenamedEdited,
    Unchanged,
    ModeOnly,
}

fn fate() -> impl Strategy<Value = Fate> {
    prop_oneof![
        8 => Just(Fate::Modified),
        2 => Just(Fate::Added),
        2 => Just(Fate::Deleted),
        2 => Just(Fate::Renamed),
        1 => Just(Fate::RenamedEdited),
        1 => Just(Fate::Unchanged),
        1 => Just(Fate::ModeOnly),
    ]
}

fn file(max_lines: usize) -> impl Strategy<Value = (Fate, Vec<String>, Vec<Edit>, bool, bool)> {
    (
        fate(),
        lines(max_lines),
        proptest::collection::vec(edit(), 1..=5),
        proptest::bool::weighted(0.1),
        proptest::bool::weighted(0.08),
    )
}

fn random_case(max_files: usize, max_lines: usize) -> impl Strategy<Value = Case> {
    (
        proptest::collection::vec(file(max_lines), 1..=max_files),
        Just((0..NAMES.len()).collect::<Vec<usize>>()).prop_shuffle(),
        prop_oneof![3 => Just(3u8), 1 => Just(0u8), 1 => Just(1u8), 1 => Just(2u8), 1 => Just(5u8)],
        proptest::bool::weighted(0.7),
        proptest::bool::weighted(0.7),
    )
        .prop_map(|(files, names, context, patience, minimal)| {
            let files = files
                .into_iter()
                .enumerate()
                .map(|(i, (fate, base, edits, exec, flip))| {
                    let a = NAMES[names[i]].to_string();
                    let b = NAMES[names[i + 5]].to_string();
                    let edited = apply(&base, &edits);
                    let (old_name, new_name, old, new, new_exec) = match fate {
                        Fate::Modified => (a.clone(), a, Some(base), Some(edited), exec ^ flip),
                        Fate::Added => (a.clone(), a, None, Some(base), exec),
                        Fate::Deleted => (a.clone(), a, Some(base), None, exec),
                        Fate::Renamed => (a, b, Some(base.clone()), Some(base), exec ^ flip),
                        Fate::RenamedEdited => (a, b, Some(base), Some(edited), exec),
                        Fate::Unchanged => (a.clone(), a, Some(base.clone()), Some(base), exec),
                        Fate::ModeOnly => (a.clone(), a, Some(base.clone()), Some(base), !exec),
                    };
                    FileCase { old_name, new_name, old, new, old_exec: exec, new_exec }
                })
                .collect();
            Case { files, context, patience, minimal }
        })
}

/// Small exhaustive-ish family: one modified file of three lines where one
/// line is replaced, for every pair (old line, new line) of a token table —
/// every combination of the line classes meets every other as deletion and
/// addition with fixed context.
fn token_pairs() -> impl Iterator<Item = Case> {
    const TOKENS: [&str; 16] = [
        "",
        "a",
        "a ",
        "a\t",
        " ",
        "\t",
        "a\r",
        "a\u{a0}",
        "+a",
        "-a",
        "@@ -1 +1 @@",
        "\\ No newline at end of file",
        " a",
        "日本",
        "fn a() {",
        "--- a/a.txt",
    ];
    (0..TOKENS.len()).flat_map(move |i| {
        (0..TOKENS.len()).flat_map(move |j| {
            (0..3usize).filter_map(move |pos| {
                if i == j {
                    return None;
                }
                let mut old = vec!["fn ctx() {".to_string(), "mid".to_string(), "end".to_string()];
                let mut new = old.clone();
                old[pos] = TOKENS[i].to_string();
                new[pos] = TOKENS[j].to_string();
                Some(Case {
                    files: vec![FileCase {
                        old_name: "a.txt".into(),
                        new_name: "a.txt".into(),
                        old: Some(old),
                        new: Some(new),
                        old_exec: false,
                        new_exec: false,
                    }],
                    context: (pos as u8 + i as u8) % 4,
                    patience: true,
                    minimal: true,
                })
            })
        })
    })
}

fn run(ctx: &Ctx) {
    let lab = Lab::new();
    // Keep the objects of the scratch repository in memory.
    let odb = lab.repo.odb().expect("odb");
    let mempack = odb.add_new_mempack_backend(1000).expect("mempack backend");
    let cases_since_reset = std::cell::Cell::new(0u32);
    let f = |c: &Case| {
        let r = check(ctx, &lab, c);
        cases_since_reset.set(cases_since_reset.get() + 1);
        if cases_since_reset.get() >= 256 {
            cases_since_reset.set(0);
            let _ = mempack.reset();
        }
        r
    };
    ctx.enumerate("token-pairs", token_pairs(), true, f);
    ctx.run("random-small", random_case(2, 8), ctx.cases(16_000, 1_000_000), f);
    ctx.run("random-large", random_case(4, 40), ctx.cases(10_000, 600_000), f);
}
