//! C09, sub-space "fetch-batches": what the node does to the cache after a fetch.
//!
//! Changes are made behind the cache's back (through `NoCache` handles and raw
//! change commits, the way a fetch brings them in); the reference updates of a
//! round are handed, in a generated order, to the node's real
//! `worker::fetch::cache_cobs` (exposed by the `verif-hooks` feature). Some of
//! the updated objects cannot be evaluated at all (their root operation does not
//! decode): direct evaluation reports an error for those and they are outside the
//! comparison, but every object that direct evaluation can load must be answered
//! identically by the cache, whatever else was in the same batch.
use std::collections::{BTreeMap, BTreeSet};

use nonempty::NonEmpty;
use proptest::prelude::*;
use radicle::cob::cache::StoreWriter;
use radicle::cob::issue::cache::Issues as IssuesApi;
use radicle::cob::issue::{self, CloseReason, Issue};
use radicle::cob::patch::cache::Patches as PatchesApi;
use radicle::cob::patch::{self, MergeTarget, Patch, Status};
use radicle::cob::{ObjectId, TypeName};
use radicle::git::{Oid, RefString};
use radicle::storage::{ReadRepository, RefUpdate};
use radicle_cob::change::{Storage as _, Template};
use radicle_cob::object::Storage as _;
use serde::{Deserialize, Serialize};

use super::c09::{labels_of, patch_eq, set_clock, world, World, T0};
use crate::core::*;
use crate::ensure;

#[derive(Debug, Clone, Serialize, Deserialize, Hash)]
pub enum BOp {
    NewIssue,
    NewPatch { branch: u8 },
    IssueComment { issue: u16 },
    IssueClose { issue: u16, solved: bool },
    IssueRemove { issue: u16 },
    PatchLabel { patch: u16, labels: u8 },
    PatchArchive { patch: u16 },
    PatchRemove { patch: u16 },
    /// an object of the issue type whose root operation does not decode
    BrokenIssue,
    /// an object of the patch type whose root operation does not decode
    BrokenPatch,
    /// an object of a type the cache does not know
    OtherType,
}

#[derive(Debug, Clone, Serialize, Deserialize, Hash)]
pub struct Round {
    ops: Vec<(u8, BOp)>,
    /// sort keys that decide the order of the reference updates handed to `cache_cobs`
    order: Vec<u16>,
}

#[derive(Debug, Clone, Serialize, Deserialize, Hash)]
pub struct BatchCase {
    rounds: Vec<Round>,
}

fn bop() -> impl Strategy<Value = BOp> {
    let ix = || any::<u16>();
    prop_oneof![
        4 => Just(BOp::NewIssue),
        4 => (0u8..4).prop_map(|branch| BOp::NewPatch { branch }),
        3 => ix().prop_map(|issue| BOp::IssueComment { issue }),
        2 => (ix(), any::<bool>()).prop_map(|(issue, solved)| BOp::IssueClose { issue, solved }),
        1 => ix().prop_map(|issue| BOp::IssueRemove { issue }),
        3 => (ix(), 1u8..8).prop_map(|(patch, labels)| BOp::PatchLabel { patch, labels }),
        2 => ix().prop_map(|patch| BOp::PatchArchive { patch }),
        1 => ix().prop_map(|patch| BOp::PatchRemove { patch }),
        3 => Just(BOp::BrokenIssue),
        3 => Just(BOp::BrokenPatch),
        1 => Just(BOp::OtherType),
    ]
}

pub fn case_strategy() -> impl Strategy<Value = BatchCase> {
    let round = (proptest::collection::vec((0u8..2, bop()), 1..=8), proptest::collection::vec(any::<u16>(), 8..=8))
        .prop_map(|(ops, order)| Round { ops, order });
    proptest::collection::vec(round, 1..=3).prop_map(|rounds| BatchCase { rounds })
}

fn cob_refs(w: &World) -> BTreeMap<String, Oid> {
    let mut m = BTreeMap::new();
    for r in w.repo.backend.references_glob("refs/namespaces/*/refs/cobs/*/*").unwrap().flatten() {
        if let (Some(n), Some(t)) = (r.name(), r.target()) {
            m.insert(n.to_string(), Oid::from(t));
        }
    }
    m
}

fn broken(w: &World, who: u8, type_name: &TypeName, tag: &str) -> ObjectId {
    let s = &w.signers[who as usize];
    let resource = w.repo.identity_head().expect("identity head");
    let template = Template {
        type_name: type_name.clone(),
        tips: vec![],
        message: "change".to_string(),
        embeds: vec![],
        contents: NonEmpty::new(format!("this is no operation ({tag})").into_bytes()),
    };
    let e = w.repo.store(Some(resource), vec![], s, template).expect("store change");
    let oid = ObjectId::from(e.id);
    w.repo.update(s.public_key(), type_name, &oid, &e.id).expect("cob reference");
    oid
}

fn check(ctx: &Ctx, c: &BatchCase) -> CaseResult {
    let w = world(1);
    let rid = w.repo.id();
    let db = StoreWriter::memory().unwrap().with_migrations(radicle::cob::migrate::ignore).unwrap();
    let pc = patch::Cache::open(patch::Patches::open(&w.repo).unwrap(), db.clone());
    let mut pd = patch::Cache::no_cache(&w.repo).unwrap();
    let ic = issue::Cache::open(issue::Issues::open(&w.repo).unwrap(), db.clone());
    let mut id = issue::Cache::no_cache(&w.repo).unwrap();
    let other_type: TypeName = "xyz.radicle.verif.other".parse().unwrap();

    let mut issues: Vec<ObjectId> = vec![];
    let mut patches: Vec<ObjectId> = vec![];
    let mut unloadable: BTreeSet<ObjectId> = BTreeSet::new();
    let mut clock = T0 + 10;
    let mut nontrivial = false;

    for (rn, round) in c.rounds.iter().enumerate() {
        let before = cob_refs(&w);
        let mut round_broken = 0usize;
        for (k, (who, op)) in round.ops.iter().enumerate() {
            clock += 1;
            set_clock(clock);
            let tag = format!("r{rn}.{k}");
            let s = &w.signers[*who as usize];
            // an op on a missing target creates one instead
            let op = match op {
                BOp::IssueComment { .. } | BOp::IssueClose { .. } | BOp::IssueRemove { .. } if issues.is_empty() => BOp::NewIssue,
                BOp::PatchLabel { .. } | BOp::PatchArchive { .. } | BOp::PatchRemove { .. } if patches.is_empty() => BOp::NewPatch { branch: 0 },
                o => o.clone(),
            };
            let r: Result<(), String> = match op {
                BOp::NewIssue => id
                    .create(format!("issue {tag}"), "what is wrong", &[], &[], Vec::new(), s)
                    .map(|im| issues.push(*im.id()))
                    .map_err(|e| e.to_string()),
                BOp::NewPatch { branch } => {
                    let (base, head) = w.branches[branch as usize % w.branches.len()];
                    pd.create(format!("patch {tag}"), "description".to_string(), MergeTarget::Delegates, base, head, &[], s)
                        .map(|pm| patches.push(pm.id))
                        .map_err(|e| e.to_string())
                }
                BOp::IssueComment { issue } => {
                    let i = issues[pick(issue, issues.len())];
                    id.get_mut(&i).map_err(|e| e.to_string()).and_then(|mut im| im.comment(format!("c {tag}"), *i, vec![], s).map(|_| ()).map_err(|e| e.to_string()))
                }
                BOp::IssueClose { issue, solved } => {
                    let i = issues[pick(issue, issues.len())];
                    let reason = if solved { CloseReason::Solved } else { CloseReason::Other };
                    id.get_mut(&i)
                        .map_err(|e| e.to_string())
                        .and_then(|mut im| im.lifecycle(issue::State::Closed { reason }, s).map(|_| ()).map_err(|e| e.to_string()))
                }
                BOp::IssueRemove { issue } => {
                    let i = issues[pick(issue, issues.len())];
                    id.remove(&i, s).map_err(|e| e.to_string())
                }
                BOp::PatchLabel { patch, labels } => {
                    let p = patches[pick(patch, patches.len())];
                    pd.get_mut(&p).map_err(|e| e.to_string()).and_then(|mut pm| pm.label(labels_of(labels), s).map(|_| ()).map_err(|e| e.to_string()))
                }
                BOp::PatchArchive { patch } => {
                    let p = patches[pick(patch, patches.len())];
                    pd.get_mut(&p).map_err(|e| e.to_string()).and_then(|mut pm| pm.archive(s).map(|_| ()).map_err(|e| e.to_string()))
                }
                BOp::PatchRemove { patch } => {
                    let p = patches[pick(patch, patches.len())];
                    pd.remove(&p, s).map_err(|e| e.to_string())
                }
                BOp::BrokenIssue => {
                    unloadable.insert(broken(&w, *who, &issue::TYPENAME, &tag));
                    round_broken += 1;
                    Ok(())
                }
                BOp::BrokenPatch => {
                    unloadable.insert(broken(&w, *who, &patch::TYPENAME, &tag));
                    round_broken += 1;
                    Ok(())
                }
                BOp::OtherType => {
                    broken(&w, *who, &other_type, &tag);
                    Ok(())
                }
            };
            ctx.count(if r.is_ok() { "batch-op:done" } else { "batch-op:refused" });
        }
        // ---- the reference updates of the round, as a fetch reports them
        let after = cob_refs(&w);
        let names: BTreeSet<&String> = before.keys().chain(after.keys()).collect();
        let zero = Oid::from(radicle::git::raw::Oid::zero());
        let mut updates: Vec<RefUpdate> = vec![];
        for n in names {
            let (o, a) = (before.get(n).copied().unwrap_or(zero), after.get(n).copied().unwrap_or(zero));
            if o != a {
                updates.push(RefUpdate::from(RefString::try_from(n.as_str()).unwrap(), o, a));
            }
        }
        let keys: Vec<u16> = (0..updates.len()).map(|i| round.order[i % round.order.len()]).collect();
        let mut ix: Vec<usize> = (0..updates.len()).collect();
        ix.sort_by_key(|i| (keys[*i], *i));
        let updates: Vec<RefUpdate> = ix.into_iter().map(|i| updates[i].clone()).collect();
        let is_unloadable = |u: &RefUpdate| {
            let n = match u {
                RefUpdate::Updated { name, .. } | RefUpdate::Created { name, .. } | RefUpdate::Deleted { name, .. } | RefUpdate::Skipped { name, .. } => name.as_str(),
            };
            unloadable.iter().any(|o| n.ends_with(&o.to_string()))
        };
        let first_bad = updates.iter().position(is_unloadable);
        let loadable_after_bad = first_bad.map(|p| updates[p + 1..].iter().any(|u| !is_unloadable(u) && !u.to_string().contains("verif.other"))).unwrap_or(false);
        if round_broken > 0 && updates.len() > round_broken {
            nontrivial = true;
        }
        if loadable_after_bad {
            ctx.count("round:loadable-update-after-unloadable-one");
        }
        ctx.count_n("round:updates", updates.len() as u64);

        let mut cache = db.clone();
        match radicle_node::worker::fetch::verif::cache_cobs(&rid, &updates, &w.repo, &mut cache) {
            Ok(()) => ctx.count("cache_cobs:ok"),
            Err(_) => ctx.count("cache_cobs:error"),
        }

        // ---- compare everything direct evaluation can load
        let peq = |a: &Patch, b: &Patch| patch_eq(ctx, a, b);
        // issues
        let mut direct_issues: BTreeMap<ObjectId, Issue> = BTreeMap::new();
        let mut direct_unloadable = 0;
        for x in id.list().map_err(|e| Fail { sig: "direct-issue-list-failed".into(), msg: e.to_string() })? {
            match x {
                Ok((i, o)) => {
                    direct_issues.insert(i, o);
                }
                Err(_) => direct_unloadable += 1,
            }
        }
        let mut cached_issues: BTreeMap<ObjectId, Issue> = BTreeMap::new();
        for x in ic.list().map_err(|e| Fail { sig: "fetched:issue.list:cached=err".into(), msg: e.to_string() })? {
            let (i, o) = x.map_err(|e| Fail { sig: "fetched:issue.list:cached-item=err".into(), msg: e.to_string() })?;
            cached_issues.insert(i, o);
        }
        ensure!(
            cached_issues.keys().collect::<Vec<_>>() == direct_issues.keys().collect::<Vec<_>>(),
            "fetched:issue.list:id-set-differs",
            "round {rn}: after cache_cobs over {:?} the cache lists issues {:?}, direct evaluation loads {:?}",
            updates.iter().map(|u| u.to_string()).collect::<Vec<_>>(),
            cached_issues.keys().map(|k| k.to_string()).collect::<Vec<_>>(),
            direct_issues.keys().map(|k| k.to_string()).collect::<Vec<_>>()
        );
        for (k, o) in &direct_issues {
            ensure!(cached_issues[k] == *o, "fetched:issue.list:object-differs", "round {rn}: issue {k}: cached {:?} != direct {:?}", cached_issues[k], o);
            let g = ic.get(k).map_err(|e| Fail { sig: "fetched:issue.get:cached=err".into(), msg: e.to_string() })?;
            ensure!(g.as_ref() == Some(o), "fetched:issue.get:differs", "round {rn}: issue {k}: cached get {:?} != direct {:?}", g, o);
        }
        for i in &issues {
            if !direct_issues.contains_key(i) {
                let g = ic.get(i).map_err(|e| Fail { sig: "fetched:issue.get:cached=err".into(), msg: e.to_string() })?;
                ensure!(g.is_none(), "fetched:issue.get:removed-object-still-cached", "round {rn}: issue {i} is gone from the repository but the cache returns it");
            }
        }
        let (cc, dc) = (ic.counts().map_err(|e| e.to_string()), id.counts().map_err(|e| e.to_string()));
        ensure!(cc == dc, "fetched:issue.counts:differs", "round {rn}: issue counts cached {cc:?} direct {dc:?}");
        for st in [issue::State::Open, issue::State::Closed { reason: CloseReason::Solved }, issue::State::Closed { reason: CloseReason::Other }] {
            let c: BTreeSet<ObjectId> = ic.list_by_status(&st).map_err(|e| Fail { sig: "fetched:issue.list_by_status:cached=err".into(), msg: e.to_string() })?.flatten().map(|(i, _)| i).collect();
            let d: BTreeSet<ObjectId> = id.list_by_status(&st).map_err(|e| Fail { sig: "direct-issue-list-failed".into(), msg: e.to_string() })?.flatten().map(|(i, _)| i).collect();
            ensure!(c == d, "fetched:issue.list_by_status:differs", "round {rn}: issues in state {st:?}: cached {c:?} direct {d:?}");
        }
        // patches
        let mut direct_patches: BTreeMap<ObjectId, Patch> = BTreeMap::new();
        for x in pd.list().map_err(|e| Fail { sig: "direct-patch-list-failed".into(), msg: e.to_string() })? {
            match x {
                Ok((i, o)) => {
                    direct_patches.insert(i, o);
                }
                Err(_) => direct_unloadable += 1,
            }
        }
        let mut cached_patches: BTreeMap<ObjectId, Patch> = BTreeMap::new();
        for x in pc.list().map_err(|e| Fail { sig: "fetched:patch.list:cached=err".into(), msg: e.to_string() })? {
            let (i, o) = x.map_err(|e| Fail { sig: "fetched:patch.list:cached-item=err".into(), msg: e.to_string() })?;
            cached_patches.insert(i, o);
        }
        ensure!(
            cached_patches.keys().collect::<Vec<_>>() == direct_patches.keys().collect::<Vec<_>>(),
            "fetched:patch.list:id-set-differs",
            "round {rn}: after cache_cobs over {:?} the cache lists patches {:?}, direct evaluation loads {:?}",
            updates.iter().map(|u| u.to_string()).collect::<Vec<_>>(),
            cached_patches.keys().map(|k| k.to_string()).collect::<Vec<_>>(),
            direct_patches.keys().map(|k| k.to_string()).collect::<Vec<_>>()
        );
        for (k, o) in &direct_patches {
            ensure!(peq(&cached_patches[k], o), "fetched:patch.list:object-differs", "round {rn}: patch {k}: cached {:?} != direct {:?}", cached_patches[k], o);
            let g = pc.get(k).map_err(|e| Fail { sig: "fetched:patch.get:cached=err".into(), msg: e.to_string() })?;
            ensure!(g.as_ref().is_some_and(|g| peq(g, o)), "fetched:patch.get:differs", "round {rn}: patch {k}: cached get {:?} != direct {:?}", g, o);
        }
        for p in &patches {
            if !direct_patches.contains_key(p) {
                let g = pc.get(p).map_err(|e| Fail { sig: "fetched:patch.get:cached=err".into(), msg: e.to_string() })?;
                ensure!(g.is_none(), "fetched:patch.get:removed-object-still-cached", "round {rn}: patch {p} is gone from the repository but the cache returns it");
            }
        }
        let (cc, dc) = (pc.counts().map_err(|e| e.to_string()), pd.counts().map_err(|e| e.to_string()));
        ensure!(cc == dc, "fetched:patch.counts:differs", "round {rn}: patch counts cached {cc:?} direct {dc:?}");
        for st in [Status::Draft, Status::Open, Status::Archived, Status::Merged] {
            let c: BTreeSet<ObjectId> = pc.list_by_status(&st).map_err(|e| Fail { sig: "fetched:patch.list_by_status:cached=err".into(), msg: e.to_string() })?.flatten().map(|(i, _)| i).collect();
            let d: BTreeSet<ObjectId> = pd.list_by_status(&st).map_err(|e| Fail { sig: "direct-patch-list-failed".into(), msg: e.to_string() })?.flatten().map(|(i, _)| i).collect();
            ensure!(c == d, "fetched:patch.list_by_status:differs", "round {rn}: patches in state {st}: cached {c:?} direct {d:?}");
        }
        // unloadable objects are in neither listing
        for u in &unloadable {
            ensure!(!cached_issues.contains_key(u) && !cached_patches.contains_key(u), "fetched:unloadable-object-cached", "round {rn}: {u} cannot be evaluated but the cache lists it");
        }
        ctx.count_n("direct-unloadable-items", direct_unloadable);
    }
    if nontrivial {
        ctx.nontrivial(c);
        ctx.sample("fetch-batches", c);
    }
    Ok(())
}

pub fn run(ctx: &Ctx) {
    ctx.run("fetch-batches", case_strategy(), ctx.cases(160, 1_600), |c: &BatchCase| check(ctx, c));
}
