//! C18 — Canonical JSON has a single byte representation.
//!
//! The formatter (`radicle::canonical::formatter`) is private; it is reached
//! through `radicle::cob::store::encoding::encode` and `Doc::encode`.
//!
//! Oracle = validity predicates over the *output bytes* (a strict scanner for
//! the canonical grammar written from the property statement), comparison of
//! the scanned tree with the NFC-normalised input, and decode→encode identity.
//! No second encoder is involved (a handful of hand-derived golden vectors are
//! kept as a spot second opinion on the normalisation library).
use std::collections::{BTreeMap, BTreeSet};
use std::str::FromStr;

use proptest::prelude::*;
use radicle::cob::store::encoding::encode;
use radicle::identity::doc::{Payload, PayloadId};
use radicle::identity::{Doc, RawDoc};
use serde::{Deserialize, Serialize};
use serde_json::Value;
use unicode_normalization::{is_nfc, UnicodeNormalization};

use crate::core::*;
use crate::ensure;

pub const PROP: Prop = Prop {
    id: "C18",
    shards: (4, 16),
    level: "exploration",
    rule: "JSON values are built by construction (depth <= 4) from string classes (ASCII, every control \
           character, quote/backslash, decomposed/composed/reordered Unicode, Hangul jamo, astral), key sets \
           with prefix-related and NFC-equivalent keys in arbitrary insertion order, integers at the 64-bit \
           bounds, and an optionally injected float; encoded through store::encoding::encode(Value), \
           Doc::encode (value as identity payload) and encode(typed struct). The output bytes are scanned \
           with a strict canonical-grammar scanner and compared with the NFC-normalised input. Non-trivial: \
           float-free case that contains an object with >= 2 keys nested in (or containing) another container \
           and at least one key/string that is non-NFC or holds a control character. Distinct = hash of the case.",
    assumptions: &[
        "input domain = serde_json::Value (finite floats only; NaN/inf are not JSON values) and serde-derived types",
        "objects whose keys collide after NFC normalisation are classified and excluded from the value comparison",
        "key order: a pair of adjacent keys fails only if it is descending both by raw key bytes and by escaped \
         key bytes; pairs where the two readings disagree (escaped characters) are counted, not failed",
        "only bytes < 0x20 are required to be escaped (RFC 8259); DEL and C1 controls are counted only",
        "unicode-normalization is trusted for NFC (spot-checked by hand-derived golden vectors)",
    ],
    run,
    budget_s: (600, 7200),
};

// ---------------------------------------------------------------------------
// Case model
// ---------------------------------------------------------------------------

#[derive(Debug, Clone, Serialize, Deserialize, PartialEq)]
pub enum J {
    Null,
    Bool(bool),
    Int(i64),
    UInt(u64),
    Float(f64),
    Str(String),
    Arr(Vec<J>),
    /// insertion order is kept (serde_json `preserve_order`); later duplicates overwrite
    Obj(Vec<(String, J)>),
}

#[derive(Debug, Clone, Serialize, Deserialize)]
pub struct Case {
    value: J,
    /// inject a float at leaf number `pick(at, leaves)` (replacing that leaf)
    float: Option<(u16, f64)>,
    /// 0 = encode(&Value); 1 = Doc::encode with the value as a payload
    route: u8,
    /// payload id index (route 1)
    pid: u8,
}

impl J {
    fn to_value(&self) -> Value {
        match self {
            J::Null => Value::Null,
            J::Bool(b) => Value::Bool(*b),
            J::Int(i) => Value::from(*i),
            J::UInt(u) => Value::from(*u),
            J::Float(f) => serde_json::Number::from_f64(*f).map(Value::Number).unwrap_or(Value::Null),
            J::Str(s) => Value::String(s.clone()),
            J::Arr(a) => Value::Array(a.iter().map(J::to_value).collect()),
            J::Obj(o) => {
                let mut m = serde_json::Map::new();
                for (k, v) in o {
                    m.insert(k.clone(), v.to_value());
                }
                Value::Object(m)
            }
        }
    }
    fn leaves(&self) -> usize {
        match self {
            J::Arr(a) => a.iter().map(J::leaves).sum(),
            J::Obj(o) => o.iter().map(|(_, v)| v.leaves()).sum(),
            _ => 1,
        }
    }
    /// Replace leaf number `n` (depth-first) by `with`; returns remaining count.
    fn replace_leaf(&mut self, n: &mut usize, with: &J) -> bool {
        match self {
            J::Arr(a) => a.iter_mut().any(|x| x.replace_leaf(n, with)),
            J::Obj(o) => o.iter_mut().any(|(_, x)| x.replace_leaf(n, with)),
            leaf => {
                if *n == 0 {
                    *leaf = with.clone();
                    true
                } else {
                    *n -= 1;
                    false
                }
            }
        }
    }
}

// ---------------------------------------------------------------------------
// Normalised tree + strict scanner of the canonical grammar
// ---------------------------------------------------------------------------

#[derive(Debug, Clone, PartialEq)]
enum N {
    Null,
    Bool(bool),
    /// (negative, magnitude)
    Num(bool, u128),
    Str(String),
    Arr(Vec<N>),
    Obj(BTreeMap<String, N>),
}

fn nfc(s: &str) -> String {
    s.nfc().collect()
}

#[derive(Default, Debug)]
struct InStats {
    float: bool,
    collision: bool,
    non_nfc: bool,
    control: bool,
    del_or_c1: bool,
    quote_or_backslash: bool,
    astral: bool,
    multi_key_nested: bool,
    bound_int: bool,
    /// two keys of one object where one (normalised) is a proper prefix of the other
    prefix_keys: bool,
    /// ... and the next byte of the longer is below the quote character (space or '!')
    prefix_keys_low: bool,
    unsorted_input: bool,
    max_depth: usize,
}

fn note_str(s: &str, st: &mut InStats) {
    if !is_nfc(s) {
        st.non_nfc = true;
    }
    for c in s.chars() {
        let u = c as u32;
        if u < 0x20 {
            st.control = true;
        } else if (0x7f..=0x9f).contains(&u) {
            st.del_or_c1 = true;
        } else if c == '"' || c == '\\' {
            st.quote_or_backslash = true;
        } else if u > 0xffff {
            st.astral = true;
        }
    }
}

/// Expected tree: NFC-normalise every key and string of the input.
fn expect_tree(v: &Value, depth: usize, nested: bool, st: &mut InStats) -> N {
    st.max_depth = st.max_depth.max(depth);
    match v {
        Value::Null => N::Null,
        Value::Bool(b) => N::Bool(*b),
        Value::Number(n) => {
            if let Some(u) = n.as_u64() {
                if u == u64::MAX || u == i64::MAX as u64 || u == i64::MAX as u64 + 1 {
                    st.bound_int = true;
                }
                N::Num(false, u as u128)
            } else if let Some(i) = n.as_i64() {
                if i == i64::MIN {
                    st.bound_int = true;
                }
                N::Num(i < 0, i.unsigned_abs() as u128)
            } else {
                st.float = true;
                N::Null
            }
        }
        Value::String(s) => {
            note_str(s, st);
            N::Str(nfc(s))
        }
        Value::Array(a) => N::Arr(a.iter().map(|x| expect_tree(x, depth + 1, true, st)).collect()),
        Value::Object(o) => {
            let mut m = BTreeMap::new();
            let has_container_child = o.values().any(|x| x.is_array() || x.is_object());
            if o.len() >= 2 && (nested || has_container_child) {
                st.multi_key_nested = true;
            }
            let keys: Vec<String> = o.keys().map(|k| nfc(k)).collect();
            if keys.windows(2).any(|w| w[0].as_bytes() > w[1].as_bytes()) {
                st.unsorted_input = true;
            }
            for a in &keys {
                for b in &keys {
                    if b.len() > a.len() && b.as_bytes().starts_with(a.as_bytes()) {
                        st.prefix_keys = true;
                        if b.as_bytes()[a.len()] < b'"' && b.as_bytes()[a.len()] >= 0x20 {
                            st.prefix_keys_low = true;
                        }
                    }
                }
            }
            for (k, x) in o {
                note_str(k, st);
                let x = expect_tree(x, depth + 1, true, st);
                if m.insert(nfc(k), x).is_some() {
                    st.collision = true;
                }
            }
            N::Obj(m)
        }
    }
}

#[derive(Default, Debug)]
struct OutStats {
    objects: usize,
    keys: usize,
    escapes: usize,
    /// adjacent key pairs ascending by exactly one of (raw bytes, escaped bytes)
    order_reading_dependent: usize,
}

type PErr = (&'static str, String);

struct Scan<'a> {
    b: &'a [u8],
    i: usize,
    st: OutStats,
}

impl<'a> Scan<'a> {
    fn peek(&self) -> Option<u8> {
        self.b.get(self.i).copied()
    }
    fn err<T>(&self, sig: &'static str, what: &str) -> Result<T, PErr> {
        Err((sig, format!("{what} at byte {} of {:?}", self.i, String::from_utf8_lossy(self.b))))
    }
    fn token_start(&self) -> Result<u8, PErr> {
        match self.peek() {
            None => self.err("syntax:invalid", "unexpected end of output"),
            Some(b' ') | Some(b'\t') | Some(b'\n') | Some(b'\r') => {
                self.err("syntax:whitespace", "insignificant whitespace")
            }
            Some(c) => Ok(c),
        }
    }
    fn expect(&mut self, c: u8) -> Result<(), PErr> {
        let got = self.token_start()?;
        if got != c {
            return self.err("syntax:invalid", &format!("expected {:?}, found {:?}", c as char, got as char));
        }
        self.i += 1;
        Ok(())
    }
    fn literal(&mut self, lit: &[u8], v: N) -> Result<N, PErr> {
        if self.b[self.i..].starts_with(lit) {
            self.i += lit.len();
            Ok(v)
        } else {
            self.err("syntax:invalid", "bad literal")
        }
    }
    fn value(&mut self, depth: usize) -> Result<N, PErr> {
        if depth > 64 {
            return self.err("syntax:invalid", "too deep");
        }
        match self.token_start()? {
            b'n' => self.literal(b"null", N::Null),
            b't' => self.literal(b"true", N::Bool(true)),
            b'f' => self.literal(b"false", N::Bool(false)),
            b'"' => Ok(N::Str(self.string()?.0)),
            b'[' => {
                self.i += 1;
                let mut out = vec![];
                if self.token_start()? == b']' {
                    self.i += 1;
                    return Ok(N::Arr(out));
                }
                loop {
                    out.push(self.value(depth + 1)?);
                    match self.token_start()? {
                        b',' => self.i += 1,
                        b']' => {
                            self.i += 1;
                            return Ok(N::Arr(out));
                        }
                        _ => return self.err("syntax:invalid", "expected ',' or ']'"),
                    }
                }
            }
            b'{' => {
                self.i += 1;
                self.st.objects += 1;
                let mut out = BTreeMap::new();
                if self.token_start()? == b'}' {
                    self.i += 1;
                    return Ok(N::Obj(out));
                }
                let mut prev: Option<(String, Vec<u8>)> = None;
                loop {
                    if self.token_start()? != b'"' {
                        return self.err("syntax:invalid", "object key must be a string");
                    }
                    let (key, emitted) = self.string()?;
                    self.st.keys += 1;
                    if let Some((pk, pe)) = &prev {
                        let raw_ok = pk.as_bytes() < key.as_bytes();
                        let esc_ok = pe.as_slice() < emitted.as_slice();
                        if !raw_ok && !esc_ok {
                            return self.err(
                                "keys:order",
                                &format!("key {key:?} emitted after {pk:?}: keys are not in ascending byte order"),
                            );
                        }
                        if raw_ok != esc_ok {
                            self.st.order_reading_dependent += 1;
                        }
                    }
                    self.expect(b':')?;
                    let v = self.value(depth + 1)?;
                    prev = Some((key.clone(), emitted));
                    out.insert(key, v);
                    match self.token_start()? {
                        b',' => self.i += 1,
                        b'}' => {
                            self.i += 1;
                            return Ok(N::Obj(out));
                        }
                        _ => return self.err("syntax:invalid", "expected ',' or '}'"),
                    }
                }
            }
            b'-' | b'0'..=b'9' => self.number(),
            _ => self.err("syntax:invalid", "unexpected byte"),
        }
    }
    fn number(&mut self) -> Result<N, PErr> {
        let start = self.i;
        let neg = self.peek() == Some(b'-');
        if neg {
            self.i += 1;
        }
        let ds = self.i;
        while matches!(self.peek(), Some(b'0'..=b'9')) {
            self.i += 1;
        }
        let digits = &self.b[ds..self.i];
        if digits.is_empty() || (digits.len() > 1 && digits[0] == b'0') {
            self.i = start;
            return self.err("syntax:number", "number is not in plain integer form");
        }
        if matches!(self.peek(), Some(b'.') | Some(b'e') | Some(b'E') | Some(b'+') | Some(b'-')) {
            return self.err("syntax:number", "fraction or exponent in number");
        }
        let s = std::str::from_utf8(digits).unwrap();
        match s.parse::<u128>() {
            Ok(m) => Ok(N::Num(neg && m != 0, m)),
            Err(_) => self.err("syntax:number", "integer too large"),
        }
    }
    /// Returns (decoded string, emitted bytes between the quotes).
    fn string(&mut self) -> Result<(String, Vec<u8>), PErr> {
        self.i += 1; // opening quote
        let start = self.i;
        let mut raw: Vec<u8> = vec![];
        loop {
            let Some(c) = self.peek() else {
                return self.err("syntax:invalid", "unterminated string");
            };
            match c {
                b'"' => break,
                0..=0x1f => return self.err("string:raw-control", "unescaped control character in string"),
                b'\\' => {
                    self.st.escapes += 1;
                    let e = self.b.get(self.i + 1).copied();
                    let dec = match e {
                        Some(b'"') => b'"',
                        Some(b'\\') => b'\\',
                        Some(b'b') => 0x08,
                        Some(b'f') => 0x0c,
                        Some(b'n') => 0x0a,
                        Some(b'r') => 0x0d,
                        Some(b't') => 0x09,
                        Some(b'u') => {
                            let h = self.b.get(self.i + 2..self.i + 6).unwrap_or(&[]);
                            let ok = h.len() == 4
                                && h.iter().all(|x| matches!(x, b'0'..=b'9' | b'a'..=b'f'))
                                && h[0] == b'0'
                                && h[1] == b'0';
                            if !ok {
                                return self.err("string:escape-form", "\\u escape is not lower-case \\u00xx");
                            }
                            let v = u8::from_str_radix(std::str::from_utf8(&h[2..]).unwrap(), 16).unwrap();
                            if v >= 0x20 || matches!(v, 0x08 | 0x09 | 0x0a | 0x0c | 0x0d) {
                                return self.err(
                                    "string:escape-form",
                                    "\\u escape used for a character that has a shorter form",
                                );
                            }
                            self.i += 4;
                            v
                        }
                        _ => return self.err("string:escape-form", "escape outside the canonical set"),
                    };
                    raw.push(dec);
                    self.i += 2;
                }
                _ => {
                    raw.push(c);
                    self.i += 1;
                }
            }
        }
        let emitted = self.b[start..self.i].to_vec();
        self.i += 1; // closing quote
        match String::from_utf8(raw) {
            Ok(s) => {
                if !is_nfc(&s) || nfc(&s) != s {
                    return self.err("string:not-nfc", &format!("emitted string {s:?} is not NFC-normalised"));
                }
                Ok((s, emitted))
            }
            Err(_) => self.err("string:utf8", "string is not valid UTF-8"),
        }
    }
}

fn scan(out: &[u8]) -> Result<(N, OutStats), PErr> {
    let mut s = Scan { b: out, i: 0, st: OutStats::default() };
    let v = s.value(0)?;
    if s.i != out.len() {
        return match s.peek() {
            Some(b' ') | Some(b'\t') | Some(b'\n') | Some(b'\r') => s.err("syntax:whitespace", "trailing whitespace"),
            _ => s.err("syntax:invalid", "trailing bytes after the value"),
        };
    }
    Ok((v, s.st))
}

fn lift<T>(r: Result<T, PErr>) -> Result<T, Fail> {
    r.map_err(|(sig, msg)| Fail { sig: sig.to_string(), msg })
}

// ---------------------------------------------------------------------------
// The check
// ---------------------------------------------------------------------------

const BASE_DOC: &[u8] = br#"{"payload":{"xyz.radicle.project":{"name":"n","description":"d","defaultBranch":"master"}},"delegates":["did:key:z6MkhaXgBZDvotDkL5257faiztiGiC2QtKLGpbnnEGta2doK"],"threshold":1}"#;

/// Payload ids for the Doc route (TypeName: dot-separated alphanumeric components).
const PIDS: &[&str] = &["x.test", "a.b.c", "zz9", "x.\u{1100}\u{1161}", "\u{212b}.k", "x.\u{e9}"];

fn show(b: &[u8]) -> String {
    String::from_utf8_lossy(b).into_owned()
}

/// Predicates over one successful encoding. `expected == None` ⇒ only the
/// syntactic predicates are checked.
fn check_output(ctx: &Ctx, out: &[u8], expected: Option<&N>) -> Result<N, Fail> {
    let (tree, os) = lift(scan(out))?;
    if os.order_reading_dependent > 0 {
        ctx.count("out:key-order-depends-on-escaping(counted,not-failed)");
    }
    if os.escapes > 0 {
        ctx.count("out:has-escape");
    }
    if let Some(e) = expected {
        ensure!(&tree == e, "value:mismatch", "output {} decodes to {tree:?}, expected {e:?}", show(out));
    }
    // decode → encode reproduces the bytes
    let back: Value = match serde_json::from_slice(out) {
        Ok(v) => v,
        Err(e) => return fail("reencode:decode-failed", format!("output {} does not parse: {e}", show(out))),
    };
    match encode(&back) {
        Ok(again) => ensure!(
            again == out,
            "reencode:differs",
            "encode(decode(out)) = {} differs from out = {}",
            show(&again),
            show(out)
        ),
        Err(e) => return fail("reencode:encode-failed", format!("re-encoding {} failed: {e}", show(out))),
    }
    Ok(tree)
}

fn check(ctx: &Ctx, c: &Case) -> CaseResult {
    let mut j = c.value.clone();
    if let Some((at, f)) = c.float {
        if f.is_finite() {
            let mut n = pick(at, j.leaves().max(1));
            if !j.replace_leaf(&mut n, &J::Float(f)) {
                j = J::Float(f);
            }
        }
    }
    let value = j.to_value();
    let mut st = InStats::default();
    let expected = expect_tree(&value, 0, false, &mut st);

    // classification
    ctx.count(if c.route == 0 { "route:encode(Value)" } else { "route:Doc::encode" });
    ctx.count(&format!("depth={}", st.max_depth.min(5)));
    for (on, label) in [
        (st.float, "in:float"),
        (st.collision, "in:nfc-key-collision(value comparison skipped)"),
        (st.non_nfc, "in:non-nfc"),
        (st.control, "in:control-char"),
        (st.del_or_c1, "in:del-or-c1"),
        (st.quote_or_backslash, "in:quote-or-backslash"),
        (st.astral, "in:astral"),
        (st.multi_key_nested, "in:nested-multikey-object"),
        (st.bound_int, "in:int-at-64bit-bound"),
        (st.prefix_keys, "in:prefix-related-keys"),
        (st.prefix_keys_low, "in:prefix-related-keys-space-or-bang"),
        (st.unsorted_input, "in:keys-inserted-unsorted"),
    ] {
        if on {
            ctx.count(label);
        }
    }

    if c.route == 0 {
        match encode(&value) {
            Err(e) => {
                ensure!(st.float, "encode:error-without-float", "encode failed on a float-free value: {e}");
                ctx.count("result:float-rejected");
                return Ok(());
            }
            Ok(out) => {
                ensure!(!st.float, "float:accepted", "value with a float was encoded to {}", show(&out));
                check_output(ctx, &out, if st.collision { None } else { Some(&expected) })?;
            }
        }
    } else {
        let pid = PIDS[c.pid as usize % PIDS.len()];
        let mut raw = RawDoc::from_json(BASE_DOC).map_err(|e| Fail { sig: "harness:base-doc".into(), msg: e.to_string() })?;
        raw.payload.insert(
            PayloadId::from_str(pid).map_err(|e| Fail { sig: "harness:pid".into(), msg: e.to_string() })?,
            Payload::from(value.clone()),
        );
        let doc: Doc = raw.verified().map_err(|e| Fail { sig: "harness:verified".into(), msg: e.to_string() })?;
        // What is encoded is the verified document. Verification normalises payload keys to NFC (later key
        // wins on collision), so a float that sat under a key that lost is no longer part of the value:
        // whether a float is present is read from the verified document, not from the generated tree.
        fn has_float(v: &serde_json::Value) -> bool {
            match v {
                serde_json::Value::Number(n) => n.is_f64(),
                serde_json::Value::Array(a) => a.iter().any(has_float),
                serde_json::Value::Object(o) => o.values().any(has_float),
                _ => false,
            }
        }
        let doc_float = doc.payload().values().any(|p| has_float(&serde_json::to_value(p).unwrap_or(serde_json::Value::Null)));
        if doc_float != st.float {
            ctx.count("classified:float-dropped-by-key-collision-at-verification");
        }
        match doc.encode() {
            Err(e) => {
                ensure!(doc_float, "encode:error-without-float", "Doc::encode failed on a float-free payload: {e}");
                ctx.count("result:float-rejected");
                return Ok(());
            }
            Ok((_, out)) => {
                ensure!(!doc_float, "float:accepted", "document with a float payload was encoded to {}", show(&out));
                let tree = check_output(ctx, &out, None)?;
                // the payload is present under the normalised id and equals the normalised value
                let got = match &tree {
                    N::Obj(m) => match m.get("payload") {
                        Some(N::Obj(p)) => p.get(&nfc(pid)).cloned(),
                        _ => None,
                    },
                    _ => None,
                };
                if !st.collision {
                    ensure!(
                        got.as_ref() == Some(&expected),
                        "value:mismatch",
                        "payload {pid:?} in {} is {got:?}, expected {expected:?}",
                        show(&out)
                    );
                }
                // decode as a document and encode again
                match serde_json::from_slice::<Doc>(&out) {
                    Ok(d2) => match d2.encode() {
                        Ok((_, again)) => ensure!(
                            again == out,
                            "reencode:differs",
                            "Doc re-encoding {} differs from {}",
                            show(&again),
                            show(&out)
                        ),
                        Err(e) => return fail("reencode:encode-failed", format!("Doc re-encode failed: {e}")),
                    },
                    Err(e) => {
                        return fail("reencode:decode-failed", format!("encoded Doc {} does not load: {e}", show(&out)))
                    }
                }
            }
        }
    }
    ctx.count("result:encoded-and-checked");
    if !st.float && st.multi_key_nested && (st.non_nfc || st.control) {
        ctx.nontrivial(&serde_json::to_string(c).unwrap_or_default());
        if st.max_depth >= 3 {
            ctx.sample(if c.route == 0 { "value" } else { "doc" }, c);
        }
    }
    Ok(())
}

// ---------------------------------------------------------------------------
// Typed route: encode(&T) for serde-derived types (integer map keys, chars,
// enums, options, narrow integers, f32)
// ---------------------------------------------------------------------------

#[derive(Debug, Clone, Serialize, Deserialize)]
pub enum En {
    Unit,
    New(u8),
    Tup(i8, i16),
    St { y: u16, x: u32 },
}

#[derive(Debug, Clone, Serialize, Deserialize)]
pub struct Typed {
    zeta: String,
    #[serde(rename = "Alpha")]
    alpha: Option<i32>,
    #[serde(rename = "Mid")]
    imap: BTreeMap<i64, String>,
    umap: BTreeMap<u64, bool>,
    #[serde(rename = "mid")]
    chars: Vec<char>,
    unit: (),
    en: Vec<En>,
    #[serde(skip_serializing_if = "Option::is_none", default)]
    f: Option<f32>,
    small: (i8, i16, i32, u8, u16, u32),
    smap: BTreeMap<String, i8>,
}

fn check_typed(ctx: &Ctx, t: &Typed) -> CaseResult {
    let as_value = serde_json::to_value(t).map_err(|e| Fail { sig: "harness:to_value".into(), msg: e.to_string() })?;
    let mut st = InStats::default();
    let expected = expect_tree(&as_value, 0, false, &mut st);
    if t.f.map(|f| !f.is_finite()).unwrap_or(false) {
        // Not a JSON value: serde_json turns NaN/inf into `null` before the formatter sees it.
        // Outside the property's domain: classified only.
        match encode(t) {
            Ok(_) => ctx.count("typed:non-finite-f32-encoded-as-null(outside domain; counted only)"),
            Err(_) => ctx.count("typed:non-finite-f32-rejected"),
        }
        return Ok(());
    }
    match encode(t) {
        Err(e) => {
            ensure!(st.float, "encode:error-without-float", "encode failed on a float-free typed value: {e}");
            ctx.count("result:float-rejected");
        }
        Ok(out) => {
            ensure!(!st.float, "float:accepted", "typed value with a float was encoded to {}", show(&out));
            check_output(ctx, &out, if st.collision { None } else { Some(&expected) })?;
            ctx.count("result:encoded-and-checked");
            if !t.imap.is_empty() || !t.umap.is_empty() {
                ctx.count("typed:integer-map-keys");
            }
            if st.multi_key_nested && (st.non_nfc || st.control) {
                ctx.nontrivial(&serde_json::to_string(t).unwrap_or_default());
                ctx.sample("typed", t);
            }
        }
    }
    Ok(())
}

/// 128-bit integers: JSON numbers beyond what `serde_json::Value` can hold; they
/// reach the formatter through `write_i128`/`write_u128`.
#[derive(Debug, Clone, Serialize, Deserialize)]
pub struct BigCase {
    /// (key, negative, hi, lo)
    entries: Vec<(String, bool, u64, u64)>,
    top: (u64, u64),
}

#[derive(Debug, Clone, Serialize, Deserialize, PartialEq)]
struct Big {
    u: BTreeMap<String, u128>,
    i: BTreeMap<String, i128>,
    top: u128,
    list: Vec<i128>,
}

fn check_big(ctx: &Ctx, c: &BigCase) -> CaseResult {
    let mut big = Big { u: BTreeMap::new(), i: BTreeMap::new(), top: ((c.top.0 as u128) << 64) | c.top.1 as u128, list: vec![] };
    for (k, neg, hi, lo) in &c.entries {
        let m = ((*hi as u128) << 64) | *lo as u128;
        if *neg {
            let v = (m >> 1) as i128;
            let v = if m & 1 == 1 { -v - 1 } else { v };
            big.i.insert(k.clone(), v);
            big.list.push(v);
        } else {
            big.u.insert(k.clone(), m);
        }
    }
    let num_u = |m: u128| N::Num(false, m);
    let num_i = |v: i128| N::Num(v < 0, v.unsigned_abs());
    let mut collide = false;
    let mut top = BTreeMap::new();
    let mut um = BTreeMap::new();
    for (k, v) in &big.u {
        collide |= um.insert(nfc(k), num_u(*v)).is_some();
    }
    let mut im = BTreeMap::new();
    for (k, v) in &big.i {
        collide |= im.insert(nfc(k), num_i(*v)).is_some();
    }
    top.insert("u".to_string(), N::Obj(um));
    top.insert("i".to_string(), N::Obj(im));
    top.insert("top".to_string(), num_u(big.top));
    top.insert("list".to_string(), N::Arr(big.list.iter().map(|v| num_i(*v)).collect()));
    let expected = N::Obj(top);
    if big.u.values().any(|v| *v > u64::MAX as u128) || big.top > u64::MAX as u128 {
        ctx.count("big:above-u64");
    }
    if big.i.values().any(|v| *v < i64::MIN as i128) {
        ctx.count("big:below-i64");
    }
    let out = match encode(&big) {
        Ok(o) => o,
        Err(e) => return fail("encode:error-without-float", format!("encode failed on 128-bit integers: {e}")),
    };
    let (tree, _) = lift(scan(&out))?;
    if !collide {
        ensure!(tree == expected, "value:mismatch", "output {} decodes to {tree:?}, expected {expected:?}", show(&out));
    }
    match serde_json::from_slice::<Big>(&out) {
        Ok(b2) => {
            let again = encode(&b2).map_err(|e| Fail { sig: "reencode:encode-failed".into(), msg: e.to_string() })?;
            ensure!(again == out, "reencode:differs", "re-encode {} != {}", show(&again), show(&out));
        }
        Err(e) => return fail("reencode:decode-failed", format!("decode of {} failed: {e}", show(&out))),
    }
    ctx.nontrivial(&serde_json::to_string(c).unwrap_or_default());
    ctx.sample("int128", c);
    Ok(())
}

// ---------------------------------------------------------------------------
// Golden vectors (hand-derived from UAX #15 examples and RFC 8259)
// ---------------------------------------------------------------------------

#[derive(Debug, Clone, Serialize, Deserialize)]
pub struct Golden {
    input: J,
    expect: String,
}

fn goldens() -> Vec<Golden> {
    let s = |x: &str| J::Str(x.to_string());
    let g = |input: J, expect: &str| Golden { input, expect: expect.to_string() };
    let o = |kv: Vec<(&str, J)>| J::Obj(kv.into_iter().map(|(k, v)| (k.to_string(), v)).collect());
    vec![
        g(s("e\u{301}"), "\"\u{e9}\""),
        g(s("\u{212b}"), "\"\u{c5}\""),
        g(s("A\u{30a}"), "\"\u{c5}\""),
        g(s("\u{2126}"), "\"\u{3a9}\""),
        g(s("\u{1100}\u{1161}"), "\"\u{ac00}\""),
        g(s("\u{1100}\u{1161}\u{11a8}"), "\"\u{ac01}\""),
        g(s("q\u{307}\u{323}"), "\"q\u{323}\u{307}\""),
        g(s("\u{1e9b}\u{323}"), "\"\u{1e9b}\u{323}\""),
        g(s("\u{fb01}"), "\"\u{fb01}\""),
        g(s("\u{958}"), "\"\u{915}\u{93c}\""),
        g(s("e\n\u{301}"), "\"e\\n\u{301}\""),
        g(s("\t"), "\"\\t\""),
        g(s("\u{8}\u{c}\r"), "\"\\b\\f\\r\""),
        g(s("\u{0}\u{1f}\u{b}"), "\"\\u0000\\u001f\\u000b\""),
        g(s("\u{7f}/\u{2028}"), "\"\u{7f}/\u{2028}\""),
        g(s("\"\\"), "\"\\\"\\\\\""),
        g(J::UInt(u64::MAX), "18446744073709551615"),
        g(J::Int(i64::MIN), "-9223372036854775808"),
        g(o(vec![("b", J::Int(1)), ("a", J::Int(2))]), "{\"a\":2,\"b\":1}"),
        g(
            o(vec![
                ("z", o(vec![("b", J::Arr(vec![])), ("a", o(vec![]))])),
                ("a", J::Arr(vec![J::Int(1), o(vec![("y", J::Null), ("x", J::Bool(true))])])),
            ]),
            "{\"a\":[1,{\"x\":true,\"y\":null}],\"z\":{\"a\":{},\"b\":[]}}",
        ),
        // keys are compared after normalisation: "e\u{301}" becomes U+00E9 (c3 a9), which sorts after "f"
        g(o(vec![("e\u{301}", J::Int(1)), ("f", J::Int(2)), ("e", J::Int(3))]), "{\"e\":3,\"f\":2,\"\u{e9}\":1}"),
        // byte order, not UTF-16 order: U+FF5E (ef bd 9e) sorts before U+10000 (f0 90 80 80)
        g(o(vec![("\u{10000}", J::Int(1)), ("\u{ff5e}", J::Int(2))]), "{\"\u{ff5e}\":2,\"\u{10000}\":1}"),
    ]
}

fn check_golden(ctx: &Ctx, g: &Golden) -> CaseResult {
    let out = encode(g.input.to_value()).map_err(|e| Fail { sig: "encode:error-without-float".into(), msg: e.to_string() })?;
    ensure!(
        out == g.expect.as_bytes(),
        "golden:mismatch",
        "encode({:?}) = {} expected {}",
        g.input,
        show(&out),
        g.expect
    );
    check(ctx, &Case { value: g.input.clone(), float: None, route: 0, pid: 0 })
}

// ---------------------------------------------------------------------------
// Generators
// ---------------------------------------------------------------------------

const FRAGS: &[&str] = &[
    // ASCII
    "", "a", "b", "A", "z", "ab", "key", "0", "10", "9", "-1", " ", "!", "#", "~", "/", "a b",
    // quote / backslash
    "\"", "\\", "\\u0041", "\\n",
    // decomposed / to-be-composed
    "e\u{301}", "a\u{308}", "A\u{30a}", "\u{212b}", "\u{2126}", "\u{1100}\u{1161}", "\u{1100}\u{1161}\u{11a8}",
    "\u{ac00}\u{11a8}", "q\u{307}\u{323}", "q\u{323}\u{307}", "\u{1e9b}\u{323}", "\u{958}", "\u{344}", "\u{301}",
    "\u{0f73}", "\u{1161}",
    // composed / stable
    "\u{e9}", "\u{c5}", "\u{ac00}", "\u{fb01}", "\u{3a9}", "\u{df}", "\u{ff5e}", "\u{2028}", "\u{feff}", "\u{fffd}",
    // astral
    "\u{1f600}", "\u{1d11e}", "\u{10000}", "\u{10ffff}", "\u{1d15e}",
    // DEL / C1
    "\u{7f}", "\u{80}", "\u{85}", "\u{9f}",
];

fn frag() -> impl Strategy<Value = String> {
    prop_oneof![
        6 => proptest::sample::select(FRAGS).prop_map(|s| s.to_string()),
        2 => (0u32..0x20).prop_map(|u| char::from_u32(u).unwrap().to_string()),
        1 => any::<char>().prop_map(|c| c.to_string()),
        1 => (0x300u32..0x370).prop_map(|u| char::from_u32(u).unwrap().to_string()),
    ]
}

fn text() -> impl Strategy<Value = String> {
    proptest::collection::vec(frag(), 0..4).prop_map(|v| v.concat())
}

const SUFFIX: &[&str] = &[" ", "!", "\"", "#", "\u{1}", "\n", "a", "\u{301}", "\\", "\u{7f}", "~", "\u{1f600}", "  ", "!a"];

#[derive(Debug, Clone)]
struct KeySpec {
    kind: u8,
    text: String,
    idx: u16,
    suffix: &'static str,
}

fn keyspec() -> impl Strategy<Value = KeySpec> {
    (0u8..12, text(), any::<u16>(), proptest::sample::select(SUFFIX))
        .prop_map(|(kind, text, idx, suffix)| KeySpec { kind, text, idx, suffix })
}

fn build_obj(specs: Vec<(KeySpec, J)>) -> J {
    let mut out: Vec<(String, J)> = vec![];
    for (s, v) in specs {
        let key = if out.is_empty() || s.kind < 8 {
            s.text
        } else {
            let prev = out[pick(s.idx, out.len())].0.clone();
            match s.kind {
                // a previous key extended by one suffix (prefix-related keys)
                8 | 9 | 10 => format!("{prev}{}", s.suffix),
                // canonically equivalent spelling of a previous key (collides after NFC)
                _ => {
                    let d: String = prev.nfd().collect();
                    if d != prev {
                        d
                    } else {
                        nfc(&prev)
                    }
                }
            }
        };
        out.push((key, v));
    }
    J::Obj(out)
}

fn int_leaf() -> impl Strategy<Value = J> {
    prop_oneof![
        3 => proptest::sample::select(vec![
            J::Int(0), J::Int(-1), J::Int(1), J::Int(i64::MIN), J::Int(i64::MIN + 1), J::Int(i64::MAX),
            J::UInt(u64::MAX), J::UInt(i64::MAX as u64 + 1), J::UInt(i64::MAX as u64), J::UInt(u64::MAX - 1),
            J::Int(i32::MIN as i64), J::UInt(u32::MAX as u64), J::Int(-10), J::Int(100),
        ]),
        1 => any::<i64>().prop_map(J::Int),
        1 => any::<u64>().prop_map(J::UInt),
        1 => (-1000i64..1000).prop_map(J::Int),
    ]
}

fn leaf() -> impl Strategy<Value = J> {
    prop_oneof![
        1 => Just(J::Null),
        1 => any::<bool>().prop_map(J::Bool),
        3 => int_leaf(),
        5 => text().prop_map(J::Str),
    ]
}

fn tree() -> impl Strategy<Value = J> {
    leaf().prop_recursive(4, 40, 6, |inner| {
        prop_oneof![
            2 => proptest::collection::vec(inner.clone(), 0..4).prop_map(J::Arr),
            5 => proptest::collection::vec((keyspec(), inner), 0..6).prop_map(build_obj),
        ]
    })
}

/// Top level biased to containers so that the interesting classes are frequent.
fn top() -> impl Strategy<Value = J> {
    prop_oneof![
        1 => tree(),
        3 => proptest::collection::vec((keyspec(), tree()), 1..6).prop_map(build_obj),
        1 => proptest::collection::vec(tree(), 1..4).prop_map(J::Arr),
    ]
}

fn floats() -> impl Strategy<Value = f64> {
    prop_oneof![
        3 => proptest::sample::select(vec![
            0.0, -0.0, 1.0, -1.0, 1.5, -2.5, 1e15, 1e16, 1e300, 5e-324, f64::MAX, f64::MIN, 9007199254740993.0,
            18446744073709551616.0, 0.1, 8.0,
        ]),
        1 => any::<f64>().prop_filter("finite", |f| f.is_finite()),
    ]
}

fn cases() -> impl Strategy<Value = Case> {
    (
        top(),
        prop_oneof![6 => Just(None), 1 => (any::<u16>(), floats()).prop_map(Some)],
        prop_oneof![3 => Just(0u8), 1 => Just(1u8)],
        0u8..PIDS.len() as u8,
    )
        .prop_map(|(value, float, route, pid)| Case { value, float, route, pid })
}

fn typed_cases() -> impl Strategy<Value = Typed> {
    let en = prop_oneof![
        Just(En::Unit),
        any::<u8>().prop_map(En::New),
        any::<(i8, i16)>().prop_map(|(a, b)| En::Tup(a, b)),
        any::<(u16, u32)>().prop_map(|(y, x)| En::St { y, x }),
    ];
    let ikey = prop_oneof![
        2 => proptest::sample::select(vec![0i64, -1, 1, 9, 10, -10, 100, i64::MIN, i64::MAX]),
        1 => any::<i64>(),
    ];
    let ukey = prop_oneof![
        2 => proptest::sample::select(vec![0u64, 1, 9, 10, 99, 100, u64::MAX, i64::MAX as u64 + 1]),
        1 => any::<u64>(),
    ];
    let f = prop_oneof![
        8 => Just(None),
        1 => proptest::sample::select(vec![0.0f32, 1.0, -1.5, f32::MAX, 1e-40]).prop_map(Some),
        1 => proptest::sample::select(vec![f32::NAN, f32::INFINITY, f32::NEG_INFINITY]).prop_map(Some),
    ];
    (
        (text(), proptest::option::of(any::<i32>()), proptest::collection::btree_map(ikey, text(), 0..5)),
        (proptest::collection::btree_map(ukey, any::<bool>(), 0..5), proptest::collection::vec(any::<char>(), 0..4)),
        (proptest::collection::vec(en, 0..4), f, any::<(i8, i16, i32, u8, u16, u32)>()),
        proptest::collection::btree_map(text(), any::<i8>(), 0..4),
    )
        .prop_map(|((zeta, alpha, imap), (umap, chars), (en, f, small), smap)| Typed {
            zeta,
            alpha,
            imap,
            umap,
            chars,
            unit: (),
            en,
            f,
            small,
            smap,
        })
}

fn big_cases() -> impl Strategy<Value = BigCase> {
    let word = || prop_oneof![2 => proptest::sample::select(vec![0u64, 1, u64::MAX, 1 << 63]), 1 => any::<u64>()];
    (
        proptest::collection::vec((text(), any::<bool>(), word(), word()), 0..5),
        (word(), word()),
    )
        .prop_map(|(entries, top)| BigCase { entries, top })
}

/// Alphabet for the exhaustive pair space.
const ALPHA: &[&str] = &[
    "a", "b", "A", " ", "!", "\"", "#", "\\", "~", "\u{0}", "\u{1}", "\t", "\n", "\u{1f}", "\u{7f}", "\u{80}", "e",
    "\u{301}", "\u{e9}", "\u{323}", "\u{307}", "\u{1100}", "\u{1161}", "\u{11a8}", "\u{ac00}", "\u{212b}", "\u{c5}",
    "\u{ff5e}", "\u{10000}", "\u{1f600}", "",
];

/// Every code point below U+3000 as value and key, next to two fixed neighbours.
fn exhaustive_chars() -> impl Iterator<Item = Case> {
    (0u32..0x3000).filter_map(char::from_u32).map(|c| Case {
        value: J::Obj(vec![
            ("m".to_string(), J::Str(c.to_string())),
            (format!("a{c}"), J::Obj(vec![(c.to_string(), J::Int(1)), ("a".to_string(), J::Null)])),
            ("a".to_string(), J::Arr(vec![J::Str(format!("e{c}\u{301}"))])),
        ]),
        float: None,
        route: 0,
        pid: 0,
    })
}

/// All ordered triples (x, y, z) of the alphabet: keys `x`, `x+y`, `z` inserted in that order, value x+y+z.
fn exhaustive_pairs(route: u8) -> impl Iterator<Item = Case> {
    ALPHA.iter().flat_map(move |x| {
        ALPHA.iter().flat_map(move |y| {
            ALPHA.iter().map(move |z| Case {
                value: J::Arr(vec![J::Obj(vec![
                    (format!("{x}{y}"), J::Str(format!("{x}{y}{z}"))),
                    (z.to_string(), J::Int(2)),
                    (x.to_string(), J::Int(1)),
                ])]),
                float: None,
                route,
                pid: 0,
            })
        })
    })
}

fn run(ctx: &Ctx) {
    let f = |c: &Case| check(ctx, c);
    ctx.enumerate("golden", goldens().into_iter(), true, |g: &Golden| check_golden(ctx, g));
    ctx.enumerate("exhaustive-chars", exhaustive_chars(), true, f);
    ctx.enumerate("exhaustive-key-triples", exhaustive_pairs(0), true, f);
    if !ctx.quick() {
        ctx.enumerate("exhaustive-key-triples-doc", exhaustive_pairs(1), true, f);
    }
    ctx.run("random", cases(), ctx.cases(100_000, 2_000_000), f);
    ctx.run("typed", typed_cases(), ctx.cases(20_000, 400_000), |t: &Typed| check_typed(ctx, t));
    ctx.run("typed-int128", big_cases(), ctx.cases(4_000, 80_000), |c: &BigCase| check_big(ctx, c));
}

#[allow(dead_code)]
fn _unused(_: BTreeSet<u8>) {}
