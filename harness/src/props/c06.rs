//! C06 — Rejected collaborative-object changes leave no trace in the state.
use std::collections::{BTreeMap, BTreeSet};

use proptest::prelude::*;
use radicle::cob::issue::{self, Issue};
use radicle::cob::patch::{self, Patch};
use radicle::cob::{Label, ObjectId, Reaction, TypeName};
use radicle::git::Oid;
use radicle::identity::Did;
use radicle_cob::Evaluate;
use serde::{Deserialize, Serialize};

use crate::core::*;
use crate::ensure;
use crate::lab::cob::*;

pub const PROP: Prop = Prop {
    id: "C06",
    shards: (16, 16),
    level: "exploration",
    rule: "Change DAGs (<= 12 changes, 4 authors: object author+delegate, delegate, two strangers; <= 3 parents; \
           timestamps from a 3-value domain) for issues and patches, written as raw change commits (no apply-before-store \
           check, as a remote peer's data arrives): valid single- and multi-action changes mixed with rejected ones \
           (forged signature by another key / over other bytes; multi-action changes whose later action is rejected: title \
           with newline, edit of a missing comment or review, unauthorised assign/label/lifecycle after an allowed comment, \
           undecodable action) at every DAG position, followed by dependants. Oracle (metamorphic): evaluate through \
           cob::get; E = entries of the returned history; E is ancestor-closed and contains no surely-rejected change; \
           re-point the references at the tips of E only and evaluate again: object (PartialEq), tips and entry set must be \
           identical. Non-trivial: a directly rejected change with >= 2 actions whose first action is valid on its own, at a \
           non-tip position. The same clause runs over identity histories (C04's generators: proposal rounds and free \
           histories with accepts whose document signature does not verify, duplicate verdicts, non-delegate authors; \
           one action per change) comparing the whole Identity state (current, heads, revisions, verdicts, timeline); \
           non-trivial there: a directly rejected change and at least one kept change besides the root. Distinct = hash of the case.",
    assumptions: &[
        "'surely rejected' is only claimed for structural reasons (bad signature, newline title, missing target id, undecodable action); \
         other rejections are taken from the observed history",
        "commit timestamps are injected through GIT_COMMITTER_DATE (one single-threaded process per shard)",
    ],
    run,
    budget_s: (1200, 7200),
};

#[derive(Debug, Clone, Serialize, Deserialize, Hash)]
pub enum Act {
    Edit { v: u8 },
    EditBad,
    Label { set: u8 },
    Assign { set: u8 },
    Lifecycle { v: u8 },
    Comment { reply: Option<u16> },
    CommentEdit { target: u16 },
    CommentRedact { target: u16 },
    CommentReact { target: u16 },
    EditMissing,
    Garbage,
    // patch only
    Review { target: u16 },
    Revision { v: u8 },
    RevisionRedact { target: u16 },
}

#[derive(Debug, Clone, Serialize, Deserialize, Hash)]
pub struct Change {
    pub author: u8,
    pub parents: Vec<u16>,
    pub ts: u8,
    pub actions: Vec<Act>,
    pub sig: SigMode,
}

#[derive(Debug, Clone, Serialize, Deserialize, Hash)]
pub struct Case {
    pub patch: bool,
    pub root_extra: Vec<Act>,
    pub changes: Vec<Change>,
}

fn act_strategy(patch: bool, mostly_valid: bool) -> impl Strategy<Value = Act> {
    let common = prop_oneof![
        4 => (0u8..3).prop_map(|v| Act::Edit { v }),
        2 => Just(Act::EditBad),
        3 => (0u8..3).prop_map(|set| Act::Label { set }),
        3 => (0u8..3).prop_map(|set| Act::Assign { set }),
        3 => (0u8..3).prop_map(|v| Act::Lifecycle { v }),
        5 => proptest::option::of(any::<u16>()).prop_map(|reply| Act::Comment { reply }),
        2 => any::<u16>().prop_map(|target| Act::CommentEdit { target }),
        2 => any::<u16>().prop_map(|target| Act::CommentRedact { target }),
        1 => any::<u16>().prop_map(|target| Act::CommentReact { target }),
        2 => Just(Act::EditMissing),
        1 => Just(Act::Garbage),
    ];
    let common = common.prop_map(move |a| {
        if mostly_valid && matches!(a, Act::EditBad | Act::EditMissing | Act::Garbage) {
            Act::Label { set: 2 }
        } else {
            a
        }
    });
    if patch {
        prop_oneof![
            8 => common,
            1 => any::<u16>().prop_map(|target| Act::Review { target }),
            1 => (0u8..3).prop_map(|v| Act::Revision { v }),
            1 => any::<u16>().prop_map(|target| Act::RevisionRedact { target }),
        ]
        .boxed()
    } else {
        common.boxed()
    }
}

fn change_strategy(patch: bool, mostly_valid: bool) -> impl Strategy<Value = Change> {
    let actions = prop_oneof![
        3 => proptest::collection::vec(act_strategy(patch, mostly_valid), 1..=1),
        4 => proptest::collection::vec(act_strategy(patch, mostly_valid), 2..=3),
    ];
    (
        prop_oneof![3 => Just(0u8), 3 => Just(1u8), 2 => Just(2u8), 1 => Just(3u8)],
        proptest::collection::vec(any::<u16>(), 1..=3),
        0u8..3,
        actions,
        prop_oneof![12 => Just(SigMode::Valid), 1 => Just(SigMode::WrongKey), 1 => Just(SigMode::OtherContent)],
    )
        .prop_map(move |(author, parents, ts, actions, sig)| Change {
            author: if mostly_valid && author == 3 { 0 } else { author },
            parents,
            ts,
            actions,
            sig: if mostly_valid { SigMode::Valid } else { sig },
        })
}

pub fn case_strategy() -> impl Strategy<Value = Case> {
    case_strategy_with(false)
}

/// `mostly_valid`: no structurally invalid actions or forged signatures (rejections still happen
/// through authorization and missing concurrent targets).
pub fn case_strategy_with(mostly_valid: bool) -> impl Strategy<Value = Case> {
    any::<bool>().prop_flat_map(move |patch| {
        (
            proptest::collection::vec(prop_oneof![(0u8..3).prop_map(|v| Act::Edit { v }), (0u8..3).prop_map(|set| Act::Label { set })], 0..2),
            proptest::collection::vec(change_strategy(patch, mostly_valid), 1..12),
        )
            .prop_map(move |(root_extra, changes)| Case { patch, root_extra, changes })
    })
}

const BASE_TS: u64 = 1_700_000_000;

pub struct Built {
    pub ids: Vec<Oid>,            // per change index (0 = root); duplicates possible
    pub parents: Vec<Vec<usize>>, // resolved parent indices
    pub surely_rejected: Vec<bool>,
    pub multi_valid_first: Vec<bool>,
    /// What was written, so that the same commits can be written elsewhere in another order.
    pub specs: Vec<Spec>,
}

#[derive(Debug, Clone)]
pub struct Spec {
    pub author: u8,
    pub tips: Vec<Oid>,
    pub contents: Vec<Vec<u8>>,
    pub ts: u64,
    pub sig: SigMode,
}

fn labels(set: u8) -> BTreeSet<Label> {
    (0..set).map(|i| Label::new(format!("l{i}")).unwrap()).collect()
}

fn oid_n(tag: u8, n: u8) -> Oid {
    let mut b = [0u8; 20];
    b[0] = tag;
    b[1] = n;
    b[19] = 7;
    Oid::try_from(&b[..]).unwrap()
}

fn encode<A: Serialize>(a: &A) -> Vec<u8> {
    radicle::cob::store::encoding::encode(a).unwrap()
}

/// Encode one action; `made_comment[i]` tells which earlier changes created a comment / review / revision.
fn encode_act(
    lab: &CobLab,
    patch: bool,
    a: &Act,
    ids: &[Oid],
    comment_makers: &[usize],
    review_makers: &[usize],
    revision_makers: &[usize],
) -> (Vec<u8>, bool) {
    // returns (bytes, structurally-invalid)
    let did = |ix: u8| Did::from(lab.key(ix));
    let pick_id = |t: u16, pool: &[usize]| -> Oid {
        if pool.is_empty() {
            ids[0]
        } else {
            ids[pool[pick(t, pool.len())]]
        }
    };
    let assignees = |set: u8| -> BTreeSet<Did> { (0..set).map(did).collect() };
    if !patch {
        use issue::Action as A;
        let act = match a {
            Act::Edit { v } => A::Edit { title: format!("title {v}") },
            Act::EditBad => return (encode(&A::Edit { title: "bad\ntitle".into() }), true),
            Act::Label { set } => A::Label { labels: labels(*set) },
            Act::Assign { set } => A::Assign { assignees: assignees(*set) },
            Act::Lifecycle { v } => A::Lifecycle {
                state: match v {
                    0 => issue::State::Open,
                    1 => issue::State::Closed { reason: issue::CloseReason::Solved },
                    _ => issue::State::Closed { reason: issue::CloseReason::Other },
                },
            },
            Act::Comment { reply } => A::Comment {
                body: "a comment".into(),
                reply_to: reply.map(|t| pick_id(t, comment_makers)),
                embeds: vec![],
            },
            Act::CommentEdit { target } => A::CommentEdit { id: pick_id(*target, comment_makers), body: "edited".into(), embeds: vec![] },
            Act::CommentRedact { target } => A::CommentRedact { id: pick_id(*target, comment_makers) },
            Act::CommentReact { target } => A::CommentReact {
                id: pick_id(*target, comment_makers),
                reaction: Reaction::new('👍').unwrap(),
                active: true,
            },
            Act::EditMissing => return (encode(&A::CommentEdit { id: oid_n(0x99, 1), body: "x".into(), embeds: vec![] }), true),
            Act::Garbage => return (b"{\"type\":\"no-such-action\",\"x\":1}".to_vec(), true),
            Act::Review { .. } | Act::Revision { .. } | Act::RevisionRedact { .. } => A::Label { labels: labels(1) },
        };
        (encode(&act), false)
    } else {
        use patch::Action as A;
        let rev = |t: u16| patch::RevisionId::from(pick_id(t, revision_makers));
        let act = match a {
            Act::Edit { v } => A::Edit { title: format!("title {v}"), target: patch::MergeTarget::Delegates },
            // Nb. patch titles are not validated, so this is an ordinary edit for patches.
            Act::EditBad => return (encode(&A::Edit { title: "bad\ntitle".into(), target: patch::MergeTarget::Delegates }), false),
            Act::Label { set } => A::Label { labels: labels(*set) },
            Act::Assign { set } => A::Assign { assignees: assignees(*set) },
            Act::Lifecycle { v } => A::Lifecycle {
                state: match v {
                    0 => patch::Lifecycle::Open,
                    1 => patch::Lifecycle::Draft,
                    _ => patch::Lifecycle::Archived,
                },
            },
            Act::Comment { reply } => A::RevisionComment {
                revision: rev(reply.unwrap_or(0)),
                location: None,
                body: "a comment".into(),
                reply_to: reply.and_then(|t| if comment_makers.is_empty() { None } else { Some(pick_id(t, comment_makers)) }),
                embeds: vec![],
            },
            Act::CommentEdit { target } => A::RevisionCommentEdit {
                revision: rev(0),
                comment: pick_id(*target, comment_makers),
                body: "edited".into(),
                embeds: vec![],
            },
            Act::CommentRedact { target } => A::RevisionCommentRedact { revision: rev(0), comment: pick_id(*target, comment_makers) },
            Act::CommentReact { target } => A::RevisionCommentReact {
                revision: rev(0),
                comment: pick_id(*target, comment_makers),
                reaction: Reaction::new('👍').unwrap(),
                active: true,
            },
            Act::EditMissing => {
                return (
                    encode(&A::ReviewEdit { review: patch::ReviewId::from(oid_n(0x99, 2)), summary: Some("x".into()), verdict: None, labels: vec![] }),
                    true,
                )
            }
            Act::Garbage => return (b"{\"type\":\"no-such-action\",\"x\":1}".to_vec(), true),
            Act::Review { target } => A::Review { revision: rev(*target), summary: Some("lgtm".into()), verdict: Some(patch::Verdict::Accept), labels: vec![] },
            Act::Revision { v } => A::Revision { description: format!("rev {v}"), base: oid_n(0x10, *v), oid: oid_n(0x20, *v), resolves: Default::default() },
            Act::RevisionRedact { target } => A::RevisionRedact { revision: rev(*target) },
        };
        let _ = review_makers;
        (encode(&act), false)
    }
}

pub fn build(lab: &CobLab, c: &Case, type_name: &TypeName) -> Built {
    let mut ids: Vec<Oid> = vec![];
    let mut parents: Vec<Vec<usize>> = vec![];
    let mut surely_rejected = vec![];
    let mut multi_valid_first = vec![];
    let mut comment_makers: Vec<usize> = vec![];
    let mut review_makers: Vec<usize> = vec![];
    let mut revision_makers: Vec<usize> = vec![];
    let mut specs: Vec<Spec> = vec![];
    // root
    {
        let mut contents: Vec<Vec<u8>> = vec![];
        if c.patch {
            contents.push(encode(&patch::Action::Revision {
                description: "initial".into(),
                base: oid_n(0x10, 9),
                oid: oid_n(0x20, 9),
                resolves: Default::default(),
            }));
            contents.push(encode(&patch::Action::Edit { title: "a patch".into(), target: patch::MergeTarget::Delegates }));
        } else {
            contents.push(encode(&issue::Action::Comment { body: "an issue".into(), reply_to: None, embeds: vec![] }));
            contents.push(encode(&issue::Action::Edit { title: "an issue".into() }));
        }
        for a in &c.root_extra {
            contents.push(encode_act(lab, c.patch, a, &[], &[], &[], &[]).0);
        }
        specs.push(Spec { author: 0, tips: vec![], contents: contents.clone(), ts: BASE_TS, sig: SigMode::Valid });
        let e = lab.store(type_name, 0, Some(lab.identity_root), vec![], vec![], contents, BASE_TS, SigMode::Valid);
        ids.push(e.id);
        parents.push(vec![]);
        surely_rejected.push(false);
        multi_valid_first.push(false);
        comment_makers.push(0);
        revision_makers.push(0);
    }
    for (k, ch) in c.changes.iter().enumerate() {
        let i = k + 1;
        let mut ps: Vec<usize> = ch.parents.iter().map(|p| pick(*p, i)).collect();
        ps.sort();
        ps.dedup();
        let mut tips: Vec<Oid> = ps.iter().map(|p| ids[*p]).collect();
        tips.sort();
        tips.dedup();
        let mut contents = vec![];
        let mut bad = ch.sig != SigMode::Valid;
        let mut first_bad = false;
        // At most one discussion-thread action per change: the thread code asserts (debug builds only)
        // that an entry id enters a thread's timeline once.
        let mut thread_used = false;
        let mut produced = false;
        for (ai, a) in ch.actions.iter().enumerate() {
            let touches_thread = matches!(a, Act::Comment { .. } | Act::CommentEdit { .. } | Act::CommentRedact { .. } | Act::CommentReact { .. })
                || (!c.patch && matches!(a, Act::EditMissing));
            // Likewise at most one action that creates an identified thing (comment, review, revision) per
            // change: their id is the change id (the CLI's transaction refuses a second one).
            let produces = matches!(a, Act::Comment { .. } | Act::Review { .. } | Act::Revision { .. });
            let substitute = Act::Label { set: 1 };
            let a = if (touches_thread && thread_used) || (produces && produced) { &substitute } else { a };
            thread_used |= touches_thread;
            produced |= produces;
            let (bytes, invalid) = encode_act(lab, c.patch, a, &ids, &comment_makers, &review_makers, &revision_makers);
            if invalid {
                bad = true;
                if ai == 0 {
                    first_bad = true;
                }
            }
            contents.push(bytes);
        }
        specs.push(Spec { author: ch.author, tips: tips.clone(), contents: contents.clone(), ts: BASE_TS + 10 + ch.ts as u64, sig: ch.sig });
        let e = lab.store(type_name, ch.author, Some(lab.identity_root), vec![], tips, contents, BASE_TS + 10 + ch.ts as u64, ch.sig);
        ids.push(e.id);
        parents.push(ps);
        surely_rejected.push(bad);
        multi_valid_first.push(ch.actions.len() >= 2 && !first_bad);
        if ch.actions.iter().position(|a| matches!(a, Act::Comment { .. }))
            == ch.actions.iter().position(|a| matches!(a, Act::Comment { .. } | Act::CommentEdit { .. } | Act::CommentRedact { .. } | Act::CommentReact { .. }))
            && ch.actions.iter().any(|a| matches!(a, Act::Comment { .. }))
        {
            comment_makers.push(i);
        }
        if ch.actions.iter().any(|a| matches!(a, Act::Review { .. })) {
            review_makers.push(i);
        }
        if c.patch && ch.actions.iter().any(|a| matches!(a, Act::Revision { .. })) {
            revision_makers.push(i);
        }
    }
    Built { ids, parents, surely_rejected, multi_valid_first, specs }
}

fn judge<T: Evaluate<radicle::storage::git::Repository> + PartialEq + std::fmt::Debug>(
    ctx: &Ctx,
    lab: &CobLab,
    c: &Case,
    b: &Built,
    type_name: &TypeName,
    kind: &str,
) -> CaseResult {
    let oid = ObjectId::from(b.ids[0]);
    let n = b.ids.len();
    // distinct commits and the DAG over them
    let mut by_id: BTreeMap<Oid, usize> = BTreeMap::new();
    for (i, id) in b.ids.iter().enumerate() {
        by_id.entry(*id).or_insert(i);
    }
    let mut children: BTreeMap<Oid, BTreeSet<Oid>> = BTreeMap::new();
    let mut parent_ids: BTreeMap<Oid, BTreeSet<Oid>> = BTreeMap::new();
    for i in 0..n {
        for p in &b.parents[i] {
            children.entry(b.ids[*p]).or_default().insert(b.ids[i]);
            parent_ids.entry(b.ids[i]).or_default().insert(b.ids[*p]);
        }
    }
    // references at all tips, one spare namespace each
    lab.clear_refs(type_name, &oid);
    let tips: Vec<Oid> = by_id.keys().filter(|id| children.get(*id).map(|c| c.is_empty()).unwrap_or(true)).copied().collect();
    for (j, t) in tips.iter().enumerate() {
        lab.set_ref(&spare_key(j as u8), type_name, &oid, *t);
    }
    let first = match lab.eval::<T>(type_name, &oid) {
        Ok(Some(o)) => o,
        Ok(None) => return fail(format!("{kind}:object-not-found"), "the object was not found after writing its references"),
        Err(e) => {
            ctx.count(&format!("{kind}:root-rejected"));
            let _ = e;
            return Ok(());
        }
    };
    let e1 = entries(&first.history);
    // E is ancestor-closed and free of surely-rejected changes
    for id in &e1 {
        ensure!(by_id.contains_key(id), format!("{kind}:unknown-entry-in-history"), "history contains {id} which was never written");
        let i = by_id[id];
        ensure!(
            !b.surely_rejected[i],
            format!("{kind}:rejected-change-kept-in-history"),
            "change #{i} ({id}) must be rejected ({:?}) but is part of the evaluated history",
            if i == 0 { None } else { Some(&c.changes[i - 1]) }
        );
        for p in parent_ids.get(id).into_iter().flatten() {
            ensure!(
                e1.contains(p),
                format!("{kind}:dependant-of-dropped-change-kept"),
                "change {id} is in the history but its parent {p} was dropped"
            );
        }
    }
    // classification
    let mut nontrivial = false;
    for (id, i) in &by_id {
        if e1.contains(id) {
            continue;
        }
        let direct = parent_ids.get(id).into_iter().flatten().all(|p| e1.contains(p));
        if direct {
            ctx.count(&format!("{kind}:directly-rejected-change"));
            let has_children = children.get(id).map(|c| !c.is_empty()).unwrap_or(false);
            if b.multi_valid_first[*i] && has_children {
                nontrivial = true;
            }
            if b.multi_valid_first[*i] {
                ctx.count(&format!("{kind}:rejected-multi-action-change-with-valid-first-action"));
            }
        } else {
            ctx.count(&format!("{kind}:dropped-as-dependant"));
        }
    }
    // re-point the references at the tips of E only
    let e_tips: Vec<Oid> = e1
        .iter()
        .filter(|id| children.get(*id).map(|c| c.iter().all(|k| !e1.contains(k))).unwrap_or(true))
        .copied()
        .collect();
    ensure!(
        e_tips.iter().copied().collect::<BTreeSet<_>>() == first.history.tips(),
        format!("{kind}:history-tips-inconsistent"),
        "History::tips() = {:?} but the tips of its entries are {:?}",
        first.history.tips(),
        e_tips
    );
    lab.clear_refs(type_name, &oid);
    for (j, t) in e_tips.iter().enumerate() {
        lab.set_ref(&spare_key(100 + j as u8), type_name, &oid, *t);
    }
    let second = match lab.eval::<T>(type_name, &oid) {
        Ok(Some(o)) => o,
        other => return fail(format!("{kind}:clean-history-does-not-evaluate"), format!("evaluating the history without the rejected changes failed: {:?}", other.err())),
    };
    let e2 = entries(&second.history);
    ensure!(
        e1 == e2,
        format!("{kind}:entries-differ-on-clean-history"),
        "evaluating only the kept entries drops more: kept {} then {}",
        e1.len(),
        e2.len()
    );
    if first.object != second.object {
        let a = format!("{:?}", first.object);
        let b2 = format!("{:?}", second.object);
        let at = a.bytes().zip(b2.bytes()).position(|(x, y)| x != y).unwrap_or(0);
        let lo = at.saturating_sub(80);
        return fail(
            format!("{kind}:rejected-change-left-a-trace"),
            format!(
                "state with rejected changes differs from the state of the clean history; first difference near: …{}… vs …{}…",
                &a[lo..(at + 80).min(a.len())],
                &b2[lo..(at + 80).min(b2.len())]
            ),
        );
    }
    ctx.count(&format!("{kind}:cases"));
    if nontrivial {
        ctx.nontrivial(c);
        ctx.sample("histories", c);
    }
    Ok(())
}

thread_local! {
    static LAB: std::cell::RefCell<Option<CobLab>> = const { std::cell::RefCell::new(None) };
}

fn check(ctx: &Ctx, c: &Case) -> CaseResult {
    // One repository per shard: objects are content-addressed and every case uses its own object id
    // (the root commit differs only when the case does; references are cleared per case).
    let lab = LAB.with(|l| l.borrow_mut().take()).unwrap_or_else(|| CobLab::new(4, &[0, 1], 1));
    let r = if c.patch {
        let tn: &TypeName = &patch::TYPENAME;
        let b = build(&lab, c, tn);
        judge::<Patch>(ctx, &lab, c, &b, tn, "patch")
    } else {
        let tn: &TypeName = &issue::TYPENAME;
        let b = build(&lab, c, tn);
        judge::<Issue>(ctx, &lab, c, &b, tn, "issue")
    };
    LAB.with(|l| *l.borrow_mut() = Some(lab));
    r
}

fn run(ctx: &Ctx) {
    ctx.run("histories", case_strategy(), ctx.cases(480, 8_000), |c: &Case| check(ctx, c));
    // identity objects: same clause over the identity histories of C04's generators
    ctx.run("identity-rounds", super::c04::rounds_cases(), ctx.cases(240, 4_000), |c| super::c04::check_clean_history(ctx, c));
    ctx.run("identity-histories", super::c04::history_cases(10), ctx.cases(160, 3_000), |c| super::c04::check_clean_history(ctx, c));
}
