//! C16 — At most one fetch per repository, attributed to the right peer.
use std::collections::BTreeMap;

use proptest::prelude::*;
use radicle::identity::Visibility;
use radicle::node::FetchResult as CmdResult;
use radicle_node::prelude::*;
use radicle_node::service::io::Io;
use radicle_node::service::message::*;
use radicle_node::service::policy::{Scope, SeedingPolicy};
use radicle_node::service::{Command, DisconnectReason, ServiceState};
use radicle_node::worker::{fetch, FetchError};
use radicle_node::Link;
use serde::{Deserialize, Serialize};

use crate::core::*;
use crate::ensure;
use crate::lab::service::*;

pub const PROP: Prop = Prop {
    id: "C16",
    shards: (16, 16),
    level: "exploration",
    rule: "Event sequences (<= 30) against a real Service with 3 peers, 2 repositories, fetch_concurrency in {1,2}: \
           connect / disconnect (matching and non-matching link) / reconnect, fetch commands with result channels, refs \
           announcements from connected announcers, ticks, and worker results (success, failure, timeout) including late \
           results. Every Io::Fetch is a token; a disconnect kills the peer's tokens but their results stay deliverable; \
           the wire's forwarding rule (forward to Service::fetched iff the peer is connected when the result arrives) is \
           modelled from wire/protocol.rs. Invariants after every event: <= 1 in-flight token per repository, per-peer \
           in-flight tokens <= limit, queue <= 128, no panic; a delivered result only completes its own token. Exhaustive \
           enumeration of all sequences of depth 3 (quick) / 5 (thorough) over a reduced 10-event alphabet, plus a directed family of late-result scenarios with random noise. Non-trivial: a result \
           delivered after its peer disconnected and reconnected, or while another peer fetches or queues the same \
           repository. Distinct = hash of the event list.",
    assumptions: &[
        "the wire layer is modelled, not executed: results are forwarded iff the peer is connected at that time; a second \
         `connected` for an already connected peer (connection crossing) is not generated",
        "the runtime reacts to Io::Disconnect by calling Service::disconnected at once (emulated)",
    ],
    run,
    budget_s: (900, 7200),
};

#[derive(Debug, Clone, Serialize, Deserialize, Hash, PartialEq, Eq)]
pub enum Ev {
    Connect { peer: u8, outbound: bool },
    Disconnect { peer: u8, matching: bool },
    FetchCmd { repo: u8, peer: u8 },
    RefsAnn { peer: u8, repo: u8 },
    Tick { class: u8 },
    /// deliver the result of the `which`-th deliverable token (in-flight or dead), oldest first
    Result { which: u8, outcome: u8 },
}

#[derive(Debug, Clone, Serialize, Deserialize, Hash)]
pub struct Case {
    seed: u8,
    concurrency: u8,
    events: Vec<Ev>,
}

const TICKS: [u64; 3] = [0, 30_000, 121_000];

fn ev_strategy() -> impl Strategy<Value = Ev> {
    prop_oneof![
        4 => (0u8..3, any::<bool>()).prop_map(|(peer, outbound)| Ev::Connect { peer, outbound }),
        4 => (0u8..3, proptest::bool::weighted(0.85)).prop_map(|(peer, matching)| Ev::Disconnect { peer, matching }),
        8 => (0u8..2, 0u8..3).prop_map(|(repo, peer)| Ev::FetchCmd { repo, peer }),
        3 => (0u8..3, 0u8..2).prop_map(|(peer, repo)| Ev::RefsAnn { peer, repo }),
        2 => (0u8..3).prop_map(|class| Ev::Tick { class }),
        8 => (0u8..4, 0u8..3).prop_map(|(which, outcome)| Ev::Result { which, outcome }),
    ]
}

#[derive(Debug, Clone, Copy, PartialEq, Eq)]
enum TState {
    InFlight,
    Dead,
    Done,
}

#[derive(Debug, Clone)]
struct Token {
    rid: RepoId,
    remote: NodeId,
    state: TState,
}

struct Chan {
    rid: RepoId,
    peer: NodeId,
    rx: crossbeam_channel::Receiver<CmdResult>,
}

fn check(ctx: &Ctx, c: &Case) -> CaseResult {
    let ids: Vec<NodeId> = (0..3u8).map(|i| Remote::new(i, false).id).collect();
    let repos: Vec<_> = (0..2u8).map(|i| mock_repo(i, &[ids[0]], Visibility::Public)).collect();
    let rids: Vec<RepoId> = repos.iter().map(|r| r.0).collect();
    let docs: Vec<_> = repos.iter().map(|r| r.1.doc.clone()).collect();
    let conc = c.concurrency.clamp(1, 2) as usize;
    let mut lab: Lab = Lab::new(LabConfig {
        seed: c.seed as u64,
        remotes: 3,
        routable_remotes: false,
        repos: vec![], // nothing local: every fetch is a clone
        policy: SeedingPolicy::Allow { scope: Scope::All },
        tweak: Box::new(move |cfg| {
            cfg.limits.fetch_concurrency = conc;
        }),
        import_addresses: vec![0, 1, 2],
    });

    let mut tokens: Vec<Token> = vec![];
    let mut chans: Vec<Chan> = vec![];
    let mut counter = 0u8;
    let mut late_delivered = false;
    let mut concurrent_interest = false;

    for (step, ev) in c.events.iter().enumerate() {
        // which channels may legitimately receive something in this event
        let mut delivered_token: Option<usize> = None;
        let mut disconnected_peer: Option<NodeId> = None;
        let mut cmd_chan: Option<usize> = None;
        let mut stash: std::collections::VecDeque<Io> = Default::default();
        let fetching_before: BTreeMap<RepoId, NodeId> = lab.node.fetching().iter().map(|(r, f)| (*r, f.from)).collect();

        match ev {
            Ev::Connect { peer, outbound } => {
                let i = *peer as usize;
                if lab.is_connected(i) {
                    continue; // connection crossing is not modelled
                }
                if lab.session_link(i).is_some() {
                    // a session exists but is not connected (dialing): complete it as outbound
                    continue;
                }
                if *outbound {
                    lab.connect_outbound(i);
                } else {
                    lab.connect_inbound(i);
                }
            }
            Ev::Disconnect { peer, matching } => {
                let i = *peer as usize;
                let Some(link) = lab.session_link(i) else { continue };
                let l = if *matching {
                    link
                } else if link == Link::Inbound {
                    Link::Outbound
                } else {
                    Link::Inbound
                };
                let was_connected = lab.is_connected(i);
                lab.disconnect(i, l);
                if *matching && was_connected {
                    disconnected_peer = Some(ids[i]);
                    for t in tokens.iter_mut() {
                        if t.remote == ids[i] && t.state == TState::InFlight {
                            t.state = TState::Dead;
                        }
                    }
                }
            }
            Ev::FetchCmd { repo, peer } => {
                let (tx, rx) = crossbeam_channel::unbounded();
                let rid = rids[*repo as usize];
                let p = ids[*peer as usize];
                chans.push(Chan { rid, peer: p, rx });
                cmd_chan = Some(chans.len() - 1);
                if tokens.iter().any(|t| t.rid == rid && t.state == TState::InFlight && t.remote != p) {
                    concurrent_interest = true;
                }
                lab.node.service.command(Command::Fetch(rid, p, std::time::Duration::from_secs(3), tx));
            }
            Ev::RefsAnn { peer, repo } => {
                let i = *peer as usize;
                if !lab.is_connected(i) {
                    continue;
                }
                counter = counter.wrapping_add(1);
                let ts = Timestamp::try_from(*lab.now_ts() + counter as u64).unwrap();
                let msg: AnnouncementMessage = RefsAnnouncement {
                    rid: rids[*repo as usize],
                    refs: vec![refs_at(ids[i], counter)].try_into().unwrap(),
                    timestamp: ts,
                }
                .into();
                let ann = msg.signed(&lab.remotes[i].signer);
                lab.deliver(i, Message::Announcement(ann));
            }
            Ev::Tick { class } => lab.elapse(TICKS[*class as usize]),
            Ev::Result { which, outcome } => {
                let deliverable: Vec<usize> =
                    tokens.iter().enumerate().filter(|(_, t)| t.state != TState::Done).map(|(i, _)| i).collect();
                if deliverable.is_empty() {
                    continue;
                }
                let tix = deliverable[(*which as usize).min(deliverable.len() - 1)];
                let t = tokens[tix].clone();
                let peer_ix = ids.iter().position(|p| *p == t.remote).unwrap();
                tokens[tix].state = TState::Done;
                if !lab.is_connected(peer_ix) {
                    // the wire drops results of peers that are not connected
                    ctx.count("result-dropped-by-wire(peer not connected)");
                    continue;
                }
                let was_dead = t.state == TState::Dead;
                if was_dead {
                    late_delivered = true;
                    ctx.count("late-result-delivered");
                }
                delivered_token = Some(tix);
                let repo_ix = rids.iter().position(|r| *r == t.rid).unwrap();
                let res: Result<fetch::FetchResult, FetchError> = match outcome {
                    0 => Ok(fetch::FetchResult {
                        updated: vec![],
                        namespaces: Default::default(),
                        clone: true,
                        doc: docs[repo_ix].clone(),
                    }),
                    1 => Err(FetchError::Io(std::io::Error::new(std::io::ErrorKind::Other, "failed"))),
                    _ => Err(FetchError::Io(std::io::Error::from(std::io::ErrorKind::TimedOut))),
                };
                let live_other: Option<Token> =
                    tokens.iter().find(|o| o.rid == t.rid && o.state == TState::InFlight).cloned();
                let r = catch(|| lab.node.service.fetched(t.rid, t.remote, res));
                if was_dead {
                    // A late result must not touch a live fetch of the same repository.
                    if let Some(live) = live_other {
                        let same = if live.remote == t.remote { "same-peer" } else { "other-peer" };
                        if let Err((loc, msg)) = &r {
                            return fail(
                                format!("late-result-applied:{same}"),
                                format!("step {step} {ev:?}: late result of {:?} hit the live fetch from {} (panic at {loc}: {msg})", t, live.remote),
                            );
                        }
                        // What the call emitted is looked at right away: a new fetch request for the
                        // repository means the service considered the live fetch finished (and
                        // dequeued the next one), even if the bookkeeping entry exists again.
                        stash.extend(lab.drain());
                        let restarted = stash.iter().any(|io| matches!(io, Io::Fetch { rid, .. } if *rid == t.rid));
                        let still = lab.node.fetching().get(&t.rid).map(|f| f.from);
                        if still != Some(live.remote) || restarted {
                            return fail(
                                format!("late-result-applied:{same}"),
                                format!(
                                    "step {step} {ev:?}: late result of a fetch of {} from {} completed the live fetch from {} (fetching[{}] = {:?} afterwards)",
                                    t.rid, t.remote, live.remote, t.rid, still
                                ),
                            );
                        }
                    }
                }
                if let Err((loc, msg)) = r {
                    return fail(format!("panic@{}", loc_file(&loc)), format!("step {step} {ev:?}: panic at {loc}: {msg}"));
                }
            }
        }

        // ---- observe the outbox in order, the way the wire executes it: a disconnect request
        // takes the peer down at once (the service hears about it right after), and a fetch
        // request for a peer that is not connected is dropped by the wire (no worker, no result).
        let mut queue: std::collections::VecDeque<Io> = stash;
        queue.extend(lab.drain());
        let mut down: Vec<NodeId> = vec![];
        while let Some(io) = queue.pop_front() {
            match io {
                Io::Disconnect(id, _) => {
                    if let Some(s) = lab.node.sessions().get(&id) {
                        let link = s.link;
                        let was_connected = s.is_connected();
                        down.push(id);
                        lab.node.service.disconnected(id, link, &DisconnectReason::connection());
                        if was_connected {
                            disconnected_peer = Some(id);
                            for t in tokens.iter_mut() {
                                if t.remote == id && t.state == TState::InFlight {
                                    t.state = TState::Dead;
                                }
                            }
                        }
                        queue.extend(lab.drain());
                    }
                }
                Io::Fetch { rid, remote, .. } => {
                    if down.contains(&remote) {
                        ctx.count("fetch-request-dropped-by-wire(peer went down first)");
                    } else {
                        tokens.push(Token { rid, remote, state: TState::InFlight });
                        ctx.count("fetch-started");
                    }
                }
                _ => {}
            }
        }

        // ---- invariants
        for rid in &rids {
            let live: Vec<&Token> = tokens.iter().filter(|t| t.rid == *rid && t.state == TState::InFlight).collect();
            ensure!(
                live.len() <= 1,
                "two-fetches-in-flight-for-one-repository",
                "step {step} {ev:?}: {} fetches of {rid} in flight: {:?}",
                live.len(),
                live
            );
        }
        for (i, p) in ids.iter().enumerate() {
            let live = tokens.iter().filter(|t| t.remote == *p && t.state == TState::InFlight).count();
            ensure!(
                live <= conc,
                "per-peer-fetch-concurrency-exceeded",
                "step {step} {ev:?}: {live} fetches in flight with peer {i}, limit {conc}"
            );
            if let Some(s) = lab.node.sessions().get(p) {
                ensure!(s.queue.len() <= 128, "fetch-queue-capacity-exceeded", "step {step}: queue length {}", s.queue.len());
                if s.queue.len() > 0 {
                    ctx.count("queued-fetch-present");
                }
            }
        }
        // channels: who got a result in this event
        for (ci, ch) in chans.iter().enumerate() {
            let got: Vec<CmdResult> = ch.rx.try_iter().collect();
            if got.is_empty() {
                continue;
            }
            // A success can only come from a worker result, and only for the fetch it belongs to.
            // (Failures may also come from disconnects, refused commands or dequeued fetches.)
            let success = got.iter().any(|g| matches!(g, CmdResult::Success { .. }));
            if success {
                let ok = delivered_token.map(|tix| ch.rid == tokens[tix].rid && ch.peer == tokens[tix].remote).unwrap_or(false);
                ensure!(
                    ok,
                    "success-sent-to-subscriber-of-another-fetch",
                    "step {step} {ev:?}: the channel of Fetch({}, {}) received {:?}",
                    ch.rid,
                    ch.peer,
                    got
                );
            }
            let _ = (ci, cmd_chan, disconnected_peer);
        }
        // classification: service bookkeeping vs model
        for (rid, from) in lab.node.fetching().iter().map(|(r, f)| (*r, f.from)) {
            if !tokens.iter().any(|t| t.rid == rid && t.remote == from && t.state == TState::InFlight) {
                ctx.count("classified:service-fetch-state-without-live-token");
            }
        }
        let _ = fetching_before;
    }
    if late_delivered {
        ctx.count("case:late-result-delivered");
    }
    if concurrent_interest {
        ctx.count("case:second-peer-wanted-same-repo");
    }
    if late_delivered || concurrent_interest {
        ctx.nontrivial(&c.events);
        ctx.sample("sequences", c);
    }
    Ok(())
}

/// Reduced alphabet for exhaustive enumeration: 2 peers, 1 repository (+1 for capacity), fixed outcomes.
fn alphabet() -> Vec<Ev> {
    vec![
        Ev::Connect { peer: 0, outbound: false },
        Ev::Connect { peer: 1, outbound: true },
        Ev::Disconnect { peer: 0, matching: true },
        Ev::Disconnect { peer: 1, matching: true },
        Ev::FetchCmd { repo: 0, peer: 0 },
        Ev::FetchCmd { repo: 0, peer: 1 },
        Ev::FetchCmd { repo: 1, peer: 0 },
        Ev::Result { which: 0, outcome: 0 },
        Ev::Result { which: 1, outcome: 1 },
        Ev::Tick { class: 1 },
    ]
}

fn sequences(depth: usize) -> impl Iterator<Item = Case> {
    let a = alphabet();
    let n = a.len();
    let total = (n as u64).pow(depth as u32);
    (0..total).map(move |mut k| {
        let mut events = Vec::with_capacity(depth + 1);
        // every sequence starts with peer 0 connected (saves one level)
        events.push(Ev::Connect { peer: 0, outbound: false });
        for _ in 0..depth {
            events.push(a[(k % n as u64) as usize].clone());
            k /= n as u64;
        }
        Case { seed: 1, concurrency: 1, events }
    })
}

fn run(ctx: &Ctx) {
    let strat = |max: usize| {
        (any::<u8>(), 1u8..=2, proptest::collection::vec(ev_strategy(), 1..max))
            .prop_map(|(seed, concurrency, events)| Case { seed, concurrency, events })
    };
    // Directed family: a fetch whose peer goes away, optional fetch of the same repository from
    // another peer, reconnect, optional new fetch, then the late result — with random noise events
    // inserted anywhere.
    let scenario = (
        (any::<u8>(), 1u8..=2),
        (0u8..3, 0u8..3, 0u8..2),
        (any::<bool>(), any::<bool>(), 0u8..3),
        proptest::collection::vec((any::<u16>(), ev_strategy()), 0..5),
    )
        .prop_map(|((seed, concurrency), (a, b, r), (other_fetch, refetch, outcome), noise)| {
            let mut events = vec![
                Ev::Connect { peer: a, outbound: false },
                Ev::FetchCmd { repo: r, peer: a },
                Ev::Disconnect { peer: a, matching: true },
            ];
            if other_fetch {
                events.push(Ev::Connect { peer: b, outbound: false });
                events.push(Ev::FetchCmd { repo: r, peer: b });
            }
            events.push(Ev::Connect { peer: a, outbound: false });
            if refetch {
                events.push(Ev::FetchCmd { repo: r, peer: a });
            }
            events.push(Ev::Result { which: 0, outcome });
            events.push(Ev::Result { which: 0, outcome: 0 });
            events.push(Ev::FetchCmd { repo: r, peer: b });
            events.push(Ev::Result { which: 0, outcome: 0 });
            for (pos, ev) in noise {
                let at = pick(pos, events.len() + 1);
                events.insert(at, ev);
            }
            Case { seed, concurrency, events }
        });
    ctx.run("late-result-scenarios", scenario, ctx.cases(1_600, 20_000), |c: &Case| check(ctx, c));
    let depth = if ctx.quick() { 3 } else { 5 };
    ctx.enumerate(&format!("exhaustive-depth{depth}"), sequences(depth), true, |c: &Case| check(ctx, c));
    ctx.run("sequences", strat(30), ctx.cases(1_600, 30_000), |c: &Case| check(ctx, c));
    ctx.run("short-sequences", strat(9), ctx.cases(1_600, 30_000), |c: &Case| check(ctx, c));
}
