//! C25 — Sync targets report success exactly when reached.
//!
//! Two stateful model-based checks (announcer, fetcher). The reference models
//! implement the property statement: the target is "every preferred seed
//! synced AND the replica bound" for the announcer, "every preferred seed
//! fetched OR the replica bound" for the fetcher (bound = upper bound for
//! ranges, as pinned by the crate's own tests); the local node is excluded
//! from every set, count and denominator; the fetcher never hands out the
//! local node or a node that already has a result.
use std::collections::{BTreeMap, BTreeSet, VecDeque};
use std::net::{Ipv4Addr, SocketAddr};
use std::ops::ControlFlow;
use std::time::Duration;

use proptest::prelude::*;
use radicle_crypto::test::signer::MockSigner;
use radicle_crypto::Signer as _;
use radicle::identity::doc::{Doc, Visibility};
use radicle::identity::project::{Project, ProjectName};
use radicle::identity::Did;
use radicle::node::sync::announce::{self, SuccessfulOutcome as AnnOutcome};
use radicle::node::sync::fetch::{self, Candidate, SuccessfulOutcome as FetchOutcome};
use radicle::node::sync::{
    Announcer, AnnouncerConfig, AnnouncerError, AnnouncerResult, Fetcher, FetcherConfig, FetcherError,
    FetcherResult, PrivateNetwork, ReplicationFactor,
};
use radicle::node::{Address, FetchResult, NodeId};
use serde::{Deserialize, Serialize};

use crate::core::*;
use crate::ensure;

pub const PROP: Prop = Prop {
    id: "C25",
    shards: (4, 16),
    level: "exploration",
    rule: "Announcer/fetcher configurations over a pool of 8 node ids (any of them may be the local node; \
           preferred/synced/unsynced/candidate sets are bitmasks or index lists, replica factors are \
           must_reach(0..6) or range(lo,hi)), followed by an arbitrary call sequence (synced_with / can_continue / \
           timed_out; next_node / ready_to_fetch / next_fetch / fetch_complete / fetch_failed / finish) that \
           includes the local node, unknown nodes and repeated nodes. After every call the return value and the \
           query surface (progress, to_sync, target, result sets) are compared with a reference model of the \
           statement. Non-trivial: the machine was constructed and (the local node occurs in a configured set or \
           in a result call, or a result for an unknown node is reported, or the target flips to reached during \
           the sequence). Distinct = hash of the whole case.",
    assumptions: &[
        "range replica factors are reached at their upper bound (ReplicationFactor docs and the crate's tests); \
         a final report with lower <= count < upper is a failure/timeout (counted, not judged)",
        "the effective replica target is the one the machine declares through target(); the check only requires \
         that it is not above the requested one and that its preferred set is the configured one minus the local node",
        "a caller reports at most one fetch result per node (the fetcher never hands out a node that has a result); \
         a second result for the same node is outside the domain and skipped",
        "any non-local node that reports a result counts as a replica, whether or not it was a configured candidate",
        "Announcer::progress().unsynced() is not part of the statement and is only classified",
    ],
    run,
    budget_s: (600, 7200),
};

const POOL: usize = 8;

fn pool() -> Vec<NodeId> {
    (0..POOL)
        .map(|i| {
            let mut seed = [0u8; 32];
            seed[0] = 0xC2;
            seed[1] = 0x50 + i as u8;
            *MockSigner::from_seed(seed).public_key()
        })
        .collect()
}

#[derive(Debug, Clone, Copy, Serialize, Deserialize, Hash, PartialEq, Eq)]
pub enum Repl {
    Must(u8),
    Range(u8, u8),
}

impl Repl {
    fn build(self) -> ReplicationFactor {
        match self {
            Repl::Must(k) => ReplicationFactor::must_reach(k as usize),
            Repl::Range(lo, hi) => ReplicationFactor::range(lo as usize, hi as usize),
        }
    }
    /// (lower, upper) as requested, after the documented normalisation of `range`.
    fn requested(self) -> (usize, Option<usize>) {
        match self {
            Repl::Must(k) => (k as usize, None),
            Repl::Range(lo, hi) if lo >= hi => (lo as usize, None),
            Repl::Range(lo, hi) => (lo as usize, Some(hi as usize)),
        }
    }
    fn requested_bound(self) -> usize {
        let (lo, hi) = self.requested();
        hi.unwrap_or(lo)
    }
}

fn bound_of(r: &ReplicationFactor) -> usize {
    r.upper_bound().unwrap_or(r.lower_bound())
}

fn set_of(pool: &[NodeId], mask: u8) -> BTreeSet<NodeId> {
    (0..POOL).filter(|i| mask >> i & 1 == 1).map(|i| pool[i]).collect()
}

fn private_network(pool: &[NodeId], mask: u8) -> PrivateNetwork {
    // The only public constructor goes through an identity document: make every
    // pool node allowed, then restrict to the wanted subset.
    let project = Project::new(
        ProjectName::try_from("c25").expect("project name"),
        String::new(),
        radicle::git::RefString::try_from("master").expect("branch name"),
    )
    .expect("project");
    let allow = pool.iter().map(|n| Did::from(*n));
    let doc = Doc::initial(project, Did::from(pool[0]), Visibility::private(allow));
    let keep = set_of(pool, mask);
    PrivateNetwork::private_repo(&doc).expect("private doc").restrict(|n| keep.contains(n))
}

// ---------------------------------------------------------------------------
// Announcer
// ---------------------------------------------------------------------------

#[derive(Debug, Clone, Serialize, Deserialize, Hash)]
pub enum AnnOp {
    /// `synced_with(pool[i])`
    Synced(u8),
    /// `can_continue()`
    CanContinue,
}

#[derive(Debug, Clone, Serialize, Deserialize, Hash)]
pub struct AnnCase {
    local: u8,
    private: bool,
    replicas: Repl,
    preferred: u8,
    synced: u8,
    unsynced: u8,
    ops: Vec<AnnOp>,
}

fn check_announcer(ctx: &Ctx, c: &AnnCase) -> CaseResult {
    let pool = pool();
    let local = pool[c.local as usize % POOL];
    let local_bit = 1u8 << (c.local as usize % POOL);
    let (pref_mask, synced_mask, unsynced_mask) =
        if c.private { (c.unsynced, 0, c.unsynced) } else { (c.preferred, c.synced, c.unsynced) };
    let config = if c.private {
        AnnouncerConfig::private(local, c.replicas.build(), private_network(&pool, c.unsynced))
    } else {
        AnnouncerConfig::public(
            local,
            c.replicas.build(),
            set_of(&pool, c.preferred),
            set_of(&pool, c.synced),
            set_of(&pool, c.unsynced),
        )
    };
    // --- model of the configuration: the local node is in no set
    let p: BTreeSet<NodeId> = set_of(&pool, pref_mask & !local_bit);
    let s0: BTreeSet<NodeId> = set_of(&pool, synced_mask & !local_bit);
    let u0: BTreeSet<NodeId> = set_of(&pool, unsynced_mask & !local_bit);
    let local_in_config = (pref_mask | synced_mask | unsynced_mask) & local_bit != 0;
    let mut m_synced: BTreeSet<NodeId> = s0.clone();
    let mut m_to_sync: BTreeSet<NodeId> = u0.union(&p.difference(&s0).copied().collect()).copied().collect();
    let (req_lo, _) = c.replicas.requested();

    ctx.count(if c.private { "ann:config-private" } else { "ann:config-public" });
    if local_in_config {
        ctx.count("ann:local-in-config");
    }

    let mut ann = match Announcer::new(config) {
        Err(AnnouncerError::NoSeeds) => {
            ctx.count("ann:new=NoSeeds");
            ensure!(
                s0.is_empty() && u0.is_empty(),
                "announcer:new:NoSeeds-but-seeds",
                "NoSeeds with synced {s0:?} unsynced {u0:?} (local excluded)"
            );
            return Ok(());
        }
        Err(AnnouncerError::Target(_)) => {
            ctx.count("ann:new=TargetError");
            ensure!(
                p.is_empty() && req_lo == 0,
                "announcer:new:TargetError-but-target",
                "TargetError with preferred {p:?} and requested lower bound {req_lo}"
            );
            return Ok(());
        }
        Err(AnnouncerError::AlreadySynced(a)) => {
            ctx.count("ann:new=AlreadySynced");
            ensure!(
                !(s0.is_empty() && u0.is_empty()),
                "announcer:new:AlreadySynced-but-no-seeds",
                "AlreadySynced although there are no seeds at all"
            );
            ensure!(
                a.synced() == s0.len(),
                "announcer:new:AlreadySynced-synced-count",
                "AlreadySynced.synced = {} but {} non-local nodes are synced",
                a.synced(),
                s0.len()
            );
            ensure!(
                a.preferred() == s0.intersection(&p).count(),
                "announcer:new:AlreadySynced-preferred-count",
                "AlreadySynced.preferred = {} but {} preferred non-local nodes are synced",
                a.preferred(),
                s0.intersection(&p).count()
            );
            if !u0.is_empty() {
                // There are nodes left to sync with: "already synced" is only
                // truthful if the target is met by the already synced nodes.
                // The announcer clamps the replica target to the number of
                // nodes left to sync (N.b. in `new`, pinned by the test
                // `announcer_will_minimise_replication_factor`).
                let (lo, hi) = c.replicas.requested();
                let avail = m_to_sync.len();
                let bound = match hi {
                    None => lo.min(avail),
                    Some(hi) => {
                        let hi = hi.min(avail);
                        if lo >= hi {
                            lo
                        } else {
                            hi
                        }
                    }
                };
                ensure!(
                    p.is_subset(&s0),
                    "announcer:new:AlreadySynced-preferred-missing",
                    "AlreadySynced but preferred seeds {:?} are not synced",
                    p.difference(&s0).collect::<Vec<_>>()
                );
                ensure!(
                    s0.len() >= bound,
                    "announcer:new:AlreadySynced-below-replicas",
                    "AlreadySynced with {} synced nodes, replica bound {bound}",
                    s0.len()
                );
                if s0.len() < c.replicas.requested_bound() {
                    ctx.count("ann:already-synced-below-requested-replicas(clamped)");
                }
            } else {
                ctx.count("ann:already-synced:nothing-to-sync");
            }
            return Ok(());
        }
        Ok(a) => a,
    };
    ctx.count("ann:new=Ok");

    // --- declared target
    let declared_pref = ann.target().preferred_seeds().clone();
    let declared = *ann.target().replicas();
    ensure!(
        !declared_pref.contains(&local),
        "announcer:target-contains-local",
        "the local node is part of the preferred-seed target"
    );
    ensure!(
        declared_pref == p,
        "announcer:target-preferred-set",
        "target preferred seeds {declared_pref:?}, configured (minus local) {p:?}"
    );
    let bound = bound_of(&declared);
    ensure!(
        bound <= c.replicas.requested_bound(),
        "announcer:target-replicas-above-requested",
        "declared replica bound {bound} above requested {}",
        c.replicas.requested_bound()
    );
    if bound < c.replicas.requested_bound() {
        ctx.count("ann:replicas-clamped");
    }
    ensure!(
        !(p.is_empty() && declared.lower_bound() == 0),
        "announcer:new:empty-target-accepted",
        "constructed with no preferred seeds and a zero replica target"
    );
    ensure!(!u0.is_empty(), "announcer:new:Ok-without-unsynced", "constructed with nothing to sync");
    let reached = |synced: &BTreeSet<NodeId>| p.is_subset(synced) && synced.len() >= bound;
    ensure!(
        !reached(&m_synced),
        "announcer:new:Ok-but-target-already-reached",
        "constructed although synced {m_synced:?} already meets preferred {p:?} / bound {bound}"
    );

    let surface = |ann: &Announcer, m_synced: &BTreeSet<NodeId>, m_to_sync: &BTreeSet<NodeId>| -> CaseResult {
        let ts = ann.to_sync();
        ensure!(!ts.contains(&local), "announcer:to_sync-contains-local", "to_sync() contains the local node");
        ensure!(&ts == m_to_sync, "announcer:to_sync", "to_sync() = {ts:?}, model {m_to_sync:?}");
        let pr = ann.progress();
        ensure!(
            pr.synced() == m_synced.len(),
            "announcer:progress-synced",
            "progress.synced = {}, model {}",
            pr.synced(),
            m_synced.len()
        );
        ensure!(
            pr.preferred() == m_synced.intersection(&p).count(),
            "announcer:progress-preferred",
            "progress.preferred = {}, model {}",
            pr.preferred(),
            m_synced.intersection(&p).count()
        );
        if pr.unsynced() != m_to_sync.len() {
            ctx.count("ann:observation:progress.unsynced != |to_sync|");
        }
        Ok(())
    };
    surface(&ann, &m_synced, &m_to_sync)?;

    let mut flipped = false;
    let mut local_result = false;
    let mut unknown_result = false;
    let mut was_reached = false;
    let keys = |m: &BTreeMap<NodeId, announce::SyncStatus>| m.keys().copied().collect::<BTreeSet<_>>();

    for (step, op) in c.ops.iter().enumerate() {
        match op {
            AnnOp::Synced(i) => {
                let node = pool[*i as usize % POOL];
                if node == local {
                    local_result = true;
                    ctx.count("ann:op:synced_with(local)");
                } else {
                    if !m_synced.contains(&node) && !m_to_sync.contains(&node) {
                        unknown_result = true;
                        ctx.count("ann:op:synced_with(unknown)");
                    } else if m_synced.contains(&node) {
                        ctx.count("ann:op:synced_with(already-synced)");
                    } else {
                        ctx.count("ann:op:synced_with(to-sync)");
                    }
                    m_to_sync.remove(&node);
                    m_synced.insert(node);
                }
                let now_reached = reached(&m_synced);
                match ann.synced_with(node, Duration::from_millis(step as u64 + 1)) {
                    ControlFlow::Continue(pr) => {
                        if node != local {
                            ensure!(
                                !now_reached,
                                "announcer:synced_with:target-reached-but-continue",
                                "step {step}: synced {m_synced:?} meets preferred {p:?} and bound {bound} but Continue"
                            );
                        }
                        ensure!(
                            pr.synced() == m_synced.len() && pr.preferred() == m_synced.intersection(&p).count(),
                            "announcer:synced_with:progress-counts",
                            "step {step}: progress synced/preferred {}/{}, model {}/{}",
                            pr.synced(),
                            pr.preferred(),
                            m_synced.len(),
                            m_synced.intersection(&p).count()
                        );
                    }
                    ControlFlow::Break(success) => {
                        ensure!(
                            node != local,
                            "announcer:synced_with:local-node-counted",
                            "step {step}: synced_with(local) reported success"
                        );
                        ensure!(
                            now_reached,
                            "announcer:synced_with:success-but-target-not-reached",
                            "step {step}: Success with synced {m_synced:?}, preferred {p:?}, bound {bound}"
                        );
                        let got = keys(success.synced());
                        ensure!(
                            !got.contains(&local),
                            "announcer:success-contains-local",
                            "step {step}: success.synced contains the local node"
                        );
                        ensure!(
                            got == m_synced,
                            "announcer:success-synced-set",
                            "step {step}: success.synced {got:?}, model {m_synced:?}"
                        );
                        let (op_, os) = match success.outcome() {
                            AnnOutcome::MinReplicationFactor { preferred, synced } => (preferred, synced),
                            AnnOutcome::MaxReplicationFactor { preferred, synced } => (preferred, synced),
                        };
                        ensure!(
                            op_ == m_synced.intersection(&p).count() && os == m_synced.len(),
                            "announcer:success-outcome-counts",
                            "step {step}: outcome counts {op_}/{os}, model {}/{}",
                            m_synced.intersection(&p).count(),
                            m_synced.len()
                        );
                        if !was_reached {
                            flipped = true;
                        }
                    }
                }
                was_reached = now_reached;
                surface(&ann, &m_synced, &m_to_sync)?;
            }
            AnnOp::CanContinue => {
                ctx.count("ann:op:can_continue");
                match ann.can_continue() {
                    ControlFlow::Continue(a) => {
                        ensure!(
                            !m_to_sync.is_empty(),
                            "announcer:can_continue:continue-without-nodes",
                            "step {step}: can_continue() = Continue with nothing left to sync"
                        );
                        ann = a;
                    }
                    ControlFlow::Break(no) => {
                        ensure!(
                            m_to_sync.is_empty(),
                            "announcer:can_continue:no-nodes-but-nodes-left",
                            "step {step}: NoNodes but {m_to_sync:?} left"
                        );
                        let got = keys(no.synced());
                        ensure!(
                            got == m_synced && !got.contains(&local),
                            "announcer:no-nodes-synced-set",
                            "step {step}: NoNodes.synced {got:?}, model {m_synced:?}"
                        );
                        if reached(&m_synced) {
                            ctx.count("ann:no-nodes-after-ignored-success");
                        } else {
                            ctx.count("ann:end=NoNodes");
                        }
                        // a fresh handle is gone; stop here
                        if local_in_config || local_result || unknown_result || flipped {
                            ctx.nontrivial(c);
                        }
                        return Ok(());
                    }
                }
            }
        }
    }

    // --- final report
    let model_reached = reached(&m_synced);
    if !model_reached {
        let (lo, hi) = (declared.lower_bound(), declared.upper_bound());
        if hi.is_some() && m_synced.len() >= lo && p.is_subset(&m_synced) {
            ctx.count("ann:final-between-lower-and-upper(gray zone, reported as timeout)");
        }
    }
    match ann.timed_out() {
        AnnouncerResult::Success(s) => {
            ctx.count("ann:end=Success");
            ensure!(
                model_reached,
                "announcer:timed_out:success-but-target-not-reached",
                "timed_out() = Success with synced {m_synced:?}, preferred {p:?}, bound {bound}"
            );
            let got = keys(s.synced());
            ensure!(
                got == m_synced && !got.contains(&local),
                "announcer:success-synced-set",
                "final success.synced {got:?}, model {m_synced:?}"
            );
        }
        AnnouncerResult::TimedOut(t) => {
            ctx.count("ann:end=TimedOut");
            ensure!(
                !model_reached,
                "announcer:timed_out:target-reached-but-timeout",
                "timed_out() = TimedOut although synced {m_synced:?} meets preferred {p:?} and bound {bound}"
            );
            let got = keys(t.synced());
            ensure!(
                got == m_synced && !got.contains(&local),
                "announcer:timed-out-synced-set",
                "TimedOut.synced {got:?}, model {m_synced:?}"
            );
            ensure!(
                t.timed_out() == &m_to_sync && !t.timed_out().contains(&local),
                "announcer:timed-out-set",
                "TimedOut.timed_out {:?}, model {m_to_sync:?}",
                t.timed_out()
            );
        }
        AnnouncerResult::NoNodes(_) => {
            return fail("announcer:timed_out:no-nodes", "timed_out() returned NoNodes");
        }
    }
    if local_in_config || local_result || unknown_result || flipped {
        ctx.nontrivial(c);
        ctx.sample("announcer", c);
    }
    if flipped {
        ctx.count("ann:target-flipped-to-reached");
    }
    Ok(())
}

// ---------------------------------------------------------------------------
// Fetcher
// ---------------------------------------------------------------------------

#[derive(Debug, Clone, Serialize, Deserialize, Hash)]
pub enum FetchOp {
    NextNode,
    /// `ready_to_fetch(pool[i], addr)`
    Ready(u8),
    /// `ready_to_fetch` of the node handed out by the most recent `next_node`, if any
    ReadyLast,
    NextFetch,
    /// `fetch_complete(pool[i], success?)`
    Complete(u8, bool),
    /// `fetch_complete` for the node handed out by the most recent `next_fetch`, if any
    CompleteLast(bool),
    /// `fetch_failed(pool[i], ..)`
    Failed(u8),
    /// `fetch_failed` for the node handed out by the most recent `next_node`, if any
    FailedLast,
}

#[derive(Debug, Clone, Serialize, Deserialize, Hash)]
pub struct FetchCase {
    local: u8,
    private: bool,
    replicas: Repl,
    seeds: u8,
    /// extra candidates (pool indices, in order, duplicates allowed); `None` = `with_candidates` not called
    extra: Option<Vec<u8>>,
    ops: Vec<FetchOp>,
}

fn ok_result() -> FetchResult {
    FetchResult::Success { updated: vec![], namespaces: Default::default(), clone: false }
}

fn check_fetcher(ctx: &Ctx, c: &FetchCase) -> CaseResult {
    let pool = pool();
    let li = c.local as usize % POOL;
    let local = pool[li];
    let local_bit = 1u8 << li;
    let seeds = set_of(&pool, c.seeds);
    let mut config = if c.private {
        FetcherConfig::private(private_network(&pool, c.seeds), c.replicas.build(), local)
    } else {
        FetcherConfig::public(seeds.clone(), c.replicas.build(), local)
    };
    let extra: Vec<NodeId> = c.extra.iter().flatten().map(|i| pool[*i as usize % POOL]).collect();
    if c.extra.is_some() {
        config = config.with_candidates(extra.iter().copied().map(Candidate::new));
    }
    // --- model of the configuration
    let p: BTreeSet<NodeId> = set_of(&pool, c.seeds & !local_bit);
    let mut m_candidates: VecDeque<NodeId> =
        seeds.iter().chain(extra.iter()).copied().filter(|n| *n != local).collect();
    let configured: BTreeSet<NodeId> = m_candidates.iter().copied().collect();
    let local_in_config = c.seeds & local_bit != 0 || extra.contains(&local);
    let (req_lo, _) = c.replicas.requested();
    ctx.count(if c.private { "fetch:config-private" } else { "fetch:config-public" });
    if c.seeds & local_bit != 0 {
        ctx.count("fetch:local-in-seeds");
    }
    if extra.contains(&local) {
        ctx.count("fetch:local-in-extra-candidates");
    }

    let mut f = match Fetcher::new(config) {
        Err(FetcherError::NoCandidates) => {
            ctx.count("fetch:new=NoCandidates");
            ensure!(
                m_candidates.is_empty(),
                "fetcher:new:NoCandidates-but-candidates",
                "NoCandidates with candidates {m_candidates:?}"
            );
            return Ok(());
        }
        Err(FetcherError::Target(_)) => {
            ctx.count("fetch:new=TargetError");
            ensure!(
                p.is_empty() && req_lo == 0,
                "fetcher:new:TargetError-but-target",
                "TargetError with preferred {p:?} and requested lower bound {req_lo}"
            );
            return Ok(());
        }
        Err(_) => return fail("fetcher:new:unknown-error", "unknown FetcherError variant"),
        Ok(f) => f,
    };
    ctx.count("fetch:new=Ok");
    ensure!(!m_candidates.is_empty(), "fetcher:new:Ok-without-candidates", "constructed without candidates");

    let declared_pref = f.target().preferred_seeds().clone();
    let declared = *f.target().replicas();
    ensure!(
        !declared_pref.contains(&local),
        "fetcher:target-contains-local",
        "the local node is part of the preferred-seed target {declared_pref:?}"
    );
    ensure!(
        declared_pref == p,
        "fetcher:target-preferred-set",
        "target preferred seeds {declared_pref:?}, configured (minus local) {p:?}"
    );
    let bound = bound_of(&declared);
    ensure!(
        bound <= c.replicas.requested_bound(),
        "fetcher:target-replicas-above-requested",
        "declared replica bound {bound} above requested {}",
        c.replicas.requested_bound()
    );
    if bound < c.replicas.requested_bound() {
        ctx.count("fetch:replicas-clamped");
    }
    ensure!(
        !(p.is_empty() && declared.lower_bound() == 0),
        "fetcher:new:empty-target-accepted",
        "constructed with no preferred seeds and a zero replica target"
    );

    // --- model state
    let mut m_ready: VecDeque<(NodeId, u16)> = VecDeque::new();
    let mut m_ok: BTreeSet<NodeId> = BTreeSet::new();
    let mut m_failed: BTreeSet<NodeId> = BTreeSet::new();
    let reached = |ok: &BTreeSet<NodeId>| (!p.is_empty() && p.is_subset(ok)) || ok.len() >= bound;

    let surface = |f: &Fetcher,
                   m_candidates: &VecDeque<NodeId>,
                   m_ok: &BTreeSet<NodeId>,
                   m_failed: &BTreeSet<NodeId>|
     -> CaseResult {
        let pr = f.progress();
        ensure!(
            pr.succeeded() == m_ok.len(),
            "fetcher:progress-succeeded",
            "progress.succeeded = {}, model {} (local excluded)",
            pr.succeeded(),
            m_ok.len()
        );
        ensure!(
            pr.failed() == m_failed.len(),
            "fetcher:progress-failed",
            "progress.failed = {}, model {} (local excluded)",
            pr.failed(),
            m_failed.len()
        );
        ensure!(
            pr.preferred() == m_ok.intersection(&p).count(),
            "fetcher:progress-preferred",
            "progress.preferred = {}, model {}",
            pr.preferred(),
            m_ok.intersection(&p).count()
        );
        ensure!(
            pr.candidate() == m_candidates.len(),
            "fetcher:progress-candidate",
            "progress.candidate = {}, model {}",
            pr.candidate(),
            m_candidates.len()
        );
        Ok(())
    };
    surface(&f, &m_candidates, &m_ok, &m_failed)?;

    let check_success = |what: &str,
                         s: &fetch::Success,
                         m_ok: &BTreeSet<NodeId>,
                         m_failed: &BTreeSet<NodeId>|
     -> CaseResult {
        let res: Vec<NodeId> = s.fetch_results().iter().map(|(n, _)| *n).collect();
        ensure!(
            !res.contains(&local),
            format!("fetcher:{what}:results-contain-local"),
            "fetch results contain the local node"
        );
        let ok: BTreeSet<NodeId> = s.fetch_results().success().map(|(n, _, _)| *n).collect();
        let failed: BTreeSet<NodeId> = s.fetch_results().failed().map(|(n, _)| *n).collect();
        ensure!(
            &ok == m_ok && &failed == m_failed,
            format!("fetcher:{what}:results"),
            "results ok {ok:?} failed {failed:?}, model ok {m_ok:?} failed {m_failed:?}"
        );
        match s.outcome() {
            FetchOutcome::PreferredNodes { preferred } => {
                ensure!(
                    !p.is_empty() && p.is_subset(m_ok) && *preferred == p.len(),
                    format!("fetcher:{what}:outcome-preferred"),
                    "PreferredNodes {{ {preferred} }} with preferred {p:?} and succeeded {m_ok:?}"
                );
            }
            FetchOutcome::MinReplicas { succeeded } => {
                ensure!(
                    *succeeded == m_ok.len() && m_ok.len() >= bound,
                    format!("fetcher:{what}:outcome-replicas"),
                    "MinReplicas {{ {succeeded} }}, model succeeded {} bound {bound}",
                    m_ok.len()
                );
            }
            FetchOutcome::MaxReplicas { succeeded, .. } => {
                ensure!(
                    *succeeded == m_ok.len() && m_ok.len() >= bound,
                    format!("fetcher:{what}:outcome-replicas"),
                    "MaxReplicas {{ {succeeded} }}, model succeeded {} bound {bound}",
                    m_ok.len()
                );
            }
        }
        Ok(())
    };

    let mut last_node: Option<NodeId> = None;
    let mut last_fetch: Option<NodeId> = None;
    let mut local_result = false;
    let mut unknown_result = false;
    let mut flipped = false;
    let mut was_reached = reached(&m_ok);
    let mut port: u16 = 1000;

    for (step, op) in c.ops.iter().enumerate() {
        // resolve *Last ops to concrete ones
        let op = match op {
            FetchOp::ReadyLast => match last_node {
                Some(n) => FetchOp::Ready(pool.iter().position(|x| *x == n).unwrap() as u8),
                None => continue,
            },
            FetchOp::FailedLast => match last_node.take() {
                Some(n) => FetchOp::Failed(pool.iter().position(|x| *x == n).unwrap() as u8),
                None => continue,
            },
            FetchOp::CompleteLast(ok) => match last_fetch.take() {
                Some(n) => FetchOp::Complete(pool.iter().position(|x| *x == n).unwrap() as u8, *ok),
                None => continue,
            },
            other => other.clone(),
        };
        match op {
            FetchOp::NextNode => {
                ctx.count("fetch:op:next_node");
                let mut expect = None;
                while let Some(n) = m_candidates.pop_front() {
                    if n != local && !m_ok.contains(&n) && !m_failed.contains(&n) {
                        expect = Some(n);
                        break;
                    }
                    ctx.count("fetch:next_node-skipped-candidate-with-result");
                }
                let got = f.next_node();
                if let Some(n) = got {
                    ensure!(n != local, "fetcher:next_node:hands-out-local", "step {step}: next_node() = local node");
                    ensure!(
                        !m_ok.contains(&n) && !m_failed.contains(&n),
                        "fetcher:next_node:hands-out-node-with-result",
                        "step {step}: next_node() = {n}, which already has a result"
                    );
                }
                ensure!(
                    got == expect,
                    "fetcher:next_node:order",
                    "step {step}: next_node() = {got:?}, model {expect:?}"
                );
                last_node = got;
            }
            FetchOp::Ready(i) => {
                let node = pool[i as usize % POOL];
                ctx.count(if node == local { "fetch:op:ready(local)" } else { "fetch:op:ready" });
                port += 1;
                let addr = Address::from(SocketAddr::from((Ipv4Addr::LOCALHOST, port)));
                f.ready_to_fetch(node, addr);
                m_ready.push_back((node, port));
            }
            FetchOp::NextFetch => {
                ctx.count("fetch:op:next_fetch");
                let expect = m_ready
                    .pop_front()
                    .filter(|(n, _)| *n != local && !m_ok.contains(n) && !m_failed.contains(n));
                let got = f.next_fetch();
                if let Some((n, _)) = &got {
                    ensure!(*n != local, "fetcher:next_fetch:hands-out-local", "step {step}: next_fetch() = local node");
                    ensure!(
                        !m_ok.contains(n) && !m_failed.contains(n),
                        "fetcher:next_fetch:hands-out-node-with-result",
                        "step {step}: next_fetch() = {n}, which already has a result"
                    );
                }
                let got_np = got.as_ref().map(|(n, a)| (*n, a.to_string()));
                let exp_np = expect.map(|(n, port)| {
                    (n, Address::from(SocketAddr::from((Ipv4Addr::LOCALHOST, port))).to_string())
                });
                ensure!(
                    got_np == exp_np,
                    "fetcher:next_fetch:order",
                    "step {step}: next_fetch() = {got_np:?}, model {exp_np:?}"
                );
                last_fetch = got.map(|(n, _)| n);
                if last_fetch.is_some() {
                    ctx.count("fetch:next_fetch=Some");
                }
            }
            FetchOp::Complete(i, ok) => {
                let node = pool[i as usize % POOL];
                if m_ok.contains(&node) || m_failed.contains(&node) {
                    ctx.count("fetch:skipped-second-result-for-node");
                    continue;
                }
                if node == local {
                    local_result = true;
                    ctx.count("fetch:op:fetch_complete(local)");
                } else {
                    if !configured.contains(&node) {
                        unknown_result = true;
                        ctx.count("fetch:op:fetch_complete(unknown)");
                    } else {
                        ctx.count("fetch:op:fetch_complete(candidate)");
                    }
                    if ok {
                        m_ok.insert(node);
                    } else {
                        m_failed.insert(node);
                    }
                }
                let now_reached = reached(&m_ok);
                let result = if ok { ok_result() } else { FetchResult::Failed { reason: "c25".into() } };
                match f.fetch_complete(node, result) {
                    ControlFlow::Continue(pr) => {
                        // a result for the local node is not counted: it may be answered with the
                        // unchanged progress even if the target was reached before
                        ensure!(
                            !now_reached || node == local,
                            "fetcher:fetch_complete:target-reached-but-continue",
                            "step {step}: succeeded {m_ok:?} meets preferred {p:?} or bound {bound}, but Continue"
                        );
                        ensure!(
                            pr.succeeded() == m_ok.len() && pr.failed() == m_failed.len(),
                            "fetcher:fetch_complete:progress-counts",
                            "step {step}: progress {}/{} model {}/{}",
                            pr.succeeded(),
                            pr.failed(),
                            m_ok.len(),
                            m_failed.len()
                        );
                    }
                    ControlFlow::Break(s) => {
                        ensure!(
                            now_reached,
                            "fetcher:fetch_complete:success-but-target-not-reached",
                            "step {step}: Success with succeeded {m_ok:?}, preferred {p:?}, bound {bound}"
                        );
                        check_success("fetch_complete", &s, &m_ok, &m_failed)?;
                        if !was_reached {
                            flipped = true;
                        }
                    }
                }
                was_reached = now_reached;
            }
            FetchOp::Failed(i) => {
                let node = pool[i as usize % POOL];
                if m_ok.contains(&node) || m_failed.contains(&node) {
                    ctx.count("fetch:skipped-second-result-for-node");
                    continue;
                }
                if node == local {
                    local_result = true;
                    ctx.count("fetch:op:fetch_failed(local)");
                } else {
                    ctx.count("fetch:op:fetch_failed");
                    m_failed.insert(node);
                }
                f.fetch_failed(node, "c25: could not connect");
            }
            FetchOp::ReadyLast | FetchOp::FailedLast | FetchOp::CompleteLast(_) => unreachable!(),
        }
        surface(&f, &m_candidates, &m_ok, &m_failed)?;
    }

    // --- final report
    let model_reached = reached(&m_ok);
    if !model_reached && declared.upper_bound().is_some() && m_ok.len() >= declared.lower_bound() {
        ctx.count("fetch:final-between-lower-and-upper(gray zone, reported as error)");
    }
    match f.finish() {
        FetcherResult::TargetReached(s) => {
            ctx.count("fetch:end=TargetReached");
            ensure!(
                model_reached,
                "fetcher:finish:success-but-target-not-reached",
                "finish() = TargetReached with succeeded {m_ok:?}, preferred {p:?}, bound {bound}"
            );
            check_success("finish", &s, &m_ok, &m_failed)?;
        }
        FetcherResult::TargetError(t) => {
            ctx.count("fetch:end=TargetError");
            ensure!(
                !model_reached,
                "fetcher:finish:target-reached-but-error",
                "finish() = TargetError although succeeded {m_ok:?} meets preferred {p:?} or bound {bound}"
            );
            let res: Vec<NodeId> = t.fetch_results().iter().map(|(n, _)| *n).collect();
            ensure!(
                !res.contains(&local),
                "fetcher:finish:results-contain-local",
                "fetch results contain the local node"
            );
            let missed: BTreeSet<NodeId> = p.difference(&m_ok).copied().collect();
            ensure!(
                !t.missed_nodes().contains(&local),
                "fetcher:finish:missed-contains-local",
                "missed nodes contain the local node"
            );
            ensure!(
                t.missed_nodes() == &missed,
                "fetcher:finish:missed-nodes",
                "missed nodes {:?}, model {missed:?}",
                t.missed_nodes()
            );
            ensure!(
                t.required_nodes() == declared.lower_bound().saturating_sub(m_ok.len()),
                "fetcher:finish:required-nodes",
                "required_nodes {} with lower bound {} and {} succeeded",
                t.required_nodes(),
                declared.lower_bound(),
                m_ok.len()
            );
            ensure!(
                t.progress().succeeded() == m_ok.len() && t.progress().failed() == m_failed.len(),
                "fetcher:finish:progress-counts",
                "final progress {}/{}, model {}/{}",
                t.progress().succeeded(),
                t.progress().failed(),
                m_ok.len(),
                m_failed.len()
            );
        }
    }
    if flipped {
        ctx.count("fetch:target-flipped-to-reached");
    }
    if local_in_config || local_result || unknown_result || flipped {
        ctx.nontrivial(c);
        ctx.sample("fetcher", c);
    }
    Ok(())
}

// ---------------------------------------------------------------------------
// Generators
// ---------------------------------------------------------------------------

fn repl() -> impl Strategy<Value = Repl> {
    prop_oneof![
        4 => (0u8..=5).prop_map(Repl::Must),
        3 => (0u8..=3, 0u8..=6).prop_map(|(lo, hi)| Repl::Range(lo, hi)),
    ]
}

/// Masks biased to small sets (a few nodes) but covering all 256 values.
fn mask() -> impl Strategy<Value = u8> {
    prop_oneof![
        1 => Just(0u8),
        4 => (any::<u8>(), any::<u8>()).prop_map(|(a, b)| a & b),
        2 => any::<u8>(),
    ]
}

fn ann_case(max_ops: usize) -> impl Strategy<Value = AnnCase> {
    let op = prop_oneof![
        6 => (0u8..POOL as u8).prop_map(AnnOp::Synced),
        1 => Just(AnnOp::CanContinue),
    ];
    (0u8..POOL as u8, prop::bool::weighted(0.25), repl(), mask(), mask(), mask(), prop::collection::vec(op, 0..max_ops))
        .prop_map(|(local, private, replicas, preferred, synced, unsynced, ops)| AnnCase {
            local,
            private,
            replicas,
            preferred,
            // synced and unsynced are disjoint in real use (a seed is one or the other)
            synced: synced & !unsynced,
            unsynced,
            ops,
        })
}

fn fetch_case(max_ops: usize) -> impl Strategy<Value = FetchCase> {
    let idx = 0u8..POOL as u8;
    let op = prop_oneof![
        4 => Just(FetchOp::NextNode),
        3 => Just(FetchOp::ReadyLast),
        1 => idx.clone().prop_map(FetchOp::Ready),
        4 => Just(FetchOp::NextFetch),
        4 => any::<bool>().prop_map(FetchOp::CompleteLast),
        2 => (idx.clone(), any::<bool>()).prop_map(|(i, ok)| FetchOp::Complete(i, ok)),
        1 => idx.clone().prop_map(FetchOp::Failed),
        1 => Just(FetchOp::FailedLast),
    ];
    (
        0u8..POOL as u8,
        prop::bool::weighted(0.3),
        repl(),
        mask(),
        prop::option::weighted(0.7, prop::collection::vec(idx, 0..6)),
        prop::collection::vec(op, 0..max_ops),
    )
        .prop_map(|(local, private, replicas, seeds, extra, ops)| FetchCase { local, private, replicas, seeds, extra, ops })
}

// ---------------------------------------------------------------------------
// Exhaustive small spaces (pool restricted to nodes 0..4, local = node 0)
// ---------------------------------------------------------------------------

const SMALL_REPL: &[Repl] = &[
    Repl::Must(0),
    Repl::Must(1),
    Repl::Must(2),
    Repl::Must(3),
    Repl::Range(0, 1),
    Repl::Range(0, 2),
    Repl::Range(1, 2),
    Repl::Range(1, 3),
    Repl::Range(2, 3),
];

fn perms4() -> Vec<[u8; 4]> {
    let mut out = vec![];
    for a in 0..4u8 {
        for b in 0..4u8 {
            for c in 0..4u8 {
                for d in 0..4u8 {
                    let p = [a, b, c, d];
                    let mut s = p;
                    s.sort();
                    if s == [0, 1, 2, 3] {
                        out.push(p);
                    }
                }
            }
        }
    }
    out
}

/// All announcer configurations over 4 nodes (node 0 local) × replica factors ×
/// sync orders (every node, the local one included, reports once).
fn exhaustive_announcer(all_orders: bool) -> impl Iterator<Item = AnnCase> {
    let orders: Vec<[u8; 4]> = if all_orders { perms4() } else { vec![[0, 1, 2, 3], [3, 2, 1, 0], [2, 0, 3, 1]] };
    (0u8..16).flat_map(move |preferred| {
        let orders = orders.clone();
        (0u8..16).flat_map(move |synced| {
            let orders = orders.clone();
            (0u8..16).filter(move |u| u & synced == 0).flat_map(move |unsynced| {
                let orders = orders.clone();
                SMALL_REPL.iter().flat_map(move |r| {
                    orders.clone().into_iter().map(move |o| AnnCase {
                        local: 0,
                        private: false,
                        replicas: *r,
                        preferred,
                        synced,
                        unsynced,
                        ops: o.iter().map(|i| AnnOp::Synced(*i)).collect(),
                    })
                })
            })
        })
    })
}

/// All fetcher configurations over 4 nodes (node 0 local) × replica factors ×
/// a CLI-shaped driver loop with every connect/outcome mask.
fn exhaustive_fetcher() -> impl Iterator<Item = FetchCase> {
    (0u8..16).flat_map(move |seeds| {
        (0u8..16).flat_map(move |extra_mask| {
            SMALL_REPL.iter().flat_map(move |r| {
                (0u8..16).flat_map(move |connect| {
                    (0u8..16).flat_map(move |outcome| {
                        [false, true].into_iter().map(move |private| {
                            // extra candidates in descending order, so that the order differs from the seed order
                            let extra: Vec<u8> = (0..4u8).rev().filter(|i| extra_mask >> i & 1 == 1).collect();
                            let mut ops = vec![];
                            // driver: like `rad sync --fetch`: next_node; connect → ready / failed; next_fetch; complete
                            for round in 0..8u8 {
                                ops.push(FetchOp::NextNode);
                                // the connect/outcome decision is by round parity of the masks (node unknown to the script)
                                if connect >> (round % 4) & 1 == 1 {
                                    ops.push(FetchOp::ReadyLast);
                                } else {
                                    ops.push(FetchOp::FailedLast);
                                }
                                ops.push(FetchOp::NextFetch);
                                ops.push(FetchOp::CompleteLast(outcome >> (round % 4) & 1 == 1));
                            }
                            FetchCase { local: 0, private, replicas: *r, seeds, extra: Some(extra), ops }
                        })
                    })
                })
            })
        })
    })
}

fn run(ctx: &Ctx) {
    let fa = |c: &AnnCase| check_announcer(ctx, c);
    let ff = |c: &FetchCase| check_fetcher(ctx, c);
    if ctx.quick() {
        ctx.enumerate("announcer-exhaustive-4nodes-3orders", exhaustive_announcer(false), true, fa);
    } else {
        ctx.enumerate("announcer-exhaustive-4nodes-all-orders", exhaustive_announcer(true), true, fa);
        ctx.enumerate("fetcher-exhaustive-4nodes-driver", exhaustive_fetcher(), true, ff);
    }
    ctx.run("announcer", ann_case(14), ctx.cases(40_000, 1_500_000), fa);
    ctx.run("fetcher", fetch_case(30), ctx.cases(40_000, 1_500_000), ff);
}
