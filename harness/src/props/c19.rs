//! C19 — Identity documents are always valid and bound to the repository id.
//!
//! Sub-checks
//! * `json-arbitrary`  arbitrary JSON documents (built as text, so duplicate keys exist): whatever
//!   is accepted by any JSON entry point must be valid; every accepted document is also put through
//!   the encode/decode round trip.
//! * `json-valid`      documents that are valid by construction (arbitrary JSON payloads).
//! * `struct-valid`    documents built through `Project::new` + `Doc::initial` / `RawDoc::new`.
//! * `git-load`        arbitrary JSON written as a git blob / identity commit: `Doc::from_blob`,
//!   `Doc::load_at`.
//! * `git-init`        `Repository::init` in a fresh temp storage: rid == hand-rolled
//!   sha1("blob <n>\0" ‖ bytes) of `Doc::encode`, stored blob has these bytes, the root commit of
//!   the identity branch embeds exactly that blob.
use std::collections::BTreeSet;
use std::str::FromStr;
use std::sync::OnceLock;

use proptest::prelude::*;
use proptest::sample::select;
use radicle::crypto::test::signer::MockSigner;
use radicle::crypto::{PublicKey, Signer as _};
use radicle::git::raw as git2;
use radicle::identity::doc::{Delegates, Doc, DocError, RawDoc, Visibility};
use radicle::identity::project::{Project, ProjectName};
use radicle::identity::Did;
use radicle::node::device::Device;
use radicle::storage::git::Repository;
use radicle::storage::{ReadRepository, ReadStorage, WriteStorage};
use radicle::Storage;
use serde::{Deserialize, Serialize};
use unicode_normalization::{is_nfc, UnicodeNormalization as _};

use crate::core::*;
use crate::ensure;

pub const PROP: Prop = Prop {
    id: "C19",
    shards: (4, 16),
    level: "exploration",
    rule: "Documents are generated as JSON *text* from a field-level description (delegate lists of 0..300 \
           entries drawn from a pool of 300 keys with duplicates and malformed DIDs, thresholds relative to the \
           number of distinct/raw delegates and 0..300, version absent/0/1/2/2^32/non-integers, every visibility \
           form, arbitrary-JSON payloads with NFC/non-NFC/control/astral strings, unknown and duplicated \
           top-level keys). Oracle: accepted => 1..=255 pairwise distinct delegates, 1 <= threshold <= #delegates, \
           version 1 (read through the accessors and through the serialised form); encode succeeded => both \
           decoders return an equal Doc; Repository::init => rid equals an independent SHA-1 of 'blob n\\0'+bytes. \
           Non-trivial: the delegate list has duplicates, or the distinct count is 1/255/256, or the threshold is \
           0/1/d/d+1, or a payload string is non-ASCII. Distinct = hash of the whole case.",
    assumptions: &[
        "the only supported document version is 1",
        "the round trip is only demanded when Doc::encode succeeds (floats make it fail by design)",
        "ed25519 keys from MockSigner::from_seed with distinct seeds are distinct",
    ],
    run,
    budget_s: (900, 7200),
};

// ---------------------------------------------------------------------------
// Independent SHA-1 (FIPS 180-1), for the git blob hash.
// ---------------------------------------------------------------------------

fn sha1(data: &[u8]) -> [u8; 20] {
    let mut h: [u32; 5] = [0x67452301, 0xEFCDAB89, 0x98BADCFE, 0x10325476, 0xC3D2E1F0];
    let mut msg = data.to_vec();
    let bitlen = (data.len() as u64).wrapping_mul(8);
    msg.push(0x80);
    while msg.len() % 64 != 56 {
        msg.push(0);
    }
    msg.extend_from_slice(&bitlen.to_be_bytes());
    for chunk in msg.chunks(64) {
        let mut w = [0u32; 80];
        for i in 0..16 {
            w[i] = u32::from_be_bytes([chunk[4 * i], chunk[4 * i + 1], chunk[4 * i + 2], chunk[4 * i + 3]]);
        }
        for i in 16..80 {
            w[i] = (w[i - 3] ^ w[i - 8] ^ w[i - 14] ^ w[i - 16]).rotate_left(1);
        }
        let (mut a, mut b, mut c, mut d, mut e) = (h[0], h[1], h[2], h[3], h[4]);
        for (i, wi) in w.iter().enumerate() {
            let (f, k) = match i {
                0..=19 => ((b & c) | (!b & d), 0x5A827999u32),
                20..=39 => (b ^ c ^ d, 0x6ED9EBA1),
                40..=59 => ((b & c) | (b & d) | (c & d), 0x8F1BBCDC),
                _ => (b ^ c ^ d, 0xCA62C1D6),
            };
            let t = a.rotate_left(5).wrapping_add(f).wrapping_add(e).wrapping_add(k).wrapping_add(*wi);
            e = d;
            d = c;
            c = b.rotate_left(30);
            b = a;
            a = t;
        }
        h[0] = h[0].wrapping_add(a);
        h[1] = h[1].wrapping_add(b);
        h[2] = h[2].wrapping_add(c);
        h[3] = h[3].wrapping_add(d);
        h[4] = h[4].wrapping_add(e);
    }
    let mut out = [0u8; 20];
    for (i, x) in h.iter().enumerate() {
        out[4 * i..4 * i + 4].copy_from_slice(&x.to_be_bytes());
    }
    out
}

pub fn git_blob_sha1(bytes: &[u8]) -> [u8; 20] {
    let mut buf = format!("blob {}\0", bytes.len()).into_bytes();
    buf.extend_from_slice(bytes);
    sha1(&buf)
}

fn hex(b: &[u8]) -> String {
    b.iter().map(|x| format!("{x:02x}")).collect()
}

fn sha1_selftest() {
    assert_eq!(hex(&sha1(b"abc")), "a9993e364706816aba3e25717850c26c9cd0d89d");
    assert_eq!(hex(&sha1(b"")), "da39a3ee5e6b4b0d3255bfef95601890afd80709");
    assert_eq!(
        hex(&sha1(b"abcdbcdecdefdefgefghfghighijhijkijkljklmklmnlmnomnopnopq")),
        "84983e441c3bd26ebaae4aa1f95129e5e54670f1"
    );
    // `git hash-object` of the empty blob and of "hello\n"
    assert_eq!(hex(&git_blob_sha1(b"")), "e69de29bb2d1d6434b8b29ae775ad8c2e48c5391");
    assert_eq!(hex(&git_blob_sha1(b"hello\n")), "ce013625030ba8dba906f756967f9e9ca394464a");
}

// ---------------------------------------------------------------------------
// Key pool
// ---------------------------------------------------------------------------

const POOL: usize = 300;

struct Key {
    signer: MockSigner,
    pk: PublicKey,
    did: String,
}

fn keys() -> &'static Vec<Key> {
    static K: OnceLock<Vec<Key>> = OnceLock::new();
    K.get_or_init(|| {
        let mut seen = BTreeSet::new();
        (0..POOL)
            .map(|i| {
                let mut seed = [0u8; 32];
                seed[..8].copy_from_slice(&mix(0xC19 + i as u64).to_le_bytes());
                seed[8..16].copy_from_slice(&(i as u64).to_le_bytes());
                let signer = MockSigner::from_seed(seed);
                let pk = *signer.public_key();
                let did = Did::from(pk).to_string();
                assert!(seen.insert(did.clone()), "key pool has distinct keys");
                Key { signer, pk, did }
            })
            .collect()
    })
}

// ---------------------------------------------------------------------------
// Case description
// ---------------------------------------------------------------------------

/// A JSON value that can be hashed and rendered as text (object keys may repeat).
#[derive(Debug, Clone, Serialize, Deserialize, Hash, PartialEq, Eq)]
pub enum J {
    Null,
    Bool(bool),
    Int(i64),
    UInt(u64),
    /// rendered as `<m>.5e<e>`: always a float for serde_json
    Float(i16, i8),
    Str(String),
    Arr(Vec<J>),
    Obj(Vec<(String, J)>),
}

fn jstr(s: &str) -> String {
    serde_json::to_string(s).expect("string escapes")
}

impl J {
    fn render(&self, out: &mut String) {
        match self {
            J::Null => out.push_str("null"),
            J::Bool(b) => out.push_str(if *b { "true" } else { "false" }),
            J::Int(i) => out.push_str(&i.to_string()),
            J::UInt(u) => out.push_str(&u.to_string()),
            J::Float(m, e) => out.push_str(&format!("{m}.5e{e}")),
            J::Str(s) => out.push_str(&jstr(s)),
            J::Arr(a) => {
                out.push('[');
                for (i, x) in a.iter().enumerate() {
                    if i > 0 {
                        out.push(',');
                    }
                    x.render(out);
                }
                out.push(']');
            }
            J::Obj(o) => {
                out.push('{');
                for (i, (k, v)) in o.iter().enumerate() {
                    if i > 0 {
                        out.push(',');
                    }
                    out.push_str(&jstr(k));
                    out.push(':');
                    v.render(out);
                }
                out.push('}');
            }
        }
    }
    /// (has a float, has a non-ASCII string/key, has a non-NFC string/key)
    fn scan(&self, acc: &mut Scan) {
        match self {
            J::Float(..) => acc.float = true,
            J::Str(s) => acc.string(s),
            J::Arr(a) => a.iter().for_each(|x| x.scan(acc)),
            J::Obj(o) => {
                let mut seen = BTreeSet::new();
                let mut seen_nfc = BTreeSet::new();
                for (k, v) in o {
                    acc.string(k);
                    let fresh = seen.insert(k.as_str());
                    if !fresh {
                        acc.dup_key = true;
                    }
                    // classification only
                    if !seen_nfc.insert(k.nfc().collect::<String>()) && fresh {
                        acc.nfc_collision = true;
                    }
                    v.scan(acc);
                }
            }
            _ => {}
        }
    }
}

#[derive(Default, Debug)]
struct Scan {
    float: bool,
    non_ascii: bool,
    non_nfc: bool,
    control: bool,
    dup_key: bool,
    /// two different keys of one object are equal after NFC
    nfc_collision: bool,
}

impl Scan {
    fn string(&mut self, s: &str) {
        if !s.is_ascii() {
            self.non_ascii = true;
        }
        // classification only (decides the failure *signature*, never the verdict)
        if !is_nfc(s) {
            self.non_nfc = true;
        }
        if s.chars().any(|c| (c as u32) < 0x20) {
            self.control = true;
        }
    }
}

const BAD_DIDS: &[&str] = &[
    "",
    "did:key:",
    "did:key:z6Mk",
    "did:web:example.com",
    "z6MknSLrJoTcukLrE435hVNQT4JUhbvWLX4kUzqkEStBU8Vi",
    "did:key:z6MknSLrJoTcukLrE435hVNQT4JUhbvWLX4kUzqkEStBU8V0",
    "DID:KEY:z6MknSLrJoTcukLrE435hVNQT4JUhbvWLX4kUzqkEStBU8Vi",
    " did:key:z6MknSLrJoTcukLrE435hVNQT4JUhbvWLX4kUzqkEStBU8Vi",
];

#[derive(Debug, Clone, Serialize, Deserialize, Hash, PartialEq, Eq)]
pub enum Tok {
    /// pool key by index
    Key(u16),
    /// malformed DID string
    Bad(u8),
    /// some other JSON value in place of a DID
    Raw(J),
}

impl Tok {
    fn render(&self, out: &mut String) {
        match self {
            Tok::Key(i) => out.push_str(&jstr(&keys()[*i as usize % POOL].did)),
            Tok::Bad(i) => out.push_str(&jstr(BAD_DIDS[*i as usize % BAD_DIDS.len()])),
            Tok::Raw(j) => j.render(out),
        }
    }
}

fn render_toks(t: &[Tok], out: &mut String) {
    out.push('[');
    for (i, x) in t.iter().enumerate() {
        if i > 0 {
            out.push(',');
        }
        x.render(out);
    }
    out.push(']');
}

#[derive(Debug, Clone, Serialize, Deserialize, Hash)]
pub enum DelegatesSpec {
    Absent,
    List(Vec<Tok>),
    Raw(J),
}

#[derive(Debug, Clone, Serialize, Deserialize, Hash)]
pub enum ThresholdSpec {
    Absent,
    Int(i64),
    Raw(J),
}

#[derive(Debug, Clone, Serialize, Deserialize, Hash)]
pub enum VisSpec {
    Absent,
    Public,
    Private,
    PrivateAllow(Vec<Tok>),
    /// `{"type":"public","allow":[..]}` (unknown field of the unit variant)
    PublicAllow(Vec<Tok>),
    Raw(J),
}

#[derive(Debug, Clone, Serialize, Deserialize, Hash)]
pub enum PayloadSpec {
    Absent,
    Map(Vec<(String, J)>),
    Raw(J),
}

#[derive(Debug, Clone, Serialize, Deserialize, Hash)]
pub enum Dup {
    Threshold(i64),
    Delegates(Vec<Tok>),
    Version(J),
    Payload,
    Visibility,
}

#[derive(Debug, Clone, Serialize, Deserialize, Hash)]
pub enum Edit {
    AddDelegate(u16),
    Rescind(u16),
    SetThreshold(u16),
    AddAndRaise(u16),
}

#[derive(Debug, Clone, Serialize, Deserialize, Hash)]
pub struct JsonCase {
    version: Option<J>,
    delegates: DelegatesSpec,
    threshold: ThresholdSpec,
    visibility: VisSpec,
    payload: PayloadSpec,
    unknown: Vec<(String, J)>,
    /// a top-level key repeated (after the regular fields)
    dup: Option<Dup>,
    /// rotation of the top-level field order
    order: u8,
    /// an edit applied through `Doc::with_edits` when the document is accepted
    edit: Option<Edit>,
}

impl JsonCase {
    fn render(&self) -> String {
        let mut fields: Vec<String> = vec![];
        let mut f = |k: &str, body: &dyn Fn(&mut String)| {
            let mut s = jstr(k);
            s.push(':');
            body(&mut s);
            fields.push(s);
        };
        if let Some(v) = &self.version {
            f("version", &|o| v.render(o));
        }
        match &self.payload {
            PayloadSpec::Absent => {}
            PayloadSpec::Map(m) => f("payload", &|o| J::Obj(m.clone()).render(o)),
            PayloadSpec::Raw(j) => f("payload", &|o| j.render(o)),
        }
        match &self.delegates {
            DelegatesSpec::Absent => {}
            DelegatesSpec::List(t) => f("delegates", &|o| render_toks(t, o)),
            DelegatesSpec::Raw(j) => f("delegates", &|o| j.render(o)),
        }
        match &self.threshold {
            ThresholdSpec::Absent => {}
            ThresholdSpec::Int(i) => f("threshold", &|o| o.push_str(&i.to_string())),
            ThresholdSpec::Raw(j) => f("threshold", &|o| j.render(o)),
        }
        let vis = |ty: &str, allow: Option<&Vec<Tok>>, o: &mut String| {
            o.push_str("{\"type\":");
            o.push_str(&jstr(ty));
            if let Some(a) = allow {
                o.push_str(",\"allow\":");
                render_toks(a, o);
            }
            o.push('}');
        };
        match &self.visibility {
            VisSpec::Absent => {}
            VisSpec::Public => f("visibility", &|o| vis("public", None, o)),
            VisSpec::Private => f("visibility", &|o| vis("private", None, o)),
            VisSpec::PrivateAllow(a) => f("visibility", &|o| vis("private", Some(a), o)),
            VisSpec::PublicAllow(a) => f("visibility", &|o| vis("public", Some(a), o)),
            VisSpec::Raw(j) => f("visibility", &|o| j.render(o)),
        }
        for (k, v) in &self.unknown {
            f(k, &|o| v.render(o));
        }
        if !fields.is_empty() {
            let r = self.order as usize % fields.len();
            fields.rotate_left(r);
        }
        match &self.dup {
            None => {}
            Some(Dup::Threshold(i)) => fields.push(format!("\"threshold\":{i}")),
            Some(Dup::Delegates(t)) => {
                let mut s = String::from("\"delegates\":");
                render_toks(t, &mut s);
                fields.push(s);
            }
            Some(Dup::Version(j)) => {
                let mut s = String::from("\"version\":");
                j.render(&mut s);
                fields.push(s);
            }
            Some(Dup::Payload) => fields.push("\"payload\":{}".to_string()),
            Some(Dup::Visibility) => fields.push("\"visibility\":{\"type\":\"public\"}".to_string()),
        }
        format!("{{{}}}", fields.join(","))
    }

    /// (raw list length, distinct keys, all tokens are well-formed keys)
    fn delegate_stats(&self) -> Option<(usize, usize, bool)> {
        match &self.delegates {
            DelegatesSpec::List(t) => {
                let mut set = BTreeSet::new();
                let mut clean = true;
                for x in t {
                    match x {
                        Tok::Key(i) => {
                            set.insert(*i as usize % POOL);
                        }
                        _ => clean = false,
                    }
                }
                Some((t.len(), set.len(), clean))
            }
            _ => None,
        }
    }
}

// ---------------------------------------------------------------------------
// Oracle
// ---------------------------------------------------------------------------

/// The validity clause of the statement, read through the accessors and
/// through the serialised form of the document.
fn check_valid(path: &str, doc: &Doc) -> CaseResult {
    let ds = doc.delegates();
    let n = ds.len();
    ensure!((1..=255).contains(&n), format!("valid:{path}:delegate-count"), "{n} delegates");
    let listed: Vec<String> = ds.iter().map(|d| d.to_string()).collect();
    ensure!(listed.len() == n, format!("valid:{path}:delegate-len-mismatch"), "len() {n} but iter() yields {}", listed.len());
    let set: BTreeSet<&String> = listed.iter().collect();
    ensure!(set.len() == n, format!("valid:{path}:duplicate-delegates"), "{n} delegates, {} distinct", set.len());
    // also by key bytes (two spellings of one key are one delegate)
    let by_key: BTreeSet<[u8; 32]> = ds.iter().map(|d| ****d).collect();
    ensure!(by_key.len() == n, format!("valid:{path}:duplicate-delegates"), "{n} delegates, {} distinct keys", by_key.len());
    let t = doc.threshold();
    ensure!(t >= 1 && t <= n, format!("valid:{path}:threshold-range"), "threshold {t} with {n} delegates");
    ensure!(doc.threshold_nonzero().get() == t, format!("valid:{path}:threshold-accessors"), "threshold accessors disagree");
    let v: u32 = (*doc.version()).into();
    ensure!(v == 1, format!("valid:{path}:version"), "version {v} accepted");

    // The same through the serialised form.
    if let Ok(val) = serde_json::to_value(doc) {
        let arr = val.get("delegates").and_then(|d| d.as_array()).cloned().unwrap_or_default();
        let strs: BTreeSet<String> = arr.iter().filter_map(|s| s.as_str().map(|s| s.to_string())).collect();
        ensure!(
            (1..=255).contains(&arr.len()) && strs.len() == arr.len(),
            format!("valid-ser:{path}:delegates"),
            "serialised delegates: {} entries, {} distinct strings",
            arr.len(),
            strs.len()
        );
        let t = val.get("threshold").and_then(|t| t.as_u64());
        ensure!(
            matches!(t, Some(t) if t >= 1 && t as usize <= arr.len()),
            format!("valid-ser:{path}:threshold"),
            "serialised threshold {t:?} with {} delegates",
            arr.len()
        );
        let ver = val.get("version");
        ensure!(
            ver.is_none() || ver.and_then(|v| v.as_u64()) == Some(1),
            format!("valid-ser:{path}:version"),
            "serialised version {ver:?}"
        );
    }
    Ok(())
}

/// The round-trip clause. `non_nfc`: some string of the document is not in
/// NFC (only used to name the failure).
fn check_roundtrip(ctx: &Ctx, path: &str, doc: &Doc, non_nfc: bool) -> Result<Option<Vec<u8>>, Fail> {
    let (oid, bytes) = match doc.encode() {
        Ok(x) => x,
        Err(DocError::Json(_)) => {
            ctx.count("encode-error");
            return Ok(None);
        }
        Err(_) => {
            ctx.count(&format!("encode-other-error:{path}"));
            return Ok(None);
        }
    };
    ctx.count("encode-ok");
    let expect = git_blob_sha1(&bytes);
    ensure!(
        oid.as_bytes() == expect,
        "encode:oid-not-blob-hash",
        "encode() returned oid {oid} but sha1(blob) is {}",
        hex(&expect)
    );
    let class = if non_nfc { "non-nfc" } else { "nfc" };
    let shown = String::from_utf8_lossy(&bytes);
    let shown: String = shown.chars().take(400).collect();
    match RawDoc::from_json(&bytes).and_then(|r| r.verified()) {
        Ok(d) => ensure!(
            &d == doc,
            format!("roundtrip:{class}:decoded-differs"),
            "RawDoc::from_json(encode(d)).verified() != d; encoding: {shown}"
        ),
        Err(e) => return fail(format!("roundtrip:{class}:decode-error"), format!("decoding {shown}: {e}")),
    }
    match serde_json::from_slice::<Doc>(&bytes) {
        Ok(d) => ensure!(
            &d == doc,
            format!("roundtrip:{class}:decoded-differs"),
            "serde_json::from_slice::<Doc>(encode(d)) != d; encoding: {shown}"
        ),
        Err(e) => return fail(format!("roundtrip:{class}:decode-error"), format!("decoding {shown}: {e}")),
    }
    Ok(Some(bytes))
}

/// The validity clause read on the *input*: when the generated text states its delegates,
/// threshold and version unambiguously (no repeated top-level key, only well-formed pool keys),
/// an accepted document must have had valid values, and the accessors must report them.
fn check_input_valid(c: &JsonCase, path: &str, doc: &Doc) -> CaseResult {
    if c.dup.is_some() {
        return Ok(());
    }
    if let Some(v) = &c.version {
        let stated = match v {
            J::Int(i) => Some(*i as i128),
            J::UInt(u) => Some(*u as i128),
            _ => None,
        };
        if let Some(v) = stated {
            ensure!(v == 1, format!("valid-input:{path}:version"), "a document stating version {v} was accepted");
        }
    }
    let Some((_, d, clean)) = c.delegate_stats() else { return Ok(()) };
    if !clean {
        return Ok(());
    }
    ensure!(
        (1..=255).contains(&d),
        format!("valid-input:{path}:delegate-count"),
        "a document listing {d} distinct delegates was accepted"
    );
    ensure!(
        doc.delegates().len() == d,
        format!("valid-input:{path}:delegates-differ"),
        "the document lists {d} distinct delegates, the accepted Doc has {}",
        doc.delegates().len()
    );
    if let ThresholdSpec::Int(t) = c.threshold {
        ensure!(
            t >= 1 && t as i128 <= d as i128,
            format!("valid-input:{path}:threshold-range"),
            "a document with threshold {t} and {d} distinct delegates was accepted"
        );
        ensure!(
            doc.threshold() as i128 == t as i128,
            format!("valid-input:{path}:threshold-differs"),
            "the document states threshold {t}, the accepted Doc has {}",
            doc.threshold()
        );
    }
    Ok(())
}

fn model_accepts(c: &JsonCase) -> bool {
    let Some((_, d, clean)) = c.delegate_stats() else { return false };
    let t_ok = matches!(c.threshold, ThresholdSpec::Int(t) if t >= 1 && t as usize <= d && t <= 255);
    let v_ok = matches!(&c.version, None | Some(J::Int(1)) | Some(J::UInt(1)));
    let toks_ok = |t: &Vec<Tok>| t.iter().all(|x| matches!(x, Tok::Key(_)));
    let vis_ok = match &c.visibility {
        VisSpec::Absent | VisSpec::Public | VisSpec::Private => true,
        VisSpec::PrivateAllow(a) | VisSpec::PublicAllow(a) => toks_ok(a),
        VisSpec::Raw(_) => false,
    };
    let p_ok = matches!(&c.payload, PayloadSpec::Map(_));
    clean && (1..=255).contains(&d) && t_ok && v_ok && vis_ok && p_ok && c.dup.is_none()
}

fn scan_case(c: &JsonCase) -> Scan {
    let mut s = Scan::default();
    match &c.payload {
        PayloadSpec::Map(m) => J::Obj(m.clone()).scan(&mut s),
        PayloadSpec::Raw(j) => j.scan(&mut s),
        PayloadSpec::Absent => {}
    }
    s
}

fn classify(ctx: &Ctx, c: &JsonCase, accepted: bool, scan: &Scan) {
    let mut nontrivial = false;
    if let Some((n, d, clean)) = c.delegate_stats() {
        ctx.count(match d {
            0 => "delegates:distinct=0",
            1 => "delegates:distinct=1",
            2..=9 => "delegates:distinct=2..9",
            10..=253 => "delegates:distinct=10..253",
            254 => "delegates:distinct=254",
            255 => "delegates:distinct=255",
            256 => "delegates:distinct=256",
            _ => "delegates:distinct>256",
        });
        if n > d && clean {
            ctx.count("delegates:with-duplicates");
            nontrivial = true;
        }
        if !clean {
            ctx.count("delegates:malformed-entry");
        }
        if matches!(d, 1 | 255 | 256) {
            nontrivial = true;
        }
        if let ThresholdSpec::Int(t) = c.threshold {
            let t = t as i128;
            let (d, n) = (d as i128, n as i128);
            let lbl = if t == 0 {
                "threshold:0"
            } else if t < 0 {
                "threshold:negative"
            } else if t == d {
                "threshold:=distinct"
            } else if t == d + 1 {
                "threshold:=distinct+1"
            } else if t > d && t <= n {
                "threshold:in(distinct,raw]"
            } else if t == 1 {
                "threshold:1"
            } else if t < d {
                "threshold:in(1,distinct)"
            } else if t > 255 {
                "threshold:>255"
            } else {
                "threshold:other-too-big"
            };
            ctx.count(lbl);
            if t == 0 || t == 1 || t == d || t == d + 1 {
                nontrivial = true;
            }
        }
    } else {
        ctx.count("delegates:absent-or-raw");
    }
    match &c.threshold {
        ThresholdSpec::Absent => ctx.count("threshold:absent"),
        ThresholdSpec::Raw(_) => ctx.count("threshold:raw-json"),
        _ => {}
    }
    match &c.version {
        None => ctx.count("version:absent"),
        Some(J::Int(1)) | Some(J::UInt(1)) => ctx.count("version:1"),
        Some(J::Int(0)) | Some(J::UInt(0)) => ctx.count("version:0"),
        Some(J::Int(_)) | Some(J::UInt(_)) => ctx.count("version:other-int"),
        Some(_) => ctx.count("version:non-int"),
    }
    match &c.visibility {
        VisSpec::Absent => ctx.count("visibility:absent"),
        VisSpec::Public => ctx.count("visibility:public"),
        VisSpec::Private => ctx.count("visibility:private"),
        VisSpec::PrivateAllow(_) => ctx.count("visibility:private+allow"),
        VisSpec::PublicAllow(_) => ctx.count("visibility:public+allow"),
        VisSpec::Raw(_) => ctx.count("visibility:raw-json"),
    }
    if c.dup.is_some() {
        ctx.count("duplicate-top-level-key");
    }
    if !c.unknown.is_empty() {
        ctx.count("unknown-top-level-field");
    }
    if scan.non_ascii {
        ctx.count("payload:non-ascii");
        nontrivial = true;
    }
    if scan.non_nfc {
        ctx.count("payload:non-nfc");
    }
    if scan.float {
        ctx.count("payload:float");
    }
    if scan.control {
        ctx.count("payload:control-char");
    }
    if scan.dup_key {
        ctx.count("payload:duplicate-object-key");
    }
    if scan.nfc_collision {
        ctx.count("payload:keys-collide-after-nfc");
    }
    let m = model_accepts(c);
    ctx.count(match (accepted, m) {
        (true, true) => "outcome:accepted(model-accept)",
        (true, false) => "outcome:accepted(model-reject)",
        (false, true) => "outcome:rejected(model-accept)",
        (false, false) => "outcome:rejected(model-reject)",
    });
    if nontrivial {
        ctx.nontrivial(c);
        ctx.sample(if accepted { "json-accepted" } else { "json-rejected" }, c);
    }
}

fn apply_edit(doc: &Doc, e: &Edit) -> Result<Doc, DocError> {
    let ks = keys();
    let n = doc.delegates().len();
    doc.clone().with_edits(|raw| match e {
        Edit::AddDelegate(i) => raw.delegate(Did::from(ks[*i as usize % POOL].pk)),
        Edit::Rescind(i) => {
            let d = raw.delegates[*i as usize % raw.delegates.len()];
            let _ = raw.rescind(&d);
        }
        Edit::SetThreshold(t) => raw.threshold = *t as usize % 300,
        Edit::AddAndRaise(i) => {
            raw.delegate(Did::from(ks[*i as usize % POOL].pk));
            raw.threshold = n + 1;
        }
    })
}

fn check_json(ctx: &Ctx, c: &JsonCase) -> CaseResult {
    let text = c.render();
    let scan = scan_case(c);
    let mut accepted: Vec<(&str, Doc)> = vec![];
    if let Ok(d) = serde_json::from_str::<Doc>(&text) {
        accepted.push(("serde-str", d));
    }
    if let Ok(d) = serde_json::from_slice::<Doc>(text.as_bytes()) {
        accepted.push(("serde-slice", d));
    }
    if let Ok(d) = RawDoc::from_json(text.as_bytes()).and_then(|r| r.verified()) {
        accepted.push(("rawdoc", d));
    }
    match serde_json::from_str::<serde_json::Value>(&text) {
        Ok(v) => {
            if let Ok(d) = serde_json::from_value::<Doc>(v) {
                accepted.push(("serde-value", d));
            }
        }
        Err(e) => {
            // the generator renders well-formed JSON text
            panic!("harness: generated text is not JSON: {e}: {text}");
        }
    }
    if let DelegatesSpec::List(t) = &c.delegates {
        let mut s = String::new();
        render_toks(t, &mut s);
        if let Ok(ds) = serde_json::from_str::<Delegates>(&s) {
            let n = ds.len();
            let set: BTreeSet<[u8; 32]> = ds.iter().map(|d| ****d).collect();
            ensure!((1..=255).contains(&n), "valid:delegates-type:delegate-count", "{n} delegates");
            ensure!(set.len() == n, "valid:delegates-type:duplicate-delegates", "{n} delegates, {} distinct", set.len());
            ctx.count("delegates-type:accepted");
        }
    }
    if accepted.len() != 0 && accepted.len() != 4 {
        ctx.count("entry-points-disagree-on-acceptance");
    }
    for (path, doc) in &accepted {
        check_valid(path, doc)?;
        check_input_valid(c, path, doc)?;
    }
    if let Some((path, doc)) = accepted.first() {
        check_roundtrip(ctx, path, doc, scan.non_nfc)?;
        if let Some(e) = &c.edit {
            match apply_edit(doc, e) {
                Ok(d2) => {
                    ctx.count("edit:accepted");
                    check_valid("with-edits", &d2)?;
                    check_roundtrip(ctx, "with-edits", &d2, scan.non_nfc)?;
                }
                Err(_) => ctx.count("edit:rejected"),
            }
        }
    }
    classify(ctx, c, !accepted.is_empty(), &scan);
    Ok(())
}

// ---------------------------------------------------------------------------
// struct-built documents
// ---------------------------------------------------------------------------

#[derive(Debug, Clone, Serialize, Deserialize, Hash)]
pub struct StructCase {
    name: String,
    description: String,
    branch: String,
    delegates: Vec<u16>,
    threshold: u16,
    private: Option<Vec<u16>>,
    extra_payload: Option<(String, J)>,
}

fn check_struct(ctx: &Ctx, c: &StructCase) -> CaseResult {
    let ks = keys();
    let Ok(name) = ProjectName::from_str(&c.name) else {
        ctx.count("struct:name-rejected");
        return Ok(());
    };
    let Ok(branch) = radicle::git::RefString::try_from(c.branch.as_str()) else {
        ctx.count("struct:branch-rejected");
        return Ok(());
    };
    let Ok(project) = Project::new(name, c.description.clone(), branch) else {
        ctx.count("struct:project-rejected");
        return Ok(());
    };
    let vis = match &c.private {
        None => Visibility::Public,
        Some(a) => Visibility::private(a.iter().map(|i| Did::from(ks[*i as usize % POOL].pk))),
    };
    let non_nfc = !is_nfc(&c.name) || !is_nfc(&c.description) || !is_nfc(&c.branch) || {
        let mut s = Scan::default();
        if let Some((k, v)) = &c.extra_payload {
            s.string(k);
            v.scan(&mut s);
        }
        s.non_nfc
    };
    if non_nfc {
        ctx.count("struct:non-nfc");
    }
    let dids: Vec<Did> = c.delegates.iter().map(|i| Did::from(ks[*i as usize % POOL].pk)).collect();
    // Doc::initial
    if let Some(first) = dids.first() {
        let doc = Doc::initial(project.clone(), *first, vis.clone());
        check_valid("initial", &doc)?;
        check_roundtrip(ctx, "initial", &doc, non_nfc)?;
        ctx.count("struct:initial");
    }
    // RawDoc::new(..).verified()
    let mut raw = RawDoc::new(project, dids, c.threshold as usize, vis);
    if let Some((k, v)) = &c.extra_payload {
        let mut s = String::new();
        v.render(&mut s);
        if let (Ok(id), Ok(val)) =
            (serde_json::from_value(serde_json::Value::String(k.clone())), serde_json::from_str::<serde_json::Value>(&s))
        {
            raw.payload.insert(id, val.into());
        }
    }
    match raw.verified() {
        Ok(doc) => {
            ctx.count("struct:verified-ok");
            check_valid("rawdoc-new", &doc)?;
            check_roundtrip(ctx, "rawdoc-new", &doc, non_nfc)?;
            let distinct: BTreeSet<usize> = c.delegates.iter().map(|i| *i as usize % POOL).collect();
            if distinct.len() < c.delegates.len() || !c.name.is_ascii() || !c.description.is_ascii() {
                ctx.nontrivial(c);
                ctx.sample("struct", c);
            }
        }
        Err(_) => ctx.count("struct:verified-rejected"),
    }
    Ok(())
}

// ---------------------------------------------------------------------------
// git-backed
// ---------------------------------------------------------------------------

#[derive(Debug, Clone, Serialize, Deserialize, Hash)]
pub struct GitInitCase {
    doc: JsonCase,
    /// signer: the first delegate of the document (the founder), or some pool key
    signer: u16,
    signer_is_founder: bool,
}

fn user() -> radicle::git::UserInfo {
    radicle::git::UserInfo { alias: radicle::node::Alias::new("verif"), key: keys()[0].pk }
}

fn check_git_init(ctx: &Ctx, c: &GitInitCase) -> CaseResult {
    let text = c.doc.render();
    let scan = scan_case(&c.doc);
    let Ok(doc) = RawDoc::from_json(text.as_bytes()).and_then(|r| r.verified()) else {
        ctx.count("git-init:doc-rejected");
        return Ok(());
    };
    check_valid("rawdoc", &doc)?;
    let Ok((enc_oid, bytes)) = doc.encode() else {
        ctx.count("git-init:encode-error");
        return Ok(());
    };
    let ks = keys();
    // Identity initialisation demands that the committer is the *first* delegate.
    let key = if c.signer_is_founder {
        let d = *doc.delegates().first();
        ks.iter().find(|k| k.pk == *d).expect("delegates come from the pool")
    } else {
        &ks[c.signer as usize % POOL]
    };
    let is_delegate = doc.delegates().first() == &Did::from(key.pk);
    let tmp = tempfile::tempdir().expect("tempdir");
    let storage = Storage::open(tmp.path().join("storage"), user()).expect("storage opens");
    let device = Device::from(key.signer.clone());
    let (repo, commit) = match Repository::init(&doc, &storage, &device) {
        Ok(x) => x,
        Err(e) => {
            ctx.count(if is_delegate { "git-init:error(founder-signer)" } else { "git-init:error(other-signer)" });
            if is_delegate {
                ctx.note(format!("Repository::init failed although the signer is the first delegate: {e}"));
            }
            return Ok(());
        }
    };
    ctx.count(if is_delegate { "git-init:ok(founder-signer)" } else { "git-init:ok(other-signer)" });
    let expect = git_blob_sha1(&bytes);
    ensure!(enc_oid.as_bytes() == expect, "encode:oid-not-blob-hash", "encode() oid {enc_oid} != sha1(blob) {}", hex(&expect));
    let rid = repo.id();
    ensure!(
        rid.as_bytes() == expect,
        "init:rid-not-blob-hash",
        "rid {} but sha1('blob {}\\0'+encode(doc)) = {}",
        hex(rid.as_bytes()),
        bytes.len(),
        hex(&expect)
    );
    // the blob is in the object database with exactly those bytes
    let oid = git2::Oid::from_bytes(&expect).expect("20 bytes");
    match repo.backend.find_blob(oid) {
        Ok(b) => ensure!(b.content() == bytes.as_slice(), "init:blob-content", "blob {oid} does not hold encode(doc)"),
        Err(e) => return fail("init:blob-missing", format!("blob {oid} not in the repository: {e}")),
    }
    // the repository is found under its id
    let reopened = storage.repository(rid).ok();
    ctx.count(match &reopened {
        Some(r) if r.id() == rid => "git-init:reopened-under-its-id",
        Some(_) => "git-init:reopened-with-other-id",
        None => "git-init:reopen-failed",
    });

    // the identity branch of the signer: its root commit embeds exactly that blob
    let head = repo
        .identity_head_of(&key.pk)
        .map_err(|e| Fail { sig: "init:no-identity-branch".into(), msg: e.to_string() })?;
    let mut walk = repo.backend.revwalk().expect("revwalk");
    walk.push(*head).expect("push head");
    let root = walk.last().expect("history is not empty").expect("walk");
    ctx.count(if root == *commit { "git-init:returned-commit-is-root" } else { "git-init:returned-commit-is-not-root" });
    let tree = repo.backend.find_commit(root).and_then(|c| c.tree()).expect("root tree");
    let entry = tree.get_path(std::path::Path::new("embeds/radicle.json"));
    let entry = entry.map_err(|e| Fail { sig: "init:root-has-no-doc".into(), msg: e.to_string() })?;
    ensure!(
        entry.id().as_bytes() == expect,
        "init:root-doc-not-rid",
        "root commit embeds blob {} but rid is {}",
        entry.id(),
        hex(rid.as_bytes())
    );
    // loading from git: accepted => valid, bound to the id, and equal to the original document
    match Doc::load_at(commit, &repo) {
        Ok(at) => {
            ensure!(at.blob.as_bytes() == expect, "init:loaded-blob-not-rid", "DocAt.blob {} != rid", at.blob);
            check_valid("load_at", &at.doc)?;
            let class = if scan.non_nfc { "non-nfc" } else { "nfc" };
            ensure!(at.doc == doc, format!("roundtrip:{class}:decoded-differs"), "Doc::load_at(init(d)) != d; json {}", text.chars().take(300).collect::<String>());
        }
        Err(e) => return fail("init:load-at", format!("Doc::load_at(root): {e}")),
    }
    match reopened.as_ref().map(|r| r.identity_doc()).unwrap_or_else(|| repo.identity_doc()) {
        Ok(at) => {
            ctx.count("git-init:identity_doc-ok");
            ensure!(at.blob.as_bytes() == expect, "init:identity-doc-blob-not-rid", "identity_doc().blob {} != rid", at.blob);
            check_valid("identity_doc", &at.doc)?;
        }
        // (needs signed refs, which init does not write: "missing identity document")
        Err(_) => ctx.count("git-init:identity_doc-err"),
    }
    if doc.delegates().len() > 1 || scan.non_ascii || !doc.is_public() {
        ctx.nontrivial(c);
        ctx.sample("git-init", c);
    }
    Ok(())
}

struct GitLab {
    _tmp: tempfile::TempDir,
    repo: Repository,
}

fn check_git_load(ctx: &Ctx, lab: &GitLab, c: &JsonCase) -> CaseResult {
    let text = c.render();
    let raw = &lab.repo.backend;
    let blob_oid = raw.blob(text.as_bytes()).expect("write blob");
    let blob = raw.find_blob(blob_oid).expect("find blob");
    ensure!(
        blob_oid.as_bytes() == git_blob_sha1(text.as_bytes()),
        "harness:sha1-disagrees-with-git",
        "libgit2 blob id {blob_oid} != own sha1"
    );
    let mut accepted = false;
    if let Ok(doc) = Doc::from_blob(&blob) {
        accepted = true;
        check_valid("from_blob", &doc)?;
        check_input_valid(c, "from_blob", &doc)?;
    }
    // identity-commit shape: <tree>/embeds/radicle.json
    let mut embeds = raw.treebuilder(None).expect("treebuilder");
    embeds.insert("radicle.json", blob_oid, 0o100_644).expect("insert");
    let embeds = embeds.write().expect("write tree");
    let mut top = raw.treebuilder(None).expect("treebuilder");
    top.insert("embeds", embeds, 0o040_000).expect("insert");
    let top = raw.find_tree(top.write().expect("write tree")).expect("tree");
    let sig = git2::Signature::new("verif", "verif@localhost", &git2::Time::new(1_700_000_000, 0)).expect("sig");
    let commit = raw.commit(None, &sig, &sig, "doc", &top, &[]).expect("commit");
    match Doc::load_at(commit.into(), &lab.repo) {
        Ok(at) => {
            ctx.count(if accepted { "git-load:load_at-and-from_blob-accept" } else { "git-load:only-load_at-accepts" });
            ctx.count(if *at.blob == blob_oid { "git-load:docat-blob-is-blob-id" } else { "git-load:docat-blob-differs" });
            check_valid("load_at", &at.doc)?;
        }
        Err(_) => {
            if accepted {
                ctx.count("git-load:only-from_blob-accepts");
            }
        }
    }
    match lab.repo.identity_doc_at(commit.into()) {
        Ok(at) => check_valid("identity_doc_at", &at.doc)?,
        Err(_) => {}
    }
    ctx.count(if accepted { "git-load:accepted" } else { "git-load:rejected" });
    let scan = scan_case(c);
    classify(ctx, c, accepted, &scan);
    Ok(())
}

// ---------------------------------------------------------------------------
// Generators
// ---------------------------------------------------------------------------

const FRAGS: &[&str] = &[
    // ascii
    "a", "name", "heartwood", "Z9", " ", "x y", "-_.", "master", "0",
    // control / escapes
    "\u{0}", "\u{1}", "\n", "\t", "\u{1f}", "\u{7f}", "\"", "\\", "/", "\\u0041",
    // not NFC
    "e\u{301}", "A\u{30a}", "\u{1100}\u{1161}", "\u{1100}\u{1161}\u{11a8}", "\u{212b}", "\u{2126}", "\u{301}",
    "o\u{308}\u{304}", "\u{1e0b}\u{323}", "q\u{323}\u{307}", "q\u{307}\u{323}", "\u{11a8}", "\u{f900}", "\u{0958}",
    // NFC, non-ASCII
    "\u{e9}", "\u{c5}", "\u{ac00}", "\u{ac01}", "\u{fc}", "\u{65e5}\u{672c}", "\u{1f600}", "\u{10ffff}", "\u{fffd}",
    "\u{2028}", "\u{df}", "\u{130}", "\u{a0}",
];

fn text() -> impl Strategy<Value = String> {
    prop_oneof![
        3 => select(FRAGS).prop_map(|s| s.to_string()),
        3 => proptest::collection::vec(select(FRAGS), 0..4).prop_map(|v| v.concat()),
        1 => select(&["xyz.radicle.project", "name", "description", "defaultBranch", "type", "allow"][..]).prop_map(|s| s.to_string()),
    ]
}

fn json_leaf() -> impl Strategy<Value = J> {
    prop_oneof![
        1 => Just(J::Null),
        1 => any::<bool>().prop_map(J::Bool),
        2 => select(&[0i64, 1, -1, 2, 255, 256, i64::MIN, i64::MAX, 4294967296][..]).prop_map(J::Int),
        1 => select(&[u64::MAX, i64::MAX as u64 + 1][..]).prop_map(J::UInt),
        1 => (any::<i16>(), -3i8..40).prop_map(|(m, e)| J::Float(m, e)),
        6 => text().prop_map(J::Str),
    ]
}

fn json(float_weight: bool) -> BoxedStrategy<J> {
    let leaf = if float_weight {
        json_leaf().boxed()
    } else {
        json_leaf().prop_filter_map("no floats", |j| if matches!(j, J::Float(..)) { None } else { Some(j) }).boxed()
    };
    leaf.prop_recursive(3, 16, 4, |inner| {
        prop_oneof![
            6 => proptest::collection::vec(inner.clone(), 0..4).prop_map(J::Arr),
            6 => proptest::collection::vec((text(), inner.clone()), 0..4).prop_map(J::Obj),
            // two keys that are equal after NFC
            1 => (select(&[("e\u{301}", "\u{e9}"), ("\u{e9}", "e\u{301}"), ("\u{1100}\u{1161}", "\u{ac00}"), ("\u{212b}", "\u{c5}"), ("A\u{30a}", "\u{212b}")][..]), inner.clone(), inner)
                .prop_map(|((a, b), x, y)| J::Obj(vec![(a.to_string(), x), (b.to_string(), y)])),
        ]
    })
    .boxed()
}

fn payload_key() -> impl Strategy<Value = String> {
    prop_oneof![
        4 => Just("xyz.radicle.project".to_string()),
        2 => select(&["a.b", "xyz.radicle.crefs", "x", "a1.b2.c3", "\u{1100}\u{1161}.x", "\u{212b}", "\u{c5}", "\u{ac00}.x", "caf\u{e9}"][..])
            .prop_map(|s| s.to_string()),
        1 => text(),
    ]
}

fn project_payload() -> impl Strategy<Value = J> {
    (text(), text(), select(&["master", "main", "dev/\u{1100}\u{1161}", "\u{e9}"][..])).prop_map(|(n, d, b)| {
        J::Obj(vec![
            ("name".into(), J::Str(n)),
            ("description".into(), J::Str(d)),
            ("defaultBranch".into(), J::Str(b.to_string())),
        ])
    })
}

fn payload_map(floats: bool) -> impl Strategy<Value = Vec<(String, J)>> {
    proptest::collection::vec((payload_key(), prop_oneof![2 => project_payload().boxed(), 3 => json(floats)]), 0..3)
}

/// Delegate token list: `d` distinct keys starting at `off`, `dups` repeated
/// entries, shuffled; optionally a malformed entry.
fn delegate_list(valid_only: bool) -> BoxedStrategy<Vec<Tok>> {
    let d = if valid_only {
        prop_oneof![16 => 1usize..=6, 4 => 7usize..=40, 1 => select(&[254usize, 255][..])].boxed()
    } else {
        prop_oneof![
            1 => Just(0usize),
            28 => 1usize..=6,
            6 => 7usize..=40,
            2 => select(&[253usize, 254, 255][..]),
            2 => select(&[256usize, 257, 300][..]),
        ]
        .boxed()
    };
    (d, 0usize..POOL, prop_oneof![4 => Just(0usize), 3 => 1usize..=3, 1 => 20usize..=60])
        .prop_flat_map(move |(d, off, dups)| {
            let base: Vec<Tok> = (0..d).map(|i| Tok::Key(((off + i) % POOL) as u16)).collect();
            let dup = if d == 0 {
                Just(vec![]).boxed()
            } else {
                proptest::collection::vec((0..d).prop_map(move |i| Tok::Key(((off + i) % POOL) as u16)), dups).boxed()
            };
            let bad = if valid_only {
                Just(None).boxed()
            } else {
                prop_oneof![
                    24 => Just(None),
                    1 => (0u8..BAD_DIDS.len() as u8).prop_map(|i| Some(Tok::Bad(i))),
                    1 => json_leaf().prop_map(|j| Some(Tok::Raw(j))),
                ]
                .boxed()
            };
            (Just(base), dup, bad)
        })
        .prop_flat_map(|(mut base, dup, bad)| {
            base.extend(dup);
            base.extend(bad);
            Just(base).prop_shuffle()
        })
        .boxed()
}

fn stats(t: &[Tok]) -> (usize, usize) {
    let set: BTreeSet<u16> = t.iter().filter_map(|x| if let Tok::Key(i) = x { Some(*i) } else { None }).collect();
    (t.len(), set.len())
}

fn threshold_for(n: usize, d: usize, valid_only: bool) -> BoxedStrategy<ThresholdSpec> {
    let (n, d) = (n as i64, d as i64);
    if valid_only {
        prop_oneof![2 => Just(1i64), 2 => Just(d.max(1)), 2 => 1..=d.max(1), 1 => Just((d / 2 + 1).max(1))]
            .prop_map(ThresholdSpec::Int)
            .boxed()
    } else {
        prop_oneof![
            8 => select(vec![0, 1, d - 1, d, d + 1, n, n + 1, d / 2 + 1, 255, 256, 300]).prop_map(ThresholdSpec::Int),
            6 => select(vec![1, d.max(1), (d - 1).max(1), d / 2 + 1]).prop_map(ThresholdSpec::Int),
            8 => (1..=d.max(1)).prop_map(ThresholdSpec::Int),
            2 => (0i64..=300).prop_map(ThresholdSpec::Int),
            1 => select(&[-1i64, i64::MIN, i64::MAX, 4294967297][..]).prop_map(ThresholdSpec::Int),
            1 => json_leaf().prop_map(ThresholdSpec::Raw),
            1 => Just(ThresholdSpec::Raw(J::UInt(u64::MAX))),
            1 => Just(ThresholdSpec::Absent),
        ]
        .boxed()
    }
}

fn small_toks() -> impl Strategy<Value = Vec<Tok>> {
    proptest::collection::vec((0u16..POOL as u16).prop_map(Tok::Key), 0..4)
}

fn visibility(valid_only: bool) -> BoxedStrategy<VisSpec> {
    if valid_only {
        prop_oneof![
            3 => Just(VisSpec::Absent),
            2 => Just(VisSpec::Public),
            2 => Just(VisSpec::Private),
            2 => small_toks().prop_map(VisSpec::PrivateAllow),
        ]
        .boxed()
    } else {
        prop_oneof![
            12 => Just(VisSpec::Absent),
            4 => Just(VisSpec::Public),
            4 => Just(VisSpec::Private),
            4 => small_toks().prop_map(VisSpec::PrivateAllow),
            1 => small_toks().prop_map(VisSpec::PublicAllow),
            1 => Just(VisSpec::PrivateAllow(vec![Tok::Bad(1)])),
            1 => json_leaf().prop_map(VisSpec::Raw),
            1 => select(&["Public", "secret", ""][..]).prop_map(|t| VisSpec::Raw(J::Obj(vec![("type".into(), J::Str(t.into()))]))),
        ]
        .boxed()
    }
}

fn version(valid_only: bool) -> BoxedStrategy<Option<J>> {
    if valid_only {
        prop_oneof![2 => Just(None), 1 => Just(Some(J::Int(1)))].boxed()
    } else {
        prop_oneof![
            40 => Just(None),
            20 => Just(Some(J::Int(1))),
            2 => Just(Some(J::Int(0))),
            2 => Just(Some(J::Int(2))),
            1 => Just(Some(J::Int(4294967296))),
            1 => Just(Some(J::Int(4294967297))),
            1 => Just(Some(J::Int(4294967295))),
            1 => Just(Some(J::Int(-1))),
            1 => Just(Some(J::Str("1".into()))),
            1 => Just(Some(J::Null)),
            1 => Just(Some(J::Float(0, 0))),
            1 => Just(Some(J::UInt(u64::MAX))),
        ]
        .boxed()
    }
}

fn edit() -> impl Strategy<Value = Option<Edit>> {
    prop_oneof![
        3 => Just(None),
        1 => any::<u16>().prop_map(|i| Some(Edit::AddDelegate(i))),
        1 => any::<u16>().prop_map(|i| Some(Edit::Rescind(i))),
        1 => any::<u16>().prop_map(|i| Some(Edit::SetThreshold(i))),
        1 => any::<u16>().prop_map(|i| Some(Edit::AddAndRaise(i))),
    ]
}

fn json_case(valid_only: bool, floats: bool) -> BoxedStrategy<JsonCase> {
    let delegates = if valid_only {
        delegate_list(true).prop_map(DelegatesSpec::List).boxed()
    } else {
        prop_oneof![
            30 => delegate_list(false).prop_map(DelegatesSpec::List),
            1 => Just(DelegatesSpec::Absent),
            1 => json_leaf().prop_map(DelegatesSpec::Raw),
        ]
        .boxed()
    };
    delegates
        .prop_flat_map(move |ds| {
            let (n, d) = match &ds {
                DelegatesSpec::List(t) => stats(t),
                _ => (0, 0),
            };
            let payload = if valid_only {
                payload_map(floats).prop_map(PayloadSpec::Map).boxed()
            } else {
                prop_oneof![
                    40 => payload_map(floats).prop_map(PayloadSpec::Map),
                    1 => Just(PayloadSpec::Absent),
                    1 => json_leaf().prop_map(PayloadSpec::Raw),
                ]
                .boxed()
            };
            let unknown = prop_oneof![
                3 => Just(vec![]),
                1 => proptest::collection::vec((select(&["extra", "Threshold", "delegate", "\u{e9}", ""][..]).prop_map(|s| s.to_string()), json(true)), 1..3),
            ];
            let dup = if valid_only {
                Just(None).boxed()
            } else {
                prop_oneof![
                    40 => Just(None),
                    1 => (0i64..4).prop_map(|t| Some(Dup::Threshold(t))),
                    1 => small_toks().prop_map(|t| Some(Dup::Delegates(t))),
                    1 => Just(Some(Dup::Version(J::Int(1)))),
                    1 => Just(Some(Dup::Payload)),
                    1 => Just(Some(Dup::Visibility)),
                ]
                .boxed()
            };
            (
                Just(ds),
                threshold_for(n, d, valid_only),
                version(valid_only),
                visibility(valid_only),
                payload,
                unknown,
                dup,
                any::<u8>(),
                edit(),
            )
        })
        .prop_map(|(delegates, threshold, version, visibility, payload, unknown, dup, order, edit)| JsonCase {
            version,
            delegates,
            threshold,
            visibility,
            payload,
            unknown,
            dup,
            order,
            edit,
        })
        .boxed()
}

fn struct_case() -> impl Strategy<Value = StructCase> {
    let name = prop_oneof![
        2 => select(&["heartwood", "a", "a-b_c.d", "\u{e9}", "\u{ac00}", "\u{1100}\u{1161}", "\u{212b}ngstrom", "\u{2126}", "caf\u{e9}", "x\u{1100}\u{1161}\u{11a8}"][..])
            .prop_map(|s| s.to_string()),
        1 => text(),
    ];
    let branch = select(&["master", "main", "dev/x", "\u{1100}\u{1161}", "\u{e9}", "e\u{301}"][..]).prop_map(|s| s.to_string());
    (
        name,
        text(),
        branch,
        proptest::collection::vec(0u16..12, 0..6),
        prop_oneof![3 => Just(1u16), 1 => 0u16..8],
        proptest::option::of(proptest::collection::vec(0u16..POOL as u16, 0..3)),
        proptest::option::of((payload_key(), json(false))),
    )
        .prop_map(|(name, description, branch, delegates, threshold, private, extra_payload)| StructCase {
            name,
            description,
            branch,
            delegates,
            threshold,
            private,
            extra_payload,
        })
}

fn git_init_case() -> impl Strategy<Value = GitInitCase> {
    (json_case(true, false), any::<u16>(), prop_oneof![9 => Just(true), 1 => Just(false)])
        .prop_map(|(doc, signer, signer_is_founder)| GitInitCase { doc, signer, signer_is_founder })
}

fn run(ctx: &Ctx) {
    sha1_selftest();
    // COB commit timestamps: fixed (process-global, set before any case runs).
    std::env::set_var("GIT_COMMITTER_DATE", "1700000000");
    let _ = keys();

    ctx.run("json-arbitrary", json_case(false, true), ctx.cases(20_000, 500_000), |c: &JsonCase| check_json(ctx, c));
    ctx.run("json-valid", json_case(true, true), ctx.cases(10_000, 250_000), |c: &JsonCase| check_json(ctx, c));
    ctx.run("struct-valid", struct_case(), ctx.cases(6_000, 150_000), |c: &StructCase| check_struct(ctx, c));

    {
        let tmp = tempfile::tempdir().expect("tempdir");
        let storage = Storage::open(tmp.path().join("storage"), user()).expect("storage opens");
        let rid = radicle::identity::RepoId::from(git2::Oid::from_bytes(&[0x19; 20]).unwrap());
        let repo = storage.create(rid).expect("scratch repository");
        let lab = GitLab { _tmp: tmp, repo };
        ctx.run("git-load", json_case(false, true), ctx.cases(800, 20_000), |c: &JsonCase| check_git_load(ctx, &lab, c));
    }
    ctx.run("git-init", git_init_case(), ctx.cases(64, 1_600), |c: &GitInitCase| check_git_init(ctx, c));
}
