//! C26 — Terminal truncation stays within width and never panics.
//!
//! Statement: truncating any text or line to a width, with any delimiter, never
//! panics, terminates, and produces output whose display width does not exceed
//! the requested width.
//!
//! Sub-checks
//! * `str-exhaustive` / `str-random`: `Cell::truncate` through every text-like
//!   implementor (`str`, `String`, `Paint<&str>`, `Paint<String>`, `Label`,
//!   `&str`, `Filled<Label>`): no panic, `width(out) <= width`.
//! * `line-exhaustive` / `line-random`: `Line::truncate` (in place, via
//!   `Cell for Line`, via `Filled<Line>`): every case is executed on a worker
//!   thread; the checking thread waits with a watchdog. No panic, returns,
//!   `width(out) <= width`.
//!
//! Display width is always measured with `Cell::width` of the *plain content
//! string* of the result (the measure the property names).
use std::collections::BTreeSet;
use std::sync::atomic::{AtomicBool, Ordering};
use std::sync::mpsc::{channel, Receiver, RecvTimeoutError, Sender};
use std::thread::JoinHandle;
use std::time::Duration;

use proptest::prelude::*;
use radicle_term::cell::Cell;
use radicle_term::{Color, Filled, Label, Line, Paint};
use serde::{Deserialize, Serialize};

use crate::core::*;
use crate::ensure;

pub const PROP: Prop = Prop {
    id: "C26",
    shards: (8, 16),
    level: "exploration",
    rule: "Texts are concatenations of grapheme atoms from classes (ASCII, ASCII whitespace, multi-byte and wide \
           whitespace, CJK, emoji incl. ZWJ/VS16/modifier/flag, combining, zero-width, control) with a biased \
           whitespace tail, or raw `char` vectors; widths are 0..=w+3 (w = display width of the text/line) plus a few \
           huge ones; delimiters come from {\"\", …, ..., 🍎, space, U+3000, ZWSP, combining, VS16} or are atom \
           concatenations. Lines have 0..=5 labels built with item/spaced/from/extend. Non-trivial: the requested \
           width is smaller than the display width of the input (truncation really happens). Distinct = hash of the \
           case. Small alphabets are enumerated exhaustively (all strings up to a length bound x all widths x the \
           design's delimiter set).",
    assumptions: &[
        "display width is what Cell::width reports for the plain content of the result (observe_at of the property)",
        "a Line::truncate call that has not returned after 20 s (a microsecond-scale call) and whose progress model \
         shows a repeating state does not terminate; without a model verdict the wait is extended to 60 s",
    ],
    run,
    budget_s: (900, 7200),
};

// ---------------------------------------------------------------------------
// Domain
// ---------------------------------------------------------------------------

/// Grapheme atoms with their class (class is only used for classification).
const ATOMS: &[(&str, &str)] = &[
    ("a", "ascii"),
    ("Z", "ascii"),
    ("0", "ascii"),
    ("-", "ascii"),
    ("~", "ascii"),
    (" ", "ws-ascii"),
    ("\t", "ws-ascii"),
    ("\n", "ws-ascii"),
    ("\r", "ws-ascii"),
    ("\r\n", "ws-ascii"),
    ("\u{b}", "ws-ascii"),
    ("\u{a0}", "ws-multibyte"),
    ("\u{2003}", "ws-multibyte"),
    ("\u{2009}", "ws-multibyte"),
    ("\u{2028}", "ws-multibyte"),
    ("\u{1680}", "ws-multibyte"),
    ("\u{205f}", "ws-multibyte"),
    ("\u{85}", "ws-multibyte"),
    ("\u{3000}", "ws-wide"),
    ("漢", "wide"),
    ("字", "wide"),
    ("あ", "wide"),
    ("한", "wide"),
    ("ｗ", "wide"),
    ("🍍", "emoji"),
    ("🍎", "emoji"),
    ("👩\u{200d}👩\u{200d}👧", "emoji-seq"),
    ("❤\u{fe0f}", "emoji-seq"),
    ("👍🏻", "emoji-seq"),
    ("🇩🇪", "emoji-seq"),
    ("🇩", "emoji-seq"),
    ("🛡", "emoji"),
    ("e\u{301}", "combining"),
    ("a\u{308}\u{323}", "combining"),
    ("\u{301}", "combining"),
    ("\u{20dd}", "combining"),
    ("\u{200b}", "zero-width"),
    ("\u{200d}", "zero-width"),
    ("\u{200c}", "zero-width"),
    ("\u{feff}", "zero-width"),
    ("\u{ad}", "zero-width"),
    ("\u{fe0f}", "zero-width"),
    ("ß", "latin-multibyte"),
    ("é", "latin-multibyte"),
    ("ж", "latin-multibyte"),
    ("\u{1100}\u{1161}", "jamo"),
    ("क\u{94d}\u{200d}ष", "indic"),
    ("\u{e33}", "combining"),
    ("\u{7f}", "control"),
    ("\u{1b}[31m", "control"),
    ("\u{0}", "control"),
];

/// Whitespace atoms (for the biased tail).
const WS: &[&str] = &[
    " ", " ", "\t", "\n", "\r\n", "\u{a0}", "\u{2003}", "\u{3000}", "\u{2028}", "\u{2009}", "\u{85}", "\u{1680}",
];

/// The design's delimiter set plus a few that are non-empty but unusual.
const DELIMS: &[&str] = &["", "…", "...", "🍎", " ", "\u{3000}", "", "…", "\u{200b}", "\u{301}", "\u{fe0f}", "..", "\n"];

/// Delimiters of the exhaustive sub-spaces (exactly the design's set).
const DELIMS_X: &[&str] = &["", "…", "...", "🍎", " ", "\u{3000}"];

#[derive(Debug, Clone, Serialize, Deserialize, Hash)]
pub struct StrCase {
    text: String,
    width: usize,
    delim: String,
}

#[derive(Debug, Clone, Serialize, Deserialize, Hash)]
pub struct LineCase {
    labels: Vec<String>,
    /// 0: Line::default().item(..)*, 1: Line::spaced, 2: Line::from(Vec<Label>), 3: Line::new(first).extend(rest)
    build: u8,
    /// 0: Line::truncate(&mut), 1: <Line as Cell>::truncate, 2: <Filled<Line> as Cell>::truncate
    via: u8,
    width: usize,
    delim: String,
}

fn w(s: &str) -> usize {
    Cell::width(s)
}

fn ws_only(s: &str) -> bool {
    !s.is_empty() && s.chars().all(char::is_whitespace)
}

// ---------------------------------------------------------------------------
// str-level check
// ---------------------------------------------------------------------------

fn check_str(ctx: &Ctx, sub: &str, c: &StrCase) -> CaseResult {
    let (t, width, d) = (c.text.as_str(), c.width, c.delim.as_str());

    // Every text-like implementor of `Cell`; each returns the plain content of its result.
    let flavours: [(&str, &dyn Fn() -> String); 7] = [
        ("str", &|| <str as Cell>::truncate(t, width, d)),
        ("string", &|| <String as Cell>::truncate(&t.to_owned(), width, d)),
        ("paint-str", &|| <Paint<&str> as Cell>::truncate(&Paint::new(t), width, d).content().to_owned()),
        ("paint-string", &|| {
            <Paint<String> as Cell>::truncate(&Paint::new(t.to_owned()), width, d).content().to_owned()
        }),
        ("label", &|| <Label as Cell>::truncate(&Label::new(t), width, d).content().to_owned()),
        ("ref-str", &|| <&str as Cell>::truncate(&t, width, d)),
        ("filled-label", &|| {
            <Filled<Label> as Cell>::truncate(&Label::new(t).filled(Color::Unset), width, d).content().to_owned()
        }),
    ];
    let mut first: Option<String> = None;
    for (name, f) in flavours {
        let out = match catch(f) {
            Ok(o) => o,
            Err((loc, msg)) => {
                return fail(
                    format!("{name}:panic"),
                    format!("{name}::truncate({t:?}, {width}, {d:?}) panicked at {loc}: {msg}"),
                )
            }
        };
        let ow = w(&out);
        ensure!(
            ow <= width,
            format!("{name}:width"),
            "{name}::truncate({t:?}, {width}, {d:?}) = {out:?} has display width {ow} > {width}"
        );
        if first.is_none() {
            first = Some(out);
        }
    }

    // Classification.
    let out = first.unwrap_or_default();
    let tw = w(t);
    let truncating = width < tw;
    ctx.count(if truncating { "str:truncating" } else { "str:fits" });
    if width == 0 {
        ctx.count("str:width=0");
    }
    ctx.count(match w(d) {
        0 => "str:delim-width=0",
        1 => "str:delim-width=1",
        2 => "str:delim-width=2",
        _ => "str:delim-width>=3",
    });
    if truncating {
        let tail = t.trim_end_matches(char::is_whitespace);
        let tail = &t[tail.len()..];
        if !tail.is_empty() {
            ctx.count("str:truncating,whitespace-tail");
            if tail.chars().any(|ch| ch.len_utf8() > 1) {
                ctx.count("str:truncating,whitespace-tail-multibyte");
            }
        }
        if width < w(d) {
            ctx.count("str:truncating,width<delim");
        } else if out.is_empty() {
            ctx.count("str:truncating,result-empty");
        } else if !d.is_empty() && out.ends_with(d) {
            ctx.count("str:truncating,result-ends-with-delim");
        } else {
            ctx.count("str:truncating,result-without-delim");
        }
        if w(&out) == width {
            ctx.count("str:truncating,result-fills-width");
        }
        if t.chars().any(|ch| w(ch.encode_utf8(&mut [0; 4])) == 2) {
            ctx.count("str:truncating,has-wide");
        }
        ctx.nontrivial(c);
        ctx.sample(sub, c);
    } else if out != t {
        // Not demanded by the statement; recorded only.
        ctx.count("str:fits-but-changed");
    }
    Ok(())
}

// ---------------------------------------------------------------------------
// Line-level check: worker thread + watchdog
// ---------------------------------------------------------------------------

/// Set once any `Line::truncate` call failed to return; from then on this
/// process never calls `Line::truncate` again.
static HUNG: AtomicBool = AtomicBool::new(false);

const WATCHDOG: Duration = Duration::from_secs(20);
const WATCHDOG_EXTENDED: Duration = Duration::from_secs(40);

fn build_line(c: &LineCase) -> Line {
    let labels = || c.labels.iter().map(|s| Label::new(s));
    match c.build {
        0 => labels().fold(Line::default(), |l, x| l.item(x)),
        1 => Line::spaced(labels()),
        2 => Line::from(labels().collect::<Vec<Label>>()),
        _ => {
            let mut it = labels();
            match it.next() {
                Some(first) => Line::new(first).extend(it),
                None => Line::blank(),
            }
        }
    }
}

fn contents(line: Line) -> Vec<String> {
    line.into_iter().map(|l| l.content().to_owned()).collect()
}

/// What the worker reports: plain contents of the labels after truncation and `Line::width`.
type LineOut = Result<(Vec<String>, usize), (String, String)>;

/// The code under test. Only ever called on the worker thread.
fn truncate_line(c: &LineCase) -> LineOut {
    catch(|| {
        let mut line = build_line(c);
        match c.via {
            0 => Line::truncate(&mut line, c.width, &c.delim),
            1 => line = <Line as Cell>::truncate(&line, c.width, &c.delim),
            _ => line = <Filled<Line> as Cell>::truncate(&line.filled(Color::Unset), c.width, &c.delim),
        }
        let lw = Line::width(&line);
        (contents(line), lw)
    })
}

struct Worker {
    tx: Option<Sender<LineCase>>,
    rx: Receiver<LineOut>,
    handle: Option<JoinHandle<()>>,
}

impl Worker {
    fn spawn() -> Self {
        let (tx, rx_case) = channel::<LineCase>();
        let (tx_out, rx) = channel::<LineOut>();
        let handle = std::thread::Builder::new()
            .name("c26-line-worker".into())
            .spawn(move || {
                while let Ok(case) = rx_case.recv() {
                    if tx_out.send(truncate_line(&case)).is_err() {
                        break;
                    }
                }
            })
            .expect("spawn worker");
        Worker { tx: Some(tx), rx, handle: Some(handle) }
    }

    /// Stop the worker. On the pass path the thread is joined (nothing leaks);
    /// after a hang the spinning thread cannot be joined and is abandoned.
    fn finish(mut self, ctx: &Ctx) {
        drop(self.tx.take());
        if HUNG.load(Ordering::SeqCst) {
            ctx.note("line worker thread abandoned after a hang (failure path)");
            return;
        }
        if let Some(h) = self.handle.take() {
            h.join().expect("worker joins");
        }
        // Evidence that nothing leaked: number of OS threads of this process after the join
        // (summed over shards: equals the number of shard processes when nothing leaked).
        let n = std::fs::read_dir("/proc/self/task").map(|d| d.count()).unwrap_or(0);
        ctx.count_n("line:os-threads-after-worker-join(sum over shards)", n as u64);
    }
}

enum Verdict {
    Terminates,
    /// The loop state repeats: (width of the last item, columns available to it).
    Cycle(usize, usize),
    Unknown,
}

/// Progress model of `Line::truncate`: the documented loop (drop trailing labels
/// while the rest is still too wide, otherwise truncate the last label to the
/// remaining columns) replayed with the real `Label::truncate`, with exact
/// detection of a repeating state. Never calls `Line::truncate`.
fn progress_model(c: &LineCase) -> Verdict {
    catch(|| {
        let mut items: Vec<Label> = build_line(c).into_iter().collect();
        let mut seen: BTreeSet<(usize, String)> = BTreeSet::new();
        for _ in 0..100_000 {
            let total: usize = items.iter().map(|l| w(l.content())).sum();
            if total <= c.width {
                return Verdict::Terminates;
            }
            let last = items.last().map_or(0, |l| w(l.content()));
            if total - last > c.width {
                items.pop();
            } else if let Some(item) = items.last_mut() {
                let avail = c.width - (total - last);
                *item = <Label as Cell>::truncate(item, avail, &c.delim);
                if !seen.insert((items.len(), items.last().unwrap().content().to_owned())) {
                    return Verdict::Cycle(last, avail);
                }
            }
        }
        Verdict::Unknown
    })
    .unwrap_or(Verdict::Unknown)
}

fn hang(c: &LineCase, last: usize, avail: usize) -> Fail {
    Fail {
        sig: "line:hang".into(),
        msg: format!(
            "Line::truncate(labels {:?}, width {}, delim {:?}) does not terminate: the last label keeps display \
             width {last} although only {avail} columns are available (watchdog {}s; progress model confirms a \
             repeating state)",
            c.labels,
            c.width,
            c.delim,
            WATCHDOG.as_secs()
        ),
    }
}

fn check_line(ctx: &Ctx, sub: &str, worker: &Worker, c: &LineCase) -> CaseResult {
    if HUNG.load(Ordering::SeqCst) {
        // A hang was already observed in this process (we are shrinking it, or
        // re-evaluating the shrunk case): never call Line::truncate again; the
        // progress model decides which smaller cases still show the hang. The
        // written replay file is re-judged by the real code under the watchdog.
        return match progress_model(c) {
            Verdict::Cycle(last, avail) => Err(hang(c, last, avail)),
            _ => Ok(()),
        };
    }
    let tx = worker.tx.as_ref().expect("worker alive");
    tx.send(c.clone()).expect("worker accepts case");
    let out = match worker.rx.recv_timeout(WATCHDOG) {
        Ok(out) => out,
        Err(RecvTimeoutError::Disconnected) => {
            eprintln!("HARNESS: C26 line worker died");
            std::process::exit(2);
        }
        Err(RecvTimeoutError::Timeout) => match progress_model(c) {
            Verdict::Cycle(last, avail) => {
                HUNG.store(true, Ordering::SeqCst);
                return Err(hang(c, last, avail));
            }
            _ => match worker.rx.recv_timeout(WATCHDOG_EXTENDED) {
                Ok(out) => {
                    ctx.note("a Line::truncate call needed more than 20 s but returned (overloaded machine?)");
                    out
                }
                Err(_) => {
                    HUNG.store(true, Ordering::SeqCst);
                    return fail(
                        "line:hang-unexplained",
                        format!(
                            "Line::truncate(labels {:?}, width {}, delim {:?}) did not return within {} s although \
                             truncating the labels one by one makes progress",
                            c.labels,
                            c.width,
                            c.delim,
                            (WATCHDOG + WATCHDOG_EXTENDED).as_secs()
                        ),
                    );
                }
            },
        },
    };
    let (labels, line_width) = match out {
        Ok(v) => v,
        Err((loc, msg)) => {
            return fail(
                "line:panic",
                format!(
                    "Line::truncate(labels {:?}, width {}, delim {:?}) panicked at {loc}: {msg}",
                    c.labels, c.width, c.delim
                ),
            )
        }
    };
    let sum: usize = labels.iter().map(|l| w(l)).sum();
    let joined = w(&labels.concat());
    ensure!(
        sum <= c.width && line_width <= c.width && joined <= c.width,
        "line:width",
        "Line::truncate(labels {:?}, width {}, delim {:?}) = {labels:?}: display width {sum} (Line::width {line_width}, \
         as one string {joined}) > {}",
        c.labels,
        c.width,
        c.delim,
        c.width
    );

    // Classification (input widths via a second, untouched build of the line).
    let input = contents(build_line(c));
    let total: usize = input.iter().map(|l| w(l)).sum();
    ctx.count(&format!("line:labels={}", c.labels.len()));
    ctx.count(match w(&c.delim) {
        0 => "line:delim-width=0",
        1 => "line:delim-width=1",
        _ => "line:delim-width>=2",
    });
    if total > c.width {
        ctx.count("line:truncating");
        if labels.len() < input.len() {
            ctx.count("line:truncating,labels-dropped");
        }
        // (The loop always ends by cutting the last remaining label, possibly to nothing.)
        if labels.last().is_some_and(|l| l.is_empty()) {
            ctx.count("line:truncating,last-label-cut-to-nothing");
        }
        if input.iter().any(|l| l.trim_end_matches(char::is_whitespace) != l || ws_only(l)) {
            ctx.count("line:truncating,label-with-whitespace-tail");
        }
        if sum == c.width {
            ctx.count("line:truncating,result-fills-width");
        }
        ctx.nontrivial(c);
        ctx.sample(sub, c);
    } else {
        ctx.count("line:fits");
    }
    Ok(())
}

// ---------------------------------------------------------------------------
// Generators
// ---------------------------------------------------------------------------

fn atoms(max: usize) -> impl Strategy<Value = String> {
    proptest::collection::vec(any::<u16>(), 0..=max)
        .prop_map(|v| v.into_iter().map(|i| ATOMS[pick(i, ATOMS.len())].0).collect::<String>())
}

fn ws_tail() -> impl Strategy<Value = String> {
    prop_oneof![
        3 => Just(String::new()),
        3 => proptest::collection::vec(any::<u16>(), 1..=3)
            .prop_map(|v| v.into_iter().map(|i| WS[pick(i, WS.len())]).collect::<String>()),
    ]
}

fn text(max: usize) -> impl Strategy<Value = String> {
    prop_oneof![
        6 => (atoms(max), ws_tail()).prop_map(|(a, b)| a + &b),
        1 => (proptest::collection::vec(any::<char>(), 0..=max), ws_tail())
            .prop_map(|(v, b)| v.into_iter().collect::<String>() + &b),
    ]
}

fn delim() -> impl Strategy<Value = String> {
    prop_oneof![
        5 => any::<u16>().prop_map(|i| DELIMS[pick(i, DELIMS.len())].to_owned()),
        1 => atoms(3),
    ]
}

/// Requested width: mostly 0..=total+3 (monotone in `sel`), rarely huge.
fn width_for(total: usize, sel: u16, huge: u8) -> usize {
    match huge {
        0 => usize::MAX,
        1 => usize::MAX / 2,
        _ => pick(sel, total + 4),
    }
}

fn str_case() -> impl Strategy<Value = StrCase> {
    (text(10), delim(), any::<u16>(), 0u8..100).prop_map(|(text, delim, sel, huge)| {
        let width = width_for(w(&text), sel, huge);
        StrCase { text, width, delim }
    })
}

fn line_case() -> impl Strategy<Value = LineCase> {
    (proptest::collection::vec(text(5), 0..=5), 0u8..4, 0u8..3, delim(), any::<u16>(), 0u8..100).prop_map(
        |(labels, build, via, delim, sel, huge)| {
            let mut c = LineCase { labels, build, via, width: 0, delim };
            let total: usize = contents(build_line(&c)).iter().map(|l| w(l)).sum();
            c.width = width_for(total, sel, huge);
            c
        },
    )
}

/// All strings of at most `len` atoms over `alphabet`.
fn strings(alphabet: &'static [&'static str], len: usize) -> Vec<String> {
    let mut all = vec![String::new()];
    let mut layer = vec![String::new()];
    for _ in 0..len {
        layer = layer.iter().flat_map(|s| alphabet.iter().map(move |a| format!("{s}{a}"))).collect();
        all.extend(layer.iter().cloned());
    }
    all
}

const ALPHA_STR: &[&str] = &["a", " ", "漢", "\u{3000}", "\u{2003}", "e\u{301}", "🍍", "\t", "\u{200b}", "\u{a0}"];
const ALPHA_LINE: &[&str] = &["a", " ", "漢", "\u{3000}", "\u{2003}", "e\u{301}"];

fn exhaustive_str(len: usize) -> impl Iterator<Item = StrCase> {
    strings(ALPHA_STR, len).into_iter().flat_map(|text| {
        let tw = w(&text);
        (0..=tw + 1).flat_map(move |width| {
            let text = text.clone();
            DELIMS_X.iter().map(move |d| StrCase { text: text.clone(), width, delim: d.to_string() })
        })
    })
}

fn exhaustive_line(nlabels: usize, len: usize) -> impl Iterator<Item = LineCase> {
    let pool = strings(ALPHA_LINE, len);
    let mut lines: Vec<Vec<String>> = vec![vec![]];
    let mut layer: Vec<Vec<String>> = vec![vec![]];
    for _ in 0..nlabels {
        layer = layer
            .iter()
            .flat_map(|l| {
                pool.iter().map(move |s| {
                    let mut l = l.clone();
                    l.push(s.clone());
                    l
                })
            })
            .collect();
        lines.extend(layer.iter().cloned());
    }
    lines.into_iter().enumerate().flat_map(|(i, labels)| {
        let total: usize = labels.iter().map(|l| w(l)).sum();
        (0..=total + 1).flat_map(move |width| {
            let labels = labels.clone();
            DELIMS_X.iter().map(move |d| LineCase {
                labels: labels.clone(),
                build: if i % 5 == 4 { 1 } else { 2 },
                via: (i % 3) as u8,
                width,
                delim: d.to_string(),
            })
        })
    })
}

fn run(ctx: &Ctx) {
    // --- text-like cells
    let x = if ctx.quick() { 3 } else { 5 };
    ctx.enumerate("str-exhaustive", exhaustive_str(x), true, |c: &StrCase| check_str(ctx, "str-exhaustive", c));
    ctx.run("str-random", str_case(), ctx.cases(300_000, 6_000_000), |c: &StrCase| check_str(ctx, "str-random", c));

    // --- lines (worker thread + watchdog)
    let worker = Worker::spawn();
    let hung = || HUNG.load(Ordering::SeqCst);
    if !hung() {
        let (n, len) = if ctx.quick() { (2, 2) } else { (3, 2) };
        ctx.enumerate("line-exhaustive", exhaustive_line(n, len), true, |c: &LineCase| {
            check_line(ctx, "line-exhaustive", &worker, c)
        });
    }
    if !hung() {
        ctx.run("line-random", line_case(), ctx.cases(200_000, 4_000_000), |c: &LineCase| {
            check_line(ctx, "line-random", &worker, c)
        });
    }
    if hung() {
        ctx.note("Line sub-checks stop after the first hang: no further Line::truncate calls in this process");
    }
    worker.finish(ctx);
}
