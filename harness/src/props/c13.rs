//! C13 — No input from a remote peer can crash the node.
use std::io::Cursor;
use std::sync::atomic::Ordering;

use proptest::prelude::*;
use radicle::identity::Visibility;
use radicle_node::deserializer::Deserializer;
use radicle_node::prelude::*;
use radicle_node::service::io::Io;
use radicle_node::service::message::*;
use radicle_node::service::policy::{Scope, SeedingPolicy};
use radicle_node::service::ServiceState;
use radicle_node::wire::verif::{Control, Frame, FrameData, StreamId};
use radicle_node::worker::verif::git_request;
use radicle_node::Link;
use serde::{Deserialize, Serialize};
use serde_json::json;

use crate::core::*;
use crate::ensure;
use crate::lab::service::*;

pub const PROP: Prop = Prop {
    id: "C13",
    shards: (16, 16),
    level: "exploration",
    rule: "Three generated input families, each must never panic/abort: (messages) sequences (<= 25) of well-formed \
           gossip messages with boundary values (timestamps 0/1/now/i64::MAX, since>until, empty and maximal vectors, \
           ping/pong sizes at and above the limits, self-announcements, unknown repositories, forged signatures) from peers \
           in every session state, interleaved with ticks/connects/disconnects, into the real Service; afterwards the \
           service must still accept an honest announcement, and a message event may only disconnect its sender. \
           (frames) byte streams = mutated valid frame encodings, boundary varints and random bytes fed in random chunks \
           to Deserializer<Frame>; decoded gossip is dispatched to the Service. (pktline) git request headers: every \
           4-hex length prefix class x body shape, non-hex and non-UTF-8 prefixes, through the real pkt-line parser. \
           Non-trivial: a message sequence containing >= 1 boundary-valued message that reached a handler, a byte \
           stream from which >= 1 frame was decoded before an error, a pkt-line whose length prefix parsed as hex. \
           Distinct = hash of the case.",
    assumptions: &[
        "a single allocation request above 1 GiB during frame decoding is reported as a violation (the process would abort)",
        "worker streams (git data after the request header) are not executed",
    ],
    run,
    budget_s: (900, 7200),
};

// ---------------------------------------------------------------- messages

#[derive(Debug, Clone, Serialize, Deserialize, Hash)]
pub enum Ts {
    Zero,
    One,
    Now,
    NowMinus(u32),
    NowPlus(u32),
    Max,
}

#[derive(Debug, Clone, Serialize, Deserialize, Hash)]
pub enum Msg {
    Node { announcer: u8, ts: Ts, addrs: u8, alias_len: u8, bad_sig: bool },
    Inventory { announcer: u8, ts: Ts, items: u16, bad_sig: bool },
    Refs { announcer: u8, ts: Ts, repo: u8, refs: u16, own_remote: bool, bad_sig: bool },
    Subscribe { since: Ts, until: Ts, filter: u8 },
    Ping { ponglen: u16, zeroes: u16 },
    Pong { zeroes: u16 },
    Info { repo: u8 },
}

#[derive(Debug, Clone, Serialize, Deserialize, Hash)]
pub enum Ev {
    Recv { from: u8, msg: Msg },
    Tick { class: u8 },
    Connect { peer: u8, outbound: bool },
    Disconnect { peer: u8 },
    /// message from a peer that has no session at all
    RecvNoSession { from: u8, msg: Msg },
}

#[derive(Debug, Clone, Serialize, Deserialize, Hash)]
pub struct MsgCase {
    seed: u8,
    events: Vec<Ev>,
}

fn ts_strategy() -> impl Strategy<Value = Ts> {
    prop_oneof![
        3 => Just(Ts::Zero),
        1 => Just(Ts::One),
        4 => Just(Ts::Now),
        2 => any::<u32>().prop_map(Ts::NowMinus),
        2 => any::<u32>().prop_map(Ts::NowPlus),
        2 => Just(Ts::Max),
    ]
}

fn msg_strategy() -> impl Strategy<Value = Msg> {
    let sizes16 = prop_oneof![Just(0u16), Just(1), Just(2), Just(1023), Just(1024), Just(2972), Just(2973), any::<u16>()];
    let ping = prop_oneof![
        Just(0u16),
        Just(1),
        Just(Ping::MAX_PONG_ZEROES - 1),
        Just(Ping::MAX_PONG_ZEROES),
        Just(Ping::MAX_PONG_ZEROES + 1),
        Just(u16::MAX),
        any::<u16>()
    ];
    prop_oneof![
        3 => (0u8..5, ts_strategy(), 0u8..=16, 0u8..=32, proptest::bool::weighted(0.1))
            .prop_map(|(announcer, ts, addrs, alias_len, bad_sig)| Msg::Node { announcer, ts, addrs, alias_len, bad_sig }),
        3 => (0u8..5, ts_strategy(), sizes16.clone(), proptest::bool::weighted(0.1))
            .prop_map(|(announcer, ts, items, bad_sig)| Msg::Inventory { announcer, ts, items, bad_sig }),
        3 => (0u8..5, ts_strategy(), 0u8..3, sizes16, any::<bool>(), proptest::bool::weighted(0.1))
            .prop_map(|(announcer, ts, repo, refs, own_remote, bad_sig)| Msg::Refs { announcer, ts, repo, refs, own_remote, bad_sig }),
        4 => (ts_strategy(), ts_strategy(), 0u8..3).prop_map(|(since, until, filter)| Msg::Subscribe { since, until, filter }),
        2 => (ping.clone(), ping.clone()).prop_map(|(ponglen, zeroes)| Msg::Ping { ponglen, zeroes }),
        1 => ping.prop_map(|zeroes| Msg::Pong { zeroes }),
        1 => (0u8..3).prop_map(|repo| Msg::Info { repo }),
    ]
}

fn ev_strategy() -> impl Strategy<Value = Ev> {
    prop_oneof![
        12 => (0u8..3, msg_strategy()).prop_map(|(from, msg)| Ev::Recv { from, msg }),
        2 => (0u8..4).prop_map(|class| Ev::Tick { class }),
        2 => (0u8..3, any::<bool>()).prop_map(|(peer, outbound)| Ev::Connect { peer, outbound }),
        1 => (0u8..3).prop_map(|peer| Ev::Disconnect { peer }),
        1 => (msg_strategy()).prop_map(|msg| Ev::RecvNoSession { from: 3, msg }),
    ]
}

const TICKS: [u64; 4] = [0, 6_000, 31_000, 1_900_000];

fn resolve_ts(ts: &Ts, now: u64) -> Timestamp {
    let v = match ts {
        Ts::Zero => 0,
        Ts::One => 1,
        Ts::Now => now,
        Ts::NowMinus(d) => now.saturating_sub(*d as u64),
        Ts::NowPlus(d) => now + *d as u64,
        Ts::Max => *Timestamp::MAX,
    };
    Timestamp::try_from(v).unwrap()
}

fn is_boundary(m: &Msg) -> bool {
    match m {
        Msg::Node { ts, addrs, alias_len, .. } => matches!(ts, Ts::Zero | Ts::One | Ts::Max) || *addrs == 0 || *addrs == 16 || *alias_len >= 32,
        Msg::Inventory { ts, items, .. } => matches!(ts, Ts::Zero | Ts::One | Ts::Max) || *items == 0 || *items >= 2973,
        Msg::Refs { ts, refs, .. } => matches!(ts, Ts::Zero | Ts::One | Ts::Max) || *refs == 0 || *refs >= 1024,
        Msg::Subscribe { since, until, .. } => {
            matches!(since, Ts::Max) || matches!(until, Ts::Zero | Ts::One) || matches!((since, until), (Ts::Now, Ts::NowMinus(_)))
        }
        Msg::Ping { ponglen, .. } => *ponglen >= Ping::MAX_PONG_ZEROES,
        Msg::Pong { .. } => false,
        Msg::Info { .. } => false,
    }
}

fn build_msg(lab: &Lab, m: &Msg, rids: &[RepoId]) -> Message {
    let now = *lab.now_ts();
    let n = lab.nid();
    let signer_of = |a: u8| -> &radicle::node::device::Device<radicle::crypto::test::signer::MockSigner> {
        if a as usize >= lab.remotes.len() {
            lab.node.signer()
        } else {
            &lab.remotes[a as usize].signer
        }
    };
    let spoil = |mut a: Announcement, bad: bool| -> Announcement {
        if bad {
            let mut b: [u8; 64] = **a.signature;
            b[7] ^= 0x10;
            a.signature = radicle::crypto::Signature::from(b);
        }
        a
    };
    match m {
        Msg::Node { announcer, ts, addrs, alias_len, bad_sig } => {
            let timestamp = resolve_ts(ts, now);
            let alias: String = "a".repeat((*alias_len).max(1) as usize);
            let addresses: Vec<Address> = (0..*addrs)
                .map(|i| Address::from(std::net::SocketAddr::from(([45, 77, i, 1], 8776))))
                .collect();
            let na = NodeAnnouncement {
                version: radicle_node::PROTOCOL_VERSION,
                features: radicle::node::Features::SEED,
                timestamp,
                alias: std::str::FromStr::from_str(&alias).unwrap(),
                addresses: addresses.try_into().unwrap(),
                nonce: 0,
                agent: std::str::FromStr::from_str("/radicle:test/").unwrap(),
            }
            .solve(0)
            .unwrap();
            Message::Announcement(spoil(AnnouncementMessage::from(na).signed(signer_of(*announcer)), *bad_sig))
        }
        Msg::Inventory { announcer, ts, items, bad_sig } => {
            let timestamp = resolve_ts(ts, now);
            let k = (*items as usize).min(INVENTORY_LIMIT);
            let inv: Vec<RepoId> = (0..k)
                .map(|i| {
                    if i < rids.len() {
                        rids[i]
                    } else {
                        let mut b = [0u8; 20];
                        b[0] = 0xEE;
                        b[1] = (i >> 8) as u8;
                        b[2] = i as u8;
                        RepoId::from(radicle::git::Oid::try_from(&b[..]).unwrap())
                    }
                })
                .collect();
            let ia = InventoryAnnouncement { inventory: inv.try_into().unwrap(), timestamp };
            Message::Announcement(spoil(AnnouncementMessage::from(ia).signed(signer_of(*announcer)), *bad_sig))
        }
        Msg::Refs { announcer, ts, repo, refs, own_remote, bad_sig } => {
            let timestamp = resolve_ts(ts, now);
            let k = (*refs as usize).min(REF_REMOTE_LIMIT);
            let mut v: Vec<radicle::storage::refs::RefsAt> = (0..k)
                .map(|i| {
                    let mut seed = [0u8; 32];
                    seed[0] = 0xF0;
                    seed[1] = (i >> 8) as u8;
                    seed[2] = i as u8;
                    // cheap distinct "keys": reuse a handful of real keys, vary the oid
                    let id = lab.remotes[i % lab.remotes.len()].id;
                    radicle::storage::refs::RefsAt { remote: id, at: oid_of(0xC0 | (i >> 8) as u8, i as u8) }
                })
                .collect();
            if *own_remote && !v.is_empty() {
                v[0].remote = n;
            }
            let ra = RefsAnnouncement { rid: rids[*repo as usize], refs: v.try_into().unwrap(), timestamp };
            Message::Announcement(spoil(AnnouncementMessage::from(ra).signed(signer_of(*announcer)), *bad_sig))
        }
        Msg::Subscribe { since, until, filter } => {
            let f = match filter {
                0 => Filter::default(),
                1 => Filter::new(rids.iter().copied()),
                _ => Filter::new(std::iter::empty::<RepoId>()),
            };
            Message::Subscribe(Subscribe { filter: f, since: resolve_ts(since, now), until: resolve_ts(until, now) })
        }
        Msg::Ping { ponglen, zeroes } => Message::Ping(Ping { ponglen: *ponglen, zeroes: ZeroBytes::new(*zeroes) }),
        Msg::Pong { zeroes } => Message::Pong { zeroes: ZeroBytes::new(*zeroes) },
        Msg::Info { repo } => Message::Info(Info::RefsAlreadySynced { rid: rids[*repo as usize], at: oid_of(1, 2) }),
    }
}

fn msg_world(seed: u8) -> (Lab, Vec<RepoId>) {
    let ids: Vec<NodeId> = (0..4u8).map(|i| Remote::new(i, false).id).collect();
    let repos = vec![mock_repo(0, &[ids[0]], Visibility::Public), mock_repo(1, &[ids[1]], Visibility::private([]))];
    let unknown = mock_repo(2, &[ids[2]], Visibility::Public).0;
    let rids = vec![repos[0].0, repos[1].0, unknown];
    let mut lab: Lab = Lab::new(LabConfig {
        seed: seed as u64,
        remotes: 4,
        routable_remotes: false,
        repos,
        policy: SeedingPolicy::Allow { scope: Scope::All },
        tweak: Box::new(|cfg| {
            cfg.relay = radicle::node::config::Relay::Always;
        }),
        import_addresses: vec![0, 1],
    });
    for rid in &rids[..2] {
        lab.set_own_refs(*rid, 1);
    }
    lab.connect_inbound(0);
    lab.connect_outbound(1);
    lab.deliver(1, Message::Subscribe(Subscribe::all()));
    lab.drain();
    (lab, rids)
}

fn check_messages(ctx: &Ctx, c: &MsgCase) -> CaseResult {
    let (mut lab, rids) = msg_world(c.seed);
    let mut boundary_reached = 0;
    for (step, ev) in c.events.iter().enumerate() {
        let mut sender: Option<NodeId> = None;
        match ev {
            Ev::Recv { from, msg } => {
                let i = *from as usize;
                let m = build_msg(&lab, msg, &rids);
                if lab.is_connected(i) && is_boundary(msg) {
                    boundary_reached += 1;
                }
                ctx.count(match msg {
                    Msg::Node { .. } => "msg:node",
                    Msg::Inventory { .. } => "msg:inventory",
                    Msg::Refs { .. } => "msg:refs",
                    Msg::Subscribe { .. } => "msg:subscribe",
                    Msg::Ping { .. } => "msg:ping",
                    Msg::Pong { .. } => "msg:pong",
                    Msg::Info { .. } => "msg:info",
                });
                sender = Some(lab.remotes[i].id);
                lab.deliver(i, m);
            }
            Ev::RecvNoSession { from, msg } => {
                let i = *from as usize;
                let m = build_msg(&lab, msg, &rids);
                sender = Some(lab.remotes[i].id);
                lab.deliver(i, m);
            }
            Ev::Tick { class } => lab.elapse(TICKS[*class as usize]),
            Ev::Connect { peer, outbound } => {
                let i = *peer as usize;
                if !lab.is_connected(i) {
                    if *outbound {
                        lab.connect_outbound(i);
                    } else {
                        lab.connect_inbound(i);
                    }
                }
            }
            Ev::Disconnect { peer } => {
                let i = *peer as usize;
                if let Some(l) = lab.session_link(i) {
                    lab.disconnect(i, l);
                }
            }
        }
        // "Invalid input leads at most to that peer being disconnected"
        let ios = lab.drain();
        for io in &ios {
            if let Io::Disconnect(id, reason) = io {
                if let Some(s) = sender {
                    ensure!(
                        *id == s,
                        "message-disconnected-another-peer",
                        "step {step} {ev:?}: a message from {s} made the node disconnect {id} ({reason})"
                    );
                }
                if let Some(sess) = lab.node.sessions().get(id) {
                    let link = sess.link;
                    lab.node.service.disconnected(*id, link, &radicle_node::service::DisconnectReason::connection());
                    lab.drain();
                }
            }
        }
    }
    // The service must still work: an honest, fresh node announcement from an honest peer is stored.
    if !lab.is_connected(2) {
        lab.connect_inbound(2);
    }
    lab.elapse(1_000);
    let ts = Timestamp::try_from(*lab.now_ts() + 5).unwrap();
    let honest = lab.remotes[3].node_announcement(ts, "honest", true);
    let ann = AnnouncementMessage::from(honest).signed(&lab.remotes[3].signer);
    lab.deliver(2, Message::Announcement(ann.clone()));
    let stored = lab.gossip_dump().iter().any(|a| *a == ann);
    // (an earlier, newer-stamped announcement of remote 3 can legitimately shadow it)
    let shadowed = lab
        .gossip_dump()
        .iter()
        .any(|a| a.node == ann.node && matches!(a.message, AnnouncementMessage::Node(_)) && *a.timestamp() >= *ts);
    ensure!(
        stored || shadowed,
        "service-stopped-processing-honest-messages",
        "after the sequence an honest node announcement from a fresh peer was not stored"
    );
    if boundary_reached > 0 {
        ctx.count("case:boundary-message-reached-handler");
        ctx.nontrivial(&c.events);
        ctx.sample("messages", c);
    }
    Ok(())
}

// ---------------------------------------------------------------- frames

#[derive(Debug, Clone, Serialize, Deserialize, Hash)]
pub enum Mut {
    Flip { at: u16, bit: u8 },
    Set { at: u16, val: u8 },
    Truncate { at: u16 },
    Insert { at: u16, bytes: Vec<u8> },
    /// replace the 8 bytes at `at` by an 8-byte varint of this value (length bombs)
    Varint8 { at: u16, val: u64 },
}

#[derive(Debug, Clone, Serialize, Deserialize, Hash)]
pub struct FrameCase {
    /// which golden frames to concatenate
    frames: Vec<u8>,
    muts: Vec<Mut>,
    /// chunk sizes for feeding
    chunks: Vec<u16>,
    random_tail: Vec<u8>,
}

fn golden_frames(lab: &Lab, rids: &[RepoId]) -> Vec<Vec<u8>> {
    let now = *lab.now_ts();
    let mk = |m: Msg| build_msg(lab, &m, rids);
    let _ = now;
    let msgs = vec![
        mk(Msg::Node { announcer: 2, ts: Ts::Now, addrs: 2, alias_len: 5, bad_sig: false }),
        mk(Msg::Inventory { announcer: 0, ts: Ts::Now, items: 3, bad_sig: false }),
        mk(Msg::Refs { announcer: 0, ts: Ts::Now, repo: 0, refs: 2, own_remote: false, bad_sig: false }),
        mk(Msg::Subscribe { since: Ts::Zero, until: Ts::Max, filter: 0 }),
        mk(Msg::Ping { ponglen: 8, zeroes: 4 }),
        mk(Msg::Pong { zeroes: 3 }),
        mk(Msg::Info { repo: 0 }),
        mk(Msg::Inventory { announcer: 1, ts: Ts::Zero, items: 1, bad_sig: false }),
        mk(Msg::Subscribe { since: Ts::Max, until: Ts::Zero, filter: 1 }),
    ];
    let mut out: Vec<Vec<u8>> = msgs.into_iter().map(|m| Frame::gossip(Link::Inbound, m).to_bytes()).collect();
    let sid = StreamId::git(Link::Inbound);
    out.push(Frame::<Message>::control(Link::Inbound, Control::Open { stream: sid }).to_bytes());
    out.push(Frame::<Message>::control(Link::Inbound, Control::Eof { stream: sid }).to_bytes());
    out.push(Frame::<Message>::control(Link::Inbound, Control::Close { stream: sid }).to_bytes());
    out.push(Frame::<Message>::git(sid, b"0032git-upload-pack /rad:z3gqcJUoA1n9HaHKufZs5FCSGazv5\0host=x\0".to_vec()).to_bytes());
    out.push(Frame::<Message>::git(sid, vec![]).to_bytes());
    out
}

fn frame_strategy(ngolden: usize) -> impl Strategy<Value = FrameCase> {
    let m = prop_oneof![
        4 => (any::<u16>(), 0u8..8).prop_map(|(at, bit)| Mut::Flip { at, bit }),
        3 => (any::<u16>(), prop_oneof![Just(0u8), Just(0x3f), Just(0x40), Just(0x7f), Just(0x80), Just(0xbf), Just(0xc0), Just(0xff), any::<u8>()])
            .prop_map(|(at, val)| Mut::Set { at, val }),
        2 => any::<u16>().prop_map(|at| Mut::Truncate { at }),
        2 => (any::<u16>(), proptest::collection::vec(any::<u8>(), 1..12)).prop_map(|(at, bytes)| Mut::Insert { at, bytes }),
        2 => (any::<u16>(), prop_oneof![Just(65_536u64), Just(1 << 20), Just(1 << 31), Just(1 << 32), Just(1 << 40), Just((1 << 62) - 1), any::<u64>().prop_map(|v| v >> 2)])
            .prop_map(|(at, val)| Mut::Varint8 { at, val }),
    ];
    (
        proptest::collection::vec(0u8..ngolden as u8, 0..5),
        proptest::collection::vec(m, 0..4),
        proptest::collection::vec(prop_oneof![Just(1u16), 1u16..16, 1u16..2000], 1..6),
        proptest::collection::vec(any::<u8>(), 0..24),
    )
        .prop_map(|(frames, muts, chunks, random_tail)| FrameCase { frames, muts, chunks, random_tail })
}

thread_local! {
    static FRAME_WORLD: std::cell::RefCell<Option<(Lab, Vec<RepoId>, Vec<Vec<u8>>)>> = const { std::cell::RefCell::new(None) };
}

fn check_frames(ctx: &Ctx, c: &FrameCase) -> CaseResult {
    // A fresh service per case would dominate the cost; the service is shared within the shard and
    // rebuilt whenever a case ended in a failure (state is only ever fed decoded messages).
    let (mut lab, rids, golden) = FRAME_WORLD.with(|w| w.borrow_mut().take()).unwrap_or_else(|| {
        let (lab, rids) = msg_world(7);
        let g = golden_frames(&lab, &rids);
        (lab, rids, g)
    });
    let mut bytes: Vec<u8> = vec![];
    for f in &c.frames {
        bytes.extend_from_slice(&golden[*f as usize % golden.len()]);
    }
    bytes.extend_from_slice(&c.random_tail);
    for m in &c.muts {
        if bytes.is_empty() {
            break;
        }
        match m {
            Mut::Flip { at, bit } => {
                let i = pick(*at, bytes.len());
                bytes[i] ^= 1 << bit;
            }
            Mut::Set { at, val } => {
                let i = pick(*at, bytes.len());
                bytes[i] = *val;
            }
            Mut::Truncate { at } => {
                let i = pick(*at, bytes.len());
                bytes.truncate(i);
            }
            Mut::Insert { at, bytes: b } => {
                let i = pick(*at, bytes.len() + 1);
                for (k, x) in b.iter().enumerate() {
                    bytes.insert(i + k, *x);
                }
            }
            Mut::Varint8 { at, val } => {
                let i = pick(*at, bytes.len());
                let v = (0b11u64 << 62) | (*val & ((1 << 62) - 1));
                let enc = v.to_be_bytes();
                for (k, x) in enc.iter().enumerate() {
                    if i + k < bytes.len() {
                        bytes[i + k] = *x;
                    } else {
                        bytes.push(*x);
                    }
                }
            }
        }
    }
    let dump = serde_json::to_vec(&json!({"sub": "frames", "case": c})).unwrap();
    alloc_guard::TRIP_LIMIT.store(1 << 30, Ordering::Relaxed);
    let mut de: Deserializer<{ 1024 * 1024 * 2 }, Frame> = Deserializer::default();
    let mut decoded = 0usize;
    let mut pos = 0usize;
    let mut ci = 0usize;
    let mut errored = false;
    if !lab.is_connected(0) {
        lab.connect_inbound(0);
    }
    'outer: while pos < bytes.len() {
        let n = (c.chunks[ci % c.chunks.len()] as usize).max(1).min(bytes.len() - pos);
        ci += 1;
        if de.input(&bytes[pos..pos + n]).is_err() {
            break;
        }
        pos += n;
        loop {
            let (r, _max) = alloc_guard::measure(&dump, || catch(|| de.deserialize_next()));
            match r {
                Err((loc, msg)) => {
                    alloc_guard::TRIP_LIMIT.store(usize::MAX, Ordering::Relaxed);
                    return fail(format!("panic@{}", loc_file(&loc)), format!("frame decoding panicked at {loc}: {msg}"));
                }
                Ok(Ok(Some(frame))) => {
                    decoded += 1;
                    if let FrameData::Gossip(msg) = frame.data {
                        ctx.count("frames:gossip-dispatched");
                        let id = lab.remotes[0].id;
                        if let Err((loc, msg)) = catch(|| lab.node.service.received_message(id, msg)) {
                            alloc_guard::TRIP_LIMIT.store(usize::MAX, Ordering::Relaxed);
                            return fail(
                                format!("panic@{}", loc_file(&loc)),
                                format!("service panicked on a decoded gossip message at {loc}: {msg}"),
                            );
                        }
                        lab.drain();
                    }
                }
                Ok(Ok(None)) => break,
                Ok(Err(_)) => {
                    errored = true;
                    break 'outer;
                }
            }
        }
    }
    alloc_guard::TRIP_LIMIT.store(usize::MAX, Ordering::Relaxed);
    ctx.count(if errored { "frames:stream-ended-with-error" } else { "frames:stream-consumed" });
    if decoded >= 1 && errored {
        ctx.nontrivial(c);
        ctx.sample("frames", c);
    }
    FRAME_WORLD.with(|w| *w.borrow_mut() = Some((lab, rids, golden)));
    Ok(())
}

// ---------------------------------------------------------------- pkt-line

#[derive(Debug, Clone, Serialize, Deserialize, Hash)]
pub struct PktCase {
    prefix: Vec<u8>,
    body: Vec<u8>,
}

fn pkt_body() -> impl Strategy<Value = Vec<u8>> {
    let valid = "git-upload-pack /rad:z3gqcJUoA1n9HaHKufZs5FCSGazv5\0host=seed.example:8776\0\0version=2\0";
    prop_oneof![
        2 => Just(valid.as_bytes().to_vec()),
        2 => (0usize..valid.len()).prop_map(move |n| valid.as_bytes()[..n].to_vec()),
        2 => proptest::collection::vec(any::<u8>(), 0..64),
        1 => proptest::collection::vec(any::<u8>(), 1000..1100),
        1 => Just(vec![]),
        2 => ("[a-z /:\\x00=.-]{0,80}").prop_map(|s| s.into_bytes()),
        2 => ("(git-upload-pack |git-receive-pack )/?(rad:)?[a-zA-Z0-9]{0,40}(\\x00host=[a-z.:0-9]{0,20})?(\\x00[a-z=0-9]{0,10}){0,3}").prop_map(|s| s.into_bytes()),
    ]
}

fn pkt_strategy() -> impl Strategy<Value = PktCase> {
    let prefix = prop_oneof![
        4 => any::<u16>().prop_map(|n| format!("{n:04x}").into_bytes()),
        2 => (0u16..16).prop_map(|n| format!("{n:04x}").into_bytes()),
        2 => (1018u16..1032).prop_map(|n| format!("{n:04x}").into_bytes()),
        1 => any::<u16>().prop_map(|n| format!("{n:04X}").into_bytes()),
        1 => proptest::collection::vec(any::<u8>(), 0..6),
        1 => "[+ -]?[0-9a-f]{3}".prop_map(|s| s.into_bytes()),
    ];
    (prefix, pkt_body()).prop_map(|(prefix, body)| PktCase { prefix, body })
}

fn check_pkt(ctx: &Ctx, c: &PktCase) -> CaseResult {
    let mut bytes = c.prefix.clone();
    bytes.extend_from_slice(&c.body);
    let hex = std::str::from_utf8(&c.prefix).ok().and_then(|s| usize::from_str_radix(s, 16).ok());
    let mut cur = Cursor::new(bytes);
    let r = catch(|| git_request(&mut cur));
    match r {
        Err((loc, msg)) => fail(
            format!("panic@{}", loc_file(&loc)),
            format!("git request header parser panicked at {loc}: {msg} (declared length {hex:?}, {} body bytes)", c.body.len()),
        ),
        Ok(res) => {
            ctx.count(if res.is_ok() { "pktline:accepted" } else { "pktline:rejected" });
            if let Some(h) = hex {
                if c.prefix.len() == 4 {
                    ctx.count(if h < 4 { "pktline:len<4" } else if h > 1024 { "pktline:len>1024" } else { "pktline:len-in-range" });
                    ctx.nontrivial(c);
                    ctx.sample("pktline", c);
                }
            }
            Ok(())
        }
    }
}

/// All 65536 four-hex-digit length prefixes with three body shapes.
fn pkt_exhaustive() -> impl Iterator<Item = PktCase> {
    let valid = b"git-upload-pack /rad:z3gqcJUoA1n9HaHKufZs5FCSGazv5\0host=seed.example\0".to_vec();
    (0u32..65536).flat_map(move |n| {
        let v = valid.clone();
        (0..3).map(move |shape| PktCase {
            prefix: format!("{n:04x}").into_bytes(),
            body: match shape {
                0 => v.clone(),
                1 => vec![],
                _ => vec![b'x'; 1100],
            },
        })
    })
}

fn run(ctx: &Ctx) {
    let mstrat = |max: usize| (any::<u8>(), proptest::collection::vec(ev_strategy(), 1..max)).prop_map(|(seed, events)| MsgCase { seed, events });
    ctx.run("messages", mstrat(25), ctx.cases(1_600, 60_000), |c: &MsgCase| check_messages(ctx, c));
    ctx.run("messages-short", mstrat(5), ctx.cases(1_600, 60_000), |c: &MsgCase| check_messages(ctx, c));
    ctx.enumerate("pktline-all-length-prefixes", pkt_exhaustive(), true, |c: &PktCase| check_pkt(ctx, c));
    ctx.run("pktline", pkt_strategy(), ctx.cases(100_000, 3_000_000), |c: &PktCase| check_pkt(ctx, c));
    ctx.run("frames", frame_strategy(14), ctx.cases(100_000, 3_000_000), |c: &FrameCase| check_frames(ctx, c));
}

// ---------------------------------------------------------------------------
// Entry point for the coverage-guided target (/verif/harness/fuzz, target `git_request`)
// ---------------------------------------------------------------------------

thread_local! {
    static FUZZ_CTX: Ctx = Ctx::new("C13", Tier::Thorough, 0, 0, 1);
}

/// One libFuzzer iteration: arbitrary bytes as the start of a git stream (request header). The parser may
/// accept or reject, it must not panic (libFuzzer's panic hook aborts, which saves the input).
pub fn fuzz_git_request(data: &[u8]) {
    let cut = data.len().min(4);
    let c = PktCase { prefix: data[..cut].to_vec(), body: data[cut..].to_vec() };
    FUZZ_CTX.with(|ctx| {
        if let Err(f) = check_pkt(ctx, &c) {
            if !ctx.is_known(&f.sig) {
                panic!("VIOLATION property=C13 signature={} {}", f.sig, f.msg);
            }
        }
    });
}
