//! C21 — Textual identifiers round-trip (PublicKey, Did, RepoId, Alias, UserAgent);
//! parsing arbitrary text never panics.
//!
//! Oracle: `parse(print(v)) == v` for values built by construction; the printed
//! text is compared with an independent base58btc reference encoder (canonical
//! form `z…`, `did:key:z…`, `rad:z…`; alias and user agent verbatim); every
//! parser is run over arbitrary text (a panic is reported by the runner as
//! `panic@<file>`), and `Ok(v)` ⇒ `parse(print(v)) == v` with canonical print.
//! `print(parse(s)) == s` is *not* demanded (the statement does not say so).
use std::str::FromStr;

use proptest::prelude::*;
use radicle::crypto::PublicKey;
use radicle::identity::{Did, RepoId};
use radicle::node::{Alias, UserAgent};
use serde::{Deserialize, Serialize};

use crate::core::*;
use crate::ensure;

pub const PROP: Prop = Prop {
    id: "C21",
    shards: (4, 16),
    level: "exploration",
    rule: "Values by construction: 32-byte keys and 20-byte object ids (random, all-zero, all-ones, leading zero \
           bytes), aliases from the documented grammar (no control/whitespace, 1..=32 bytes, multi-byte characters \
           at the byte limit), user agents from the /client:version/ grammar up to 64 bytes. Arbitrary text: random \
           Unicode, every multibase prefix with valid payloads of interesting lengths, single-edit mutations of \
           valid texts, prefix wrappers (did:key:, rad:), near-limit alias/agent strings with forbidden characters; \
           each text goes through all six parsers. Non-trivial: a round-trip case at a boundary (leading zero byte, \
           length limit - 3 or above) or an arbitrary text that at least one parser accepts. Distinct = hash of case.",
    assumptions: &[
        "any 32 bytes are a valid public key value (PublicKey::from([u8; 32]) is total)",
        "valid alias = non-empty, <= 32 bytes, no Unicode control (Cc) or White_Space characters (documented errors)",
        "valid user agent = '/' segments '/' of at most 64 bytes, segment = client[:version], client and version \
         non-empty ASCII graphic without '/' and ':' (the stricter reading of the parser)",
        "Alias::from(&NodeId) yields a 48-byte alias above the documented limit: classified, not failed",
    ],
    run,
    budget_s: (600, 7200),
};

// ---------------------------------------------------------------------------
// Reference base58btc encoder (independent of multibase / base-x)
// ---------------------------------------------------------------------------

const B58: &[u8] = b"123456789ABCDEFGHJKLMNPQRSTUVWXYZabcdefghijkmnopqrstuvwxyz";

fn b58(bytes: &[u8]) -> String {
    let zeros = bytes.iter().take_while(|b| **b == 0).count();
    let mut digits: Vec<u8> = vec![]; // little-endian base-58 digits
    for &b in bytes {
        let mut carry = b as u32;
        for d in digits.iter_mut() {
            carry += (*d as u32) << 8;
            *d = (carry % 58) as u8;
            carry /= 58;
        }
        while carry > 0 {
            digits.push((carry % 58) as u8);
            carry /= 58;
        }
    }
    let mut s = String::with_capacity(zeros + digits.len());
    for _ in 0..zeros {
        s.push('1');
    }
    for d in digits.iter().rev() {
        s.push(B58[*d as usize] as char);
    }
    s
}

fn key_text(bytes: &[u8]) -> String {
    let mut buf = vec![0xed, 0x01];
    buf.extend_from_slice(bytes);
    format!("z{}", b58(&buf))
}

fn key_bytes(pk: &PublicKey) -> Vec<u8> {
    let b: &[u8; 32] = &pk.0;
    b.to_vec()
}

fn rid_bytes(rid: &RepoId) -> Vec<u8> {
    let oid: radicle::git::raw::Oid = (**rid).into();
    oid.as_bytes().to_vec()
}

// ---------------------------------------------------------------------------
// Canonical print + reparse, shared by the by-construction and the arbitrary-text checks
// ---------------------------------------------------------------------------

fn check_key(pk: &PublicKey, what: &str) -> CaseResult {
    let expect = key_text(&key_bytes(pk));
    let human = pk.to_human();
    ensure!(human == expect, format!("{what}:print-canonical"), "to_human {human:?}, reference {expect:?}");
    ensure!(pk.to_string() == expect, format!("{what}:print-canonical"), "Display {:?} != {expect:?}", pk.to_string());
    ensure!(String::from(*pk) == expect, format!("{what}:print-canonical"), "String::from differs from {expect:?}");
    ensure!(
        expect.len() == 48 && expect.starts_with("z6Mk"),
        "harness:key-shape",
        "reference text {expect:?} does not have the z6Mk… shape"
    );
    match PublicKey::from_str(&human) {
        Ok(back) => ensure!(back == *pk, format!("{what}:reparse-differs"), "parse({human:?}) = {back:?}"),
        Err(e) => return fail(format!("{what}:reparse-failed"), format!("parse({human:?}) failed: {e}")),
    }
    match PublicKey::try_from(human.clone()) {
        Ok(back) => ensure!(back == *pk, format!("{what}:reparse-differs"), "try_from({human:?}) = {back:?}"),
        Err(e) => return fail(format!("{what}:reparse-failed"), format!("try_from({human:?}) failed: {e}")),
    }
    // serde form is the same text
    let js = serde_json::to_value(pk).map_err(|e| Fail { sig: format!("{what}:serde"), msg: e.to_string() })?;
    ensure!(js == serde_json::Value::String(expect.clone()), format!("{what}:print-canonical"), "serde form {js}");
    match serde_json::from_value::<PublicKey>(js) {
        Ok(back) => ensure!(back == *pk, format!("{what}:reparse-differs"), "serde round trip gives {back:?}"),
        Err(e) => return fail(format!("{what}:reparse-failed"), format!("serde parse failed: {e}")),
    }
    Ok(())
}

fn check_did(did: &Did, what: &str) -> CaseResult {
    let key: PublicKey = (*did).into();
    let expect = format!("did:key:{}", key_text(&key_bytes(&key)));
    let text = did.encode();
    ensure!(text == expect, format!("{what}:print-canonical"), "encode {text:?}, reference {expect:?}");
    ensure!(did.to_string() == expect, format!("{what}:print-canonical"), "Display {:?}", did.to_string());
    ensure!(String::from(*did) == expect, format!("{what}:print-canonical"), "String::from differs");
    for (name, r) in [
        ("decode", Did::decode(&text)),
        ("from_str", Did::from_str(&text)),
        ("try_from", Did::try_from(text.clone())),
    ] {
        match r {
            Ok(back) => ensure!(back == *did, format!("{what}:reparse-differs"), "{name}({text:?}) = {back:?}"),
            Err(e) => return fail(format!("{what}:reparse-failed"), format!("{name}({text:?}) failed: {e}")),
        }
    }
    let js = serde_json::to_value(did).map_err(|e| Fail { sig: format!("{what}:serde"), msg: e.to_string() })?;
    ensure!(js == serde_json::Value::String(expect.clone()), format!("{what}:print-canonical"), "serde form {js}");
    match serde_json::from_value::<Did>(js) {
        Ok(back) => ensure!(back == *did, format!("{what}:reparse-differs"), "serde round trip gives {back:?}"),
        Err(e) => return fail(format!("{what}:reparse-failed"), format!("serde parse failed: {e}")),
    }
    Ok(())
}

fn check_rid(rid: &RepoId, what: &str) -> CaseResult {
    let canon = format!("z{}", b58(&rid_bytes(rid)));
    let expect = format!("rad:{canon}");
    let urn = rid.urn();
    ensure!(urn == expect, format!("{what}:print-canonical"), "urn {urn:?}, reference {expect:?}");
    ensure!(rid.to_string() == expect, format!("{what}:print-canonical"), "Display {:?}", rid.to_string());
    ensure!(rid.canonical() == canon, format!("{what}:print-canonical"), "canonical {:?} != {canon:?}", rid.canonical());
    for (name, r) in [
        ("from_urn", RepoId::from_urn(&urn)),
        ("from_str", RepoId::from_str(&urn)),
        ("from_canonical", RepoId::from_canonical(&canon)),
        ("from_urn(no prefix)", RepoId::from_urn(&canon)),
    ] {
        match r {
            Ok(back) => ensure!(back == *rid, format!("{what}:reparse-differs"), "{name} of {urn:?} = {back:?}"),
            Err(e) => return fail(format!("{what}:reparse-failed"), format!("{name} of {urn:?} failed: {e}")),
        }
    }
    let js = serde_json::to_value(rid).map_err(|e| Fail { sig: format!("{what}:serde"), msg: e.to_string() })?;
    ensure!(js == serde_json::Value::String(expect.clone()), format!("{what}:print-canonical"), "serde form {js}");
    match serde_json::from_value::<RepoId>(js) {
        Ok(back) => ensure!(back == *rid, format!("{what}:reparse-differs"), "serde round trip gives {back:?}"),
        Err(e) => return fail(format!("{what}:reparse-failed"), format!("serde parse failed: {e}")),
    }
    Ok(())
}

fn check_alias(a: &Alias, what: &str) -> CaseResult {
    let text = a.to_string();
    ensure!(text == a.as_str(), format!("{what}:print-canonical"), "Display {text:?} != as_str {:?}", a.as_str());
    ensure!(String::from(a.clone()) == text, format!("{what}:print-canonical"), "String::from differs");
    match Alias::from_str(&text) {
        Ok(back) => ensure!(back == *a, format!("{what}:reparse-differs"), "parse({text:?}) = {back:?}"),
        Err(e) => return fail(format!("{what}:reparse-failed"), format!("parse({text:?}) failed: {e}")),
    }
    match Alias::try_from(text.clone()) {
        Ok(back) => ensure!(back == *a, format!("{what}:reparse-differs"), "try_from({text:?}) = {back:?}"),
        Err(e) => return fail(format!("{what}:reparse-failed"), format!("try_from({text:?}) failed: {e}")),
    }
    Ok(())
}

fn check_agent(a: &UserAgent, what: &str) -> CaseResult {
    let text = a.to_string();
    ensure!(text == a.as_str(), format!("{what}:print-canonical"), "Display {text:?} != as_str {:?}", a.as_str());
    match UserAgent::from_str(&text) {
        Ok(back) => ensure!(back == *a, format!("{what}:reparse-differs"), "parse({text:?}) = {back:?}"),
        Err(_) => return fail(format!("{what}:reparse-failed"), format!("parse({text:?}) failed")),
    }
    Ok(())
}

// ---------------------------------------------------------------------------
// By-construction round trips
// ---------------------------------------------------------------------------

#[derive(Debug, Clone, Serialize, Deserialize, Hash)]
pub struct Bytes {
    bytes: Vec<u8>,
}

fn check_key_case(ctx: &Ctx, c: &Bytes) -> CaseResult {
    let arr: [u8; 32] = match c.bytes.as_slice().try_into() {
        Ok(a) => a,
        Err(_) => return Ok(()),
    };
    let pk = PublicKey::from(arr);
    ensure!(key_bytes(&pk) == c.bytes, "harness:key-bytes", "key bytes differ from input");
    check_key(&pk, "key")?;
    let did = Did::from(pk);
    check_did(&did, "did")?;
    ensure!(*did.as_key() == pk, "did:key-differs", "Did::as_key differs from the key");
    // a DID text is not a key text and vice versa (never panics; classification only)
    if PublicKey::from_str(&did.encode()).is_ok() {
        ctx.count("key:did-text-accepted-as-key");
    }
    // Alias::from(&NodeId): above the documented length limit
    let alias = Alias::from(&pk);
    match Alias::from_str(alias.as_str()) {
        Ok(_) => ctx.count("alias-from-node-id:reparses"),
        Err(_) => ctx.count("alias-from-node-id:48-bytes-does-not-reparse(counted,outside-valid-values)"),
    }
    let zeros = c.bytes.iter().take_while(|b| **b == 0).count();
    if zeros > 0 {
        ctx.count("key:leading-zero-byte");
    }
    if c.bytes.iter().all(|b| *b == c.bytes[0]) {
        ctx.count("key:constant-bytes");
        ctx.nontrivial(&("key", c));
    }
    if zeros > 0 {
        ctx.nontrivial(&("key", c));
    }
    ctx.sample("key", c);
    Ok(())
}

fn check_rid_case(ctx: &Ctx, c: &Bytes) -> CaseResult {
    let oid = match radicle::git::raw::Oid::from_bytes(&c.bytes) {
        Ok(o) => o,
        Err(_) => return Ok(()),
    };
    let rid = RepoId::from(oid);
    ensure!(rid_bytes(&rid) == c.bytes, "harness:rid-bytes", "oid bytes differ from input");
    check_rid(&rid, "rid")?;
    let zeros = c.bytes.iter().take_while(|b| **b == 0).count();
    ctx.count(&format!("rid:leading-zero-bytes={}", zeros.min(3)));
    ctx.count(&format!("rid:text-len={}", rid.urn().len()));
    if zeros > 0 || c.bytes.iter().all(|b| *b == 0xff) {
        ctx.nontrivial(&("rid", c));
    }
    ctx.sample("rid", c);
    Ok(())
}

#[derive(Debug, Clone, Serialize, Deserialize, Hash)]
pub struct Text {
    s: String,
}

/// Independent definition of the alias alphabet: Unicode Cc and White_Space.
fn is_cc_or_ws(c: char) -> bool {
    let u = c as u32;
    u <= 0x1f
        || (0x7f..=0x9f).contains(&u)
        || matches!(u, 0x20 | 0xa0 | 0x1680 | 0x2028 | 0x2029 | 0x202f | 0x205f | 0x3000)
        || (0x2000..=0x200a).contains(&u)
}

fn check_alias_case(ctx: &Ctx, c: &Text) -> CaseResult {
    let s = &c.s;
    let valid = !s.is_empty() && s.len() <= 32 && !s.chars().any(is_cc_or_ws);
    if !valid {
        // the generator only builds valid ones; replays / shrinks may not be
        ctx.count("alias:invalid-by-grammar(skipped)");
        return Ok(());
    }
    let a = match Alias::from_str(s) {
        Ok(a) => a,
        Err(e) => return fail("alias:valid-rejected", format!("valid alias {s:?} ({} bytes) rejected: {e}", s.len())),
    };
    ensure!(a.as_str() == s, "alias:print-canonical", "alias {s:?} prints as {:?}", a.as_str());
    check_alias(&a, "alias")?;
    ctx.count(&format!("alias:bytes={}", if s.len() >= 29 { s.len().to_string() } else { "<29".into() }));
    if !s.is_ascii() {
        ctx.count("alias:non-ascii");
    }
    if s.len() >= 29 {
        ctx.nontrivial(&("alias", c));
        ctx.sample("alias", c);
    }
    Ok(())
}

fn agent_valid(s: &str) -> bool {
    let ok_char = |c: char| c.is_ascii_graphic() && c != '/' && c != ':';
    if s.len() > 64 || s.len() < 3 || !s.starts_with('/') || !s.ends_with('/') {
        return false;
    }
    s[1..s.len() - 1].split('/').all(|seg| {
        let mut parts = seg.split(':');
        let client = parts.next().unwrap_or("");
        let version = parts.next();
        parts.next().is_none()
            && !client.is_empty()
            && client.chars().all(ok_char)
            && version.map(|v| !v.is_empty() && v.chars().all(ok_char)).unwrap_or(true)
    })
}

fn check_agent_case(ctx: &Ctx, c: &Text) -> CaseResult {
    let s = &c.s;
    if !agent_valid(s) {
        ctx.count("agent:invalid-by-grammar(skipped)");
        return Ok(());
    }
    let a = match UserAgent::from_str(s) {
        Ok(a) => a,
        Err(_) => return fail("agent:valid-rejected", format!("valid user agent {s:?} ({} bytes) rejected", s.len())),
    };
    ensure!(a.as_str() == s, "agent:print-canonical", "agent {s:?} prints as {:?}", a.as_str());
    check_agent(&a, "agent")?;
    ctx.count(&format!("agent:bytes={}", if s.len() >= 61 { s.len().to_string() } else { "<61".into() }));
    ctx.count(&format!("agent:segments={}", s.matches('/').count() - 1));
    if s.len() >= 61 {
        ctx.nontrivial(&("agent", c));
        ctx.sample("agent", c);
    }
    Ok(())
}

// ---------------------------------------------------------------------------
// Arbitrary text through every parser
// ---------------------------------------------------------------------------

fn check_text(ctx: &Ctx, c: &Text) -> CaseResult {
    let s = c.s.as_str();
    let mut accepted = 0;
    // Any panic below propagates to the runner and is reported as `panic@<file>`.
    match PublicKey::from_str(s) {
        Ok(v) => {
            accepted += 1;
            ctx.count(if v.to_human() == s { "text:key-ok-canonical" } else { "text:key-ok-noncanonical-spelling" });
            check_key(&v, "text-key")?;
        }
        Err(_) => ctx.count("text:key-err"),
    }
    match Did::decode(s) {
        Ok(v) => {
            accepted += 1;
            ctx.count(if v.encode() == s { "text:did-ok-canonical" } else { "text:did-ok-noncanonical-spelling" });
            check_did(&v, "text-did")?;
        }
        Err(_) => ctx.count("text:did-err"),
    }
    match RepoId::from_urn(s) {
        Ok(v) => {
            accepted += 1;
            ctx.count(if v.urn() == s { "text:rid-ok-canonical" } else { "text:rid-ok-noncanonical-spelling" });
            check_rid(&v, "text-rid")?;
        }
        Err(_) => ctx.count("text:rid-err"),
    }
    match RepoId::from_canonical(s) {
        Ok(v) => {
            check_rid(&v, "text-rid")?;
        }
        Err(_) => {}
    }
    match Alias::from_str(s) {
        Ok(v) => {
            accepted += 1;
            ctx.count("text:alias-ok");
            check_alias(&v, "text-alias")?;
        }
        Err(_) => ctx.count("text:alias-err"),
    }
    match UserAgent::from_str(s) {
        Ok(v) => {
            accepted += 1;
            ctx.count("text:agent-ok");
            if !agent_valid(s) {
                ctx.count("text:agent-ok-outside-strict-grammar");
            }
            check_agent(&v, "text-agent")?;
        }
        Err(_) => ctx.count("text:agent-err"),
    }
    if !s.is_ascii() {
        ctx.count("text:non-ascii");
    }
    if accepted > 0 {
        ctx.nontrivial(c);
        ctx.sample("text", c);
    }
    Ok(())
}

// ---------------------------------------------------------------------------
// Generators
// ---------------------------------------------------------------------------

fn bytes_n(n: usize) -> impl Strategy<Value = Bytes> {
    prop_oneof![
        4 => proptest::collection::vec(any::<u8>(), n),
        // leading zero bytes
        2 => (1usize..=n, proptest::collection::vec(any::<u8>(), n)).prop_map(|(z, mut v)| {
            for b in v.iter_mut().take(z) {
                *b = 0;
            }
            v
        }),
        1 => proptest::sample::select(vec![0u8, 1, 0x7f, 0x80, 0xff]).prop_map(move |b| vec![b; n]),
        // low-entropy: few distinct byte values
        1 => proptest::collection::vec(proptest::sample::select(vec![0u8, 1, 0xff]), n),
    ]
    .prop_map(|bytes| Bytes { bytes })
}

/// Characters allowed in an alias, by class (1-, 2-, 3- and 4-byte encodings; none is Cc / White_Space).
const ALIAS_CHARS: &[char] = &[
    'a', 'z', 'A', '0', '9', '-', '_', '.', '!', '"', '\\', '/', ':', '~', '\u{a1}', '\u{e9}', '\u{df}', '\u{7ff}',
    '\u{800}', '\u{200b}', '\u{200d}', '\u{feff}', '\u{ac00}', '\u{301}', '\u{fffd}', '\u{ffff}', '\u{10000}',
    '\u{1f600}', '\u{e0001}', '\u{10ffff}', '\u{ad}', '\u{180e}',
];

fn alias_char() -> impl Strategy<Value = char> {
    prop_oneof![
        3 => proptest::sample::select(ALIAS_CHARS),
        2 => (0x21u8..0x7f).prop_map(|b| b as char),
        1 => any::<char>().prop_filter("no Cc/White_Space", |c| !is_cc_or_ws(*c)),
    ]
}

/// Build an alias aiming at `target` bytes: take characters while they fit.
fn alias_text() -> impl Strategy<Value = Text> {
    (
        prop_oneof![3 => Just(32usize), 1 => Just(31usize), 1 => Just(30usize), 2 => 1usize..=32],
        proptest::collection::vec(alias_char(), 1..40),
        // ASCII filler to hit the target exactly when multi-byte characters leave a gap
        any::<bool>(),
    )
        .prop_map(|(target, chars, fill)| {
            let mut s = String::new();
            for c in chars {
                if s.len() + c.len_utf8() <= target {
                    s.push(c);
                }
            }
            while fill && s.len() < target {
                s.push('x');
            }
            if s.is_empty() {
                s.push('a');
            }
            Text { s }
        })
}

fn agent_word(max: usize) -> impl Strategy<Value = String> {
    proptest::collection::vec(
        prop_oneof![
            2 => proptest::sample::select(vec!['a', 'z', 'R', '0', '9', '.', '-', '_', '@', '~', '!', '+', '\\', '"']),
            1 => (0x21u8..0x7f).prop_map(|b| b as char).prop_filter("reserved", |c| *c != '/' && *c != ':'),
        ],
        1..=max,
    )
    .prop_map(|v| v.into_iter().collect())
}

fn agent_text() -> impl Strategy<Value = Text> {
    (
        prop_oneof![3 => Just(64usize), 1 => Just(63usize), 1 => Just(62usize), 2 => 3usize..=64],
        proptest::collection::vec((agent_word(12), proptest::option::of(agent_word(12))), 1..8),
        any::<bool>(),
    )
        .prop_map(|(target, segs, fill)| {
            let mut s = String::from("/");
            for (client, version) in segs {
                let seg = match version {
                    Some(v) => format!("{client}:{v}/"),
                    None => format!("{client}/"),
                };
                if s.len() + seg.len() <= target {
                    s.push_str(&seg);
                }
            }
            if s.len() == 1 {
                s.push_str("r/");
            }
            // stretch the last segment to hit the target length exactly
            while fill && s.len() < target {
                s.insert(s.len() - 1, 'x');
            }
            Text { s }
        })
}

const BASES: &[multibase::Base] = &[
    multibase::Base::Identity,
    multibase::Base::Base2,
    multibase::Base::Base8,
    multibase::Base::Base10,
    multibase::Base::Base16Lower,
    multibase::Base::Base16Upper,
    multibase::Base::Base32Lower,
    multibase::Base::Base32Upper,
    multibase::Base::Base32PadLower,
    multibase::Base::Base32PadUpper,
    multibase::Base::Base32HexLower,
    multibase::Base::Base32HexUpper,
    multibase::Base::Base32HexPadLower,
    multibase::Base::Base32HexPadUpper,
    multibase::Base::Base32Z,
    multibase::Base::Base36Lower,
    multibase::Base::Base36Upper,
    multibase::Base::Base58Flickr,
    multibase::Base::Base58Btc,
    multibase::Base::Base64,
    multibase::Base::Base64Pad,
    multibase::Base::Base64Url,
    multibase::Base::Base64UrlPad,
];

/// Payload for a multibase text: (bytes, kind label index).
fn payload() -> impl Strategy<Value = Vec<u8>> {
    let ascii = |n: usize| proptest::collection::vec(0x20u8..0x7f, n);
    prop_oneof![
        // multicodec ed25519 + 32 bytes (a valid key in any base)
        4 => proptest::collection::vec(any::<u8>(), 32).prop_map(|v| [vec![0xed, 0x01], v].concat()),
        // wrong lengths
        1 => proptest::collection::vec(any::<u8>(), 31).prop_map(|v| [vec![0xed, 0x01], v].concat()),
        1 => proptest::collection::vec(any::<u8>(), 33).prop_map(|v| [vec![0xed, 0x01], v].concat()),
        // wrong multicodec
        1 => (any::<u8>(), any::<u8>(), proptest::collection::vec(any::<u8>(), 32)).prop_map(|(a, b, v)| [vec![a, b], v].concat()),
        1 => Just(vec![0xed]),
        1 => Just(vec![0xed, 0x01]),
        // object ids
        4 => proptest::collection::vec(any::<u8>(), 20),
        1 => (1usize..20, proptest::collection::vec(any::<u8>(), 20)).prop_map(|(z, mut v)| {
            for b in v.iter_mut().take(z) { *b = 0; }
            v
        }),
        1 => proptest::collection::vec(any::<u8>(), 19),
        1 => proptest::collection::vec(any::<u8>(), 21),
        // printable payloads (needed for the identity base, whose text is the payload itself)
        2 => ascii(20),
        1 => ascii(34).prop_map(|mut v| { v[0] = 0xed; v[1] = 0x01; v }),
        1 => proptest::collection::vec(any::<u8>(), 0..40),
        1 => Just(vec![]),
    ]
}

fn multibase_text() -> impl Strategy<Value = String> {
    (0..BASES.len(), payload()).prop_map(|(b, p)| {
        let base = BASES[b];
        if base == multibase::Base::Identity {
            // identity needs a UTF-8 payload; keep what is valid
            let s = String::from_utf8_lossy(&p).into_owned();
            format!("\0{s}")
        } else {
            multibase::encode(base, &p)
        }
    })
}

const POOL: &[char] = &[
    'z', 'Z', '1', '0', 'O', 'I', 'l', 'a', 'f', 'F', 'm', 'u', '=', ' ', '\0', '\n', ':', '/', '-', '_', '+',
    '\u{e9}', '\u{1f600}', '\u{7f}', '6', 'M', 'k', 'h', 'K', '9', '7', '\u{a0}', '\u{85}',
];

fn mutate(s: String, kind: u8, at: u16, ch: char) -> String {
    let mut cs: Vec<char> = s.chars().collect();
    if cs.is_empty() {
        return ch.to_string();
    }
    let i = pick(at, cs.len());
    match kind % 8 {
        0 => cs[i] = ch,
        1 => {
            cs.remove(i);
        }
        2 => cs.insert(i, ch),
        3 => cs.truncate(i),
        4 => cs.push(ch),
        5 => return s.to_uppercase(),
        6 => return s.to_lowercase(),
        _ => cs.swap(i, 0),
    }
    cs.into_iter().collect()
}

const WRAP: &[(&str, &str)] = &[
    ("", ""),
    ("did:key:", ""),
    ("rad:", ""),
    ("did:key:did:key:", ""),
    ("rad:rad:", ""),
    ("DID:KEY:", ""),
    ("did:key", ""),
    ("rad", ""),
    (" ", ""),
    ("", " "),
    ("", "\n"),
    ("did:web:", ""),
    ("rad://", ""),
    ("/", "/"),
];

fn arbitrary_text() -> impl Strategy<Value = Text> {
    let wrapped = |inner: BoxedStrategy<String>| {
        let wrap = prop_oneof![
            6 => Just(("", "")),
            2 => Just(("did:key:", "")),
            2 => Just(("rad:", "")),
            2 => proptest::sample::select(WRAP),
        ];
        (inner, wrap).prop_map(|(s, (pre, post))| format!("{pre}{s}{post}"))
    };
    let valid = multibase_text().boxed();
    let mutated = (multibase_text(), any::<u8>(), any::<u16>(), proptest::sample::select(POOL))
        .prop_map(|(s, k, at, ch)| mutate(s, k, at, ch))
        .boxed();
    let unicode = proptest::collection::vec(any::<char>(), 0..24).prop_map(|v| v.into_iter().collect::<String>()).boxed();
    let pool = proptest::collection::vec(proptest::sample::select(POOL), 0..50)
        .prop_map(|v| v.into_iter().collect::<String>())
        .boxed();
    // near-valid alias / agent texts: one edit with a pool character, or one byte over the limit
    let aliasish = (alias_text(), any::<u8>(), any::<u16>(), proptest::sample::select(POOL))
        .prop_map(|(t, k, at, ch)| if k % 4 == 0 { format!("{}x", t.s) } else { mutate(t.s, k % 5, at, ch) });
    let agentish = (agent_text(), any::<u8>(), any::<u16>(), proptest::sample::select(POOL))
        .prop_map(|(t, k, at, ch)| if k % 4 == 0 { format!("{}x/", t.s) } else { mutate(t.s, k % 5, at, ch) });
    prop_oneof![
        4 => wrapped(valid),
        4 => wrapped(mutated),
        2 => wrapped(unicode),
        2 => wrapped(pool),
        2 => aliasish,
        2 => agentish,
    ]
    .prop_map(|s| Text { s })
}

/// Every string of length <= 3 over a small alphabet, plain and behind the textual prefixes.
fn exhaustive_short() -> impl Iterator<Item = Text> {
    const A: &[&str] = &["z", "1", "6", "f", "0", "m", "=", "\0", " ", ":", "/", "\u{e9}", "\u{1f600}", "k", "Z", "b", "u", "h"];
    let mut words: Vec<String> = vec![String::new()];
    let mut layer = vec![String::new()];
    for _ in 0..3 {
        let mut next = vec![];
        for w in &layer {
            for a in A {
                next.push(format!("{w}{a}"));
            }
        }
        words.extend(next.iter().cloned());
        layer = next;
    }
    words.into_iter().flat_map(|w| {
        ["", "did:key:", "rad:"].into_iter().map(move |p| Text { s: format!("{p}{w}") })
    })
}

/// Every single code point below U+3000 (alias / agent character classes), alone and inside an agent.
fn exhaustive_chars() -> impl Iterator<Item = Text> {
    (0u32..0x3000).filter_map(char::from_u32).flat_map(|c| {
        [format!("{c}"), format!("a{c}b"), format!("/{c}/"), format!("/r:{c}/"), format!("/{c}:1/"), format!("z{c}")]
            .into_iter()
            .map(|s| Text { s })
    })
}

fn run(ctx: &Ctx) {
    ctx.enumerate("exhaustive-short-text", exhaustive_short(), true, |c: &Text| check_text(ctx, c));
    ctx.enumerate("exhaustive-chars", exhaustive_chars(), true, |c: &Text| {
        check_text(ctx, c)?;
        check_alias_case(ctx, c)?;
        check_agent_case(ctx, c)
    });
    ctx.run("key", bytes_n(32), ctx.cases(15_000, 1_000_000), |c: &Bytes| check_key_case(ctx, c));
    ctx.run("rid", bytes_n(20), ctx.cases(15_000, 1_000_000), |c: &Bytes| check_rid_case(ctx, c));
    ctx.run("alias", alias_text(), ctx.cases(15_000, 800_000), |c: &Text| check_alias_case(ctx, c));
    ctx.run("agent", agent_text(), ctx.cases(15_000, 800_000), |c: &Text| check_agent_case(ctx, c));
    ctx.run("text", arbitrary_text(), ctx.cases(100_000, 2_000_000), |c: &Text| check_text(ctx, c));
}
