//! C11 — Private repositories never leak through gossip.
use proptest::prelude::*;
use radicle::identity::{Did, Doc, Visibility};
use radicle::storage::{ReadRepository, ReadStorage, RefUpdate};
use radicle_node::prelude::*;
use radicle_node::service::io::Io;
use radicle_node::service::message::*;
use radicle_node::service::policy::{Scope, SeedingPolicy};
use radicle_node::service::{Command, ServiceState};
use radicle_node::worker::fetch;
use serde::{Deserialize, Serialize};

use crate::core::*;
use crate::lab::service::*;

pub const PROP: Prop = Prop {
    id: "C11",
    shards: (16, 16),
    level: "exploration",
    rule: "Event sequences (<= 30) against a real Service whose storage holds public and private repositories \
           (private with delegate/allow lists) and four peers {delegate, allow-listed, stranger, stranger+announcer}: \
           subscriptions (filters all / one repo / none, since = epoch / now / one hour ago) before and after announcements, \
           the node's own refs announcements, relayed refs announcements of a third node, fetch results, clock ticks, \
           (re)connections, node restarts (new Service on the same databases; storage reports synced_at so the start-up \
           pre-load path runs), visibility flips public<->private, inventory commands. Oracle: every Io::Write of a refs \
           announcement about a repository that is private in storage at send time goes to a delegate or allow-listed \
           peer; no inventory announcement authored by the node lists a repository that is private at send time. \
           Non-trivial: a private refs announcement was in the gossip store when a non-allowed peer with a matching \
           filter subscribed or was connected, or a restart happened with private repositories. Distinct = hash of events.",
    assumptions: &[
        "visibility is read from the storage document at the time of the event (flips are separate events)",
        "refs announcements about repositories that are not in storage are not judged (the node cannot know their visibility); \
         the node does not relay them (counted)",
    ],
    run,
    budget_s: (900, 7200),
};

#[derive(Debug, Clone, Serialize, Deserialize, Hash)]
pub enum Ev {
    Subscribe { peer: u8, filter: u8, since: u8 },
    AnnounceOwnRefs { repo: u8 },
    RelayedRefs { relayer: u8, announcer: u8, repo: u8 },
    Tick { class: u8 },
    Connect { peer: u8, outbound: bool },
    Disconnect { peer: u8 },
    Restart,
    Flip { repo: u8 },
    AnnounceInventory,
    AddInventory { repo: u8 },
    Fetched { repo: u8, peer: u8, clone: bool },
}

#[derive(Debug, Clone, Serialize, Deserialize, Hash)]
pub struct Case {
    seed: u8,
    events: Vec<Ev>,
}

const TICKS: [u64; 4] = [0, 6_000, 61_000, 3_700_000];

fn ev_strategy() -> impl Strategy<Value = Ev> {
    prop_oneof![
        6 => (0u8..4, 0u8..4, 0u8..3).prop_map(|(peer, filter, since)| Ev::Subscribe { peer, filter, since }),
        6 => (0u8..4).prop_map(|repo| Ev::AnnounceOwnRefs { repo }),
        4 => (0u8..4, 0u8..4, 0u8..4).prop_map(|(relayer, announcer, repo)| Ev::RelayedRefs { relayer, announcer, repo }),
        3 => (0u8..TICKS.len() as u8).prop_map(|class| Ev::Tick { class }),
        3 => (0u8..4, any::<bool>()).prop_map(|(peer, outbound)| Ev::Connect { peer, outbound }),
        1 => (0u8..4).prop_map(|peer| Ev::Disconnect { peer }),
        2 => Just(Ev::Restart),
        2 => (0u8..4).prop_map(|repo| Ev::Flip { repo }),
        1 => Just(Ev::AnnounceInventory),
        1 => (0u8..4).prop_map(|repo| Ev::AddInventory { repo }),
        2 => (0u8..4, 0u8..4, any::<bool>()).prop_map(|(repo, peer, clone)| Ev::Fetched { repo, peer, clone }),
    ]
}

/// Independent statement of who may see a repository.
fn may_see(doc: &Doc, peer: &NodeId) -> bool {
    let did = Did::from(*peer);
    match doc.visibility() {
        Visibility::Public => true,
        Visibility::Private { allow } => allow.contains(&did) || doc.delegates().iter().any(|d| *d == did),
    }
}

fn check(ctx: &Ctx, c: &Case) -> CaseResult {
    let remotes: Vec<Remote> = (0..4u8).map(|i| Remote::new(i, false)).collect();
    let p: Vec<NodeId> = remotes.iter().map(|r| r.id).collect();
    let n = {
        let lab: Lab<SyncedMock> = Lab::new(LabConfig {
            seed: 0,
            remotes: 0,
            routable_remotes: false,
            repos: vec![],
            policy: SeedingPolicy::Block,
            tweak: Box::new(|_| {}),
            import_addresses: vec![],
        });
        lab.nid()
    };
    // R0 public (delegate N); R1 private, delegates N+P0, allow P1; R2 private, delegate N, allow none; R3 public (delegate P0)
    let allow1 = Visibility::private([Did::from(p[1])]);
    let repos = vec![
        mock_repo(0, &[n], Visibility::Public),
        mock_repo(1, &[n, p[0]], allow1.clone()),
        mock_repo(2, &[n], Visibility::private([])),
        mock_repo(3, &[p[0]], Visibility::Public),
    ];
    let rids: Vec<RepoId> = repos.iter().map(|r| r.0).collect();
    let private_form: Vec<Visibility> = vec![Visibility::private([Did::from(p[2])]), allow1, Visibility::private([]), Visibility::private([])];
    let mut lab: Lab<SyncedMock> = Lab::new(LabConfig {
        seed: c.seed as u64,
        remotes: 4,
        routable_remotes: false,
        repos,
        policy: SeedingPolicy::Allow { scope: Scope::All },
        tweak: Box::new(|cfg| {
            cfg.relay = radicle::node::config::Relay::Always;
        }),
        import_addresses: vec![0, 1, 2, 3],
    });
    let mut counter = 0u8;
    for rid in &rids {
        counter += 1;
        lab.set_own_refs(*rid, counter);
    }
    // Every peer's own namespace exists in every repo (so that relayed announcements have something to point at).
    lab.connect_inbound(0);
    lab.drain();

    let mut nontrivial = false;
    let mut restarted_with_private = false;
    // per repo: the node has been told about the repository (own refs announced or a fetch of it
    // completed, or a restart) since its visibility last changed
    let mut notified = vec![true; 4];
    // per repo: the step (+1) at which the node was last told, after a visibility change
    let mut notified_at: Vec<usize> = vec![0; 4];
    // own inventory announcements (bytes) -> step at which they were first observable
    let mut inv_first_seen: std::collections::BTreeMap<Vec<u8>, usize> = Default::default();
    for a in lab.gossip_dump() {
        if a.node == lab.nid() && matches!(a.message, AnnouncementMessage::Inventory(_)) {
            inv_first_seen.insert(ann_bytes(&a), 0);
        }
    }

    for (step, ev) in c.events.iter().enumerate() {
        let told_before = notified.clone();
        match ev {
            Ev::Subscribe { peer, filter, since } => {
                let i = *peer as usize;
                if !lab.is_connected(i) {
                    lab.connect_inbound(i);
                }
                let f = match filter {
                    0 => Filter::default(),
                    1 => Filter::new([rids[1], rids[2]]),
                    2 => Filter::new([rids[0], rids[3]]),
                    _ => Filter::new([mock_repo(77, &[p[3]], Visibility::Public).0]),
                };
                let now = lab.now_ts();
                let since = match since {
                    0 => Timestamp::MIN,
                    1 => now,
                    _ => Timestamp::try_from((*now).saturating_sub(3_600_000)).unwrap(),
                };
                // classification: is there a stored refs announcement about a currently private repo
                // that this peer may not see, matching the filter?
                let hot = lab.gossip_dump().iter().any(|a| match &a.message {
                    AnnouncementMessage::Refs(r) => {
                        f.contains(&r.rid)
                            && lab.node.storage().get(r.rid).ok().flatten().map(|d| !may_see(&d, &p[i])).unwrap_or(false)
                    }
                    _ => false,
                });
                if hot {
                    nontrivial = true;
                    ctx.count("subscribe-with-private-history-by-disallowed-peer");
                }
                lab.deliver(i, Message::Subscribe(Subscribe { filter: f, since, until: Timestamp::MAX }));
            }
            Ev::AnnounceOwnRefs { repo } => {
                let rid = rids[*repo as usize];
                counter = counter.wrapping_add(1);
                lab.set_own_refs(rid, counter);
                let (tx, _rx) = crossbeam_channel::unbounded();
                lab.node.service.command(Command::AnnounceRefs(rid, tx));
                notified[*repo as usize] = true;
            }
            Ev::RelayedRefs { relayer, announcer, repo } => {
                let r = *relayer as usize;
                let a = *announcer as usize;
                if !lab.is_connected(r) {
                    lab.connect_inbound(r);
                }
                counter = counter.wrapping_add(1);
                let ts = Timestamp::try_from(*lab.now_ts() + counter as u64).unwrap();
                let msg: AnnouncementMessage = RefsAnnouncement {
                    rid: rids[*repo as usize],
                    refs: vec![refs_at(p[a], counter)].try_into().unwrap(),
                    timestamp: ts,
                }
                .into();
                let ann = msg.signed(&lab.remotes[a].signer);
                lab.deliver(r, Message::Announcement(ann));
            }
            Ev::Tick { class } => lab.elapse(TICKS[*class as usize]),
            Ev::Connect { peer, outbound } => {
                let i = *peer as usize;
                if *outbound {
                    lab.connect_outbound(i);
                } else {
                    lab.connect_inbound(i);
                }
            }
            Ev::Disconnect { peer } => {
                let i = *peer as usize;
                if let Some(link) = lab.session_link(i) {
                    lab.disconnect(i, link);
                }
            }
            Ev::Restart => {
                let any_private = rids.iter().any(|r| lab.node.storage().get(*r).ok().flatten().map(|d| d.is_private()).unwrap_or(false));
                lab.restart();
                notified = vec![true; 4];
                if any_private {
                    restarted_with_private = true;
                }
                ctx.count("restart");
            }
            Ev::Flip { repo } => {
                let ix = *repo as usize;
                let rid = rids[ix];
                let pf = private_form[ix].clone();
                let m = lab.node.storage_mut().mock_mut().repo_mut(&rid);
                let doc = m.doc.doc.clone();
                let new = doc
                    .with_edits(|raw| {
                        raw.visibility = if raw.visibility.is_public() { pf.clone() } else { Visibility::Public };
                    })
                    .unwrap();
                m.doc.doc = new;
                notified[ix] = false;
                ctx.count("flip");
            }
            Ev::AnnounceInventory => lab.node.service.command(Command::AnnounceInventory),
            Ev::AddInventory { repo } => {
                // Every caller of this command (rad init / seed / publish) first checks that the
                // repository is public: that is the command's precondition.
                let rid = rids[*repo as usize];
                let public = lab.node.storage().get(rid).ok().flatten().map(|d| d.is_public()).unwrap_or(false);
                if public {
                    let (tx, _rx) = crossbeam_channel::unbounded();
                    lab.node.service.command(Command::AddInventory(rid, tx));
                } else {
                    ctx.count("skipped:add-inventory-of-private-repo(precondition)");
                }
            }
            Ev::Fetched { repo, peer, clone } => {
                let rid = rids[*repo as usize];
                let i = *peer as usize;
                if !lab.is_connected(i) {
                    lab.connect_inbound(i);
                    let ios = lab.drain();
                    judge(ctx, c, &lab, &rids, &notified, &notified_at, &inv_first_seen, step, &Ev::Connect { peer: *peer, outbound: false }, &ios)?;
                }
                let remote = p[i];
                let (tx, _rx) = crossbeam_channel::unbounded();
                lab.node.service.command(Command::Fetch(rid, remote, std::time::Duration::from_secs(3), tx));
                let started = lab.node.fetching().get(&rid).map(|f| f.from == remote).unwrap_or(false);
                if started {
                    let repo_m = lab.node.storage().mock().repos.get(&rid).unwrap().clone();
                    let doc = repo_m.identity_doc().unwrap();
                    counter = counter.wrapping_add(1);
                    let res = fetch::FetchResult {
                        updated: vec![RefUpdate::Created {
                            name: radicle::git::RefString::try_from("refs/heads/master").unwrap(),
                            oid: oid_of(0xDD, counter),
                        }],
                        namespaces: [lab.nid()].into_iter().collect(),
                        clone: *clone,
                        doc,
                    };
                    lab.node.service.fetched(rid, remote, Ok(res));
                    notified[*repo as usize] = true;
                }
            }
        }

        for ix in 0..notified.len() {
            if notified[ix] && (!told_before[ix] || matches!(ev, Ev::Restart)) {
                notified_at[ix] = step + 1;
            }
        }
        // ---- oracle over everything written in this event
        let ios = lab.drain();
        for a in lab.gossip_dump() {
            if a.node == lab.nid() && matches!(a.message, AnnouncementMessage::Inventory(_)) {
                inv_first_seen.entry(ann_bytes(&a)).or_insert(step + 1);
            }
        }
        if std::env::var("VERIF_DEBUG").is_ok() {
            for a in lab.gossip_dump() {
                if let AnnouncementMessage::Inventory(inv) = &a.message {
                    if a.node == lab.nid() {
                        eprintln!("step {step} {ev:?}: stored own inventory t={} n={} first_seen={:?}", inv.timestamp, inv.inventory.len(), inv_first_seen.get(&ann_bytes(&a)));
                    }
                }
            }
            eprintln!("step {step}: {} ios", ios.len());
        }
        judge(ctx, c, &lab, &rids, &notified, &notified_at, &inv_first_seen, step, ev, &ios)?;
    }
    if restarted_with_private {
        ctx.count("case:restart-with-private-repos");
    }
    if nontrivial || restarted_with_private {
        ctx.nontrivial(&c.events);
        ctx.sample("sequences", c);
    }
    Ok(())
}

#[allow(clippy::too_many_arguments)]
fn judge(
    ctx: &Ctx,
    c: &Case,
    lab: &Lab<SyncedMock>,
    rids: &[RepoId],
    notified: &[bool],
    notified_at: &[usize],
    inv_first_seen: &std::collections::BTreeMap<Vec<u8>, usize>,
    step: usize,
    ev: &Ev,
    ios: &[Io],
) -> CaseResult {
        for io in ios {
            let Io::Write(to, msgs) = io else { continue };
            for m in msgs {
                let Message::Announcement(a) = m else { continue };
                match &a.message {
                    AnnouncementMessage::Refs(r) => {
                        let Some(doc) = lab.node.storage().get(r.rid).ok().flatten() else {
                            ctx.count("classified:refs-about-unknown-repo-written");
                            continue;
                        };
                        if doc.is_private() {
                            ctx.count("private-refs-announcement-written");
                        }
                        if !may_see(&doc, to) {
                            let origin = if a.node == lab.nid() { "own" } else { "relayed" };
                            let via = match ev {
                                Ev::Subscribe { .. } => "subscribe-replay",
                                Ev::Tick { .. } => "tick",
                                Ev::Connect { .. } => "connect",
                                Ev::Restart => "restart",
                                Ev::AnnounceOwnRefs { .. } => "announce",
                                Ev::RelayedRefs { .. } => "relay",
                                Ev::Fetched { .. } => "fetched",
                                _ => "other",
                            };
                            return fail(
                                format!("private-refs-leak:{origin}:{via}"),
                                format!(
                                    "step {step} {ev:?}: refs announcement of {} about private {} (visibility {:?}) written to {to}, who is neither delegate nor allow-listed",
                                    a.node,
                                    r.rid,
                                    doc.visibility()
                                ),
                            );
                        }
                    }
                    AnnouncementMessage::Inventory(inv) if a.node == lab.nid() => {
                        for rid in inv.inventory.iter() {
                            if let Some(doc) = lab.node.storage().get(*rid).ok().flatten() {
                                if doc.is_private() {
                                    let via = match ev {
                                        Ev::Connect { .. } | Ev::Subscribe { .. } | Ev::RelayedRefs { .. } | Ev::Fetched { .. } => "initial-messages",
                                        Ev::Restart => "restart",
                                        _ => "announce",
                                    };
                                    let ix = rids.iter().position(|r| r == rid).unwrap();
                                    let flipped = c.events[..step].iter().any(|e| matches!(e, Ev::Flip { repo } if *repo as usize == ix));
                                    // Was this very announcement signed (first observable) before the
                                    // repository was last made private?
                                    let last_flip = c.events[..step]
                                        .iter()
                                        .rposition(|e| matches!(e, Ev::Flip { repo } if *repo as usize == ix))
                                        .map(|i| i + 1);
                                    let signed_before_flip = match (inv_first_seen.get(&ann_bytes(a)), last_flip) {
                                        (Some(seen), Some(flip)) => *seen <= flip,
                                        _ => false,
                                    };
                                    // ... or at least before the node was told about the change (signed in the
                                    // window in which it could not know, a finding of its own)?
                                    let signed_before_told = matches!(inv_first_seen.get(&ann_bytes(a)), Some(seen) if *seen < notified_at[ix]);
                                    let how = if !flipped {
                                        "never-public"
                                    } else if notified[ix] && signed_before_flip && matches!(ev, Ev::Subscribe { .. }) {
                                        "stored-announcement-signed-while-public-replayed"
                                    } else if notified[ix] && signed_before_told && matches!(ev, Ev::Subscribe { .. }) {
                                        "stored-announcement-signed-before-notification-replayed"
                                    } else if notified[ix] {
                                        "after-notified-visibility-flip"
                                    } else {
                                        "visibility-flip-not-yet-notified"
                                    };
                                    let _ = via;
                                    return fail(
                                        format!("private-repo-in-inventory:{how}"),
                                        format!("step {step} {ev:?}: inventory announcement (t={}) lists private repository {rid}", inv.timestamp),
                                    );
                                }
                            }
                        }
                        ctx.count("own-inventory-written");
                    }
                    _ => {}
                }
            }
        }
        Ok(())
}

fn run(ctx: &Ctx) {
    let strat = |max: usize| {
        (any::<u8>(), proptest::collection::vec(ev_strategy(), 1..max)).prop_map(|(seed, events)| Case { seed, events })
    };
    ctx.run("sequences", strat(30), ctx.cases(1_600, 40_000), |c: &Case| check(ctx, c));
    ctx.run("short-sequences", strat(8), ctx.cases(1_600, 40_000), |c: &Case| check(ctx, c));
}
