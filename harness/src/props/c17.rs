//! C17 — Rate limiting admits at most capacity plus refill; bypassed nodes and
//! non-routable addresses are never limited.
//!
//! A case is a timeline of request bursts against one `RateLimiter`: each segment
//! moves the (possibly non-monotonic) clock by `dt_ms` and then issues `n`
//! requests from one host / node id at that instant. The oracle only looks at
//! the return values of `RateLimiter::limit`.
use std::collections::BTreeMap;
use std::net::{IpAddr, Ipv4Addr, Ipv6Addr};

use proptest::prelude::*;
use radicle::crypto::test::signer::MockSigner;
use radicle::crypto::Signer as _;
use radicle::node::config::RateLimit;
use radicle::node::{HostName, NodeId};
use radicle_node::service::limiter::RateLimiter;
use radicle_node::LocalTime;
use serde::{Deserialize, Serialize};

use crate::core::*;
use crate::ensure;

pub const PROP: Prop = Prop {
    id: "C17",
    shards: (4, 16),
    level: "exploration",
    rule: "Timelines of <= 16 bursts (<= 80 requests) over a few hosts with capacity 0..=50, rate k/d (d <= 10, \
           0 <= rate <= 3), clock deltas drawn from {0, sub-second, whole seconds, seconds, hours, negative \
           seconds, negative hours}; hosts are DNS names, routable / non-routable / special-purpose IPv4 and \
           global / local IPv6 addresses; node ids from a pool of 4, any subset bypassed. Oracle: for every \
           rate-limited host and every contiguous window i..=j of its non-bypassed requests, admitted <= \
           floor(capacity + rate * whole_seconds(max t - min t over the window)) in exact integer arithmetic; \
           bypassed node ids and non-routable IPv4 addresses always get `false`; no call panics. Plus an \
           enumerated space (one host, capacities 0..=3, rates {0, 1/3, 1/2, 2}, all delta patterns over \
           {0, +600ms, +1s, +2.5s, -1.5s} of length 6 (quick) / 9 (thorough)). Non-trivial: some host had a \
           request denied and a later one admitted (burst beyond capacity, then refill), or the clock stepped \
           backwards between two requests to the same bucket. Distinct = hash of the whole case (at most 100000 \
           non-trivial cases are hashed per shard; the counter `nontrivial` has the full number).",
    assumptions: &[
        "one capacity/rate per limiter (the bucket keeps the parameters of its first request)",
        "window length of a contiguous run of requests = greatest minus smallest timestamp in the run (the only \
         reading that is well defined for non-monotonic clocks and reduces to last - first for monotonic ones)",
        "the rate given to the limiter is the f64 nearest to k/d; the bound is computed with k/d exactly — the \
         difference is < 1e-9 tokens over the generated ranges while bounds differ by >= 1/d at integer steps",
        "non-routable = IPv4 loopback, RFC 1918, link-local, unspecified/0.0.0.0/8, broadcast, documentation; \
         special-purpose IPv4 ranges the code treats as routable (CGNAT, benchmarking, class E) and local IPv6 \
         addresses (`ipv6_is_routable` is documented as always true) are only classified and counted",
        "rates are finite and >= 0",
    ],
    run,
    budget_s: (600, 7200),
};

#[derive(Debug, Clone, Copy, PartialEq, Eq, Hash, Serialize, Deserialize)]
pub enum Host {
    Dns(u8),
    V4Public(u8),
    V4Local(u8),
    V4Special(u8),
    V6Global(u8),
    V6Local(u8),
}

const V4_PUBLIC: &[[u8; 4]] = &[
    [8, 8, 8, 8],
    [1, 1, 1, 1],
    [93, 184, 216, 34],
    [192, 0, 0, 9],
    [172, 32, 0, 1],
    [172, 15, 255, 255],
    [11, 0, 0, 1],
    [9, 255, 255, 255],
    [169, 253, 0, 1],
    [169, 255, 0, 1],
    [192, 167, 1, 1],
    [192, 169, 1, 1],
    [128, 0, 0, 1],
    [126, 255, 255, 255],
    [203, 0, 114, 1],
    [223, 255, 255, 254],
];
const V4_LOCAL: &[[u8; 4]] = &[
    [127, 0, 0, 1],
    [127, 255, 255, 254],
    [10, 0, 0, 1],
    [10, 255, 255, 255],
    [172, 16, 0, 1],
    [172, 31, 255, 254],
    [192, 168, 0, 1],
    [192, 168, 255, 255],
    [169, 254, 0, 1],
    [169, 254, 255, 255],
    [0, 0, 0, 0],
    [0, 1, 2, 3],
    [255, 255, 255, 255],
    [192, 0, 2, 1],
    [198, 51, 100, 7],
    [203, 0, 113, 9],
];
const V4_SPECIAL: &[[u8; 4]] = &[[100, 64, 0, 1], [198, 18, 0, 1], [240, 0, 0, 1], [192, 0, 0, 1]];
const V6_GLOBAL: &[[u16; 8]] = &[[0x2001, 0x4860, 0x4860, 0, 0, 0, 0, 0x8888], [0x2606, 0x4700, 0x4700, 0, 0, 0, 0, 0x1111]];
const V6_LOCAL: &[[u16; 8]] = &[
    [0, 0, 0, 0, 0, 0, 0, 1],
    [0, 0, 0, 0, 0, 0, 0, 0],
    [0xfe80, 0, 0, 0, 0, 0, 0, 1],
    [0xfc00, 0, 0, 0, 0, 0, 0, 1],
    [0xfd12, 0x3456, 0, 0, 0, 0, 0, 1],
    [0, 0, 0, 0, 0, 0xffff, 0x7f00, 1],
];

fn v4(t: &[[u8; 4]], i: u8) -> HostName {
    let o = t[i as usize % t.len()];
    HostName::Ip(IpAddr::V4(Ipv4Addr::new(o[0], o[1], o[2], o[3])))
}
fn v6(t: &[[u16; 8]], i: u8) -> HostName {
    let s = t[i as usize % t.len()];
    HostName::Ip(IpAddr::V6(Ipv6Addr::new(s[0], s[1], s[2], s[3], s[4], s[5], s[6], s[7])))
}

impl Host {
    fn name(self) -> HostName {
        match self {
            Host::Dns(i) => HostName::Dns(format!("seed{i}.radicle.example")),
            Host::V4Public(i) => v4(V4_PUBLIC, i),
            Host::V4Local(i) => v4(V4_LOCAL, i),
            Host::V4Special(i) => v4(V4_SPECIAL, i),
            Host::V6Global(i) => v6(V6_GLOBAL, i),
            Host::V6Local(i) => v6(V6_LOCAL, i),
        }
    }
}

#[derive(Debug, Clone, Hash, Serialize, Deserialize)]
pub struct Seg {
    /// clock step before the burst (may be negative; the clock is clamped at 0)
    dt_ms: i64,
    host: Host,
    /// node id (index into a pool of 4) or none
    nid: Option<u8>,
    /// number of requests at this instant
    n: u8,
}

#[derive(Debug, Clone, Hash, Serialize, Deserialize)]
pub struct Case {
    cap: u16,
    /// rate = rate_k / rate_d tokens per second
    rate_k: u32,
    rate_d: u32,
    start_ms: u64,
    /// bit i set: pool node id i is in the bypass list
    bypass: u8,
    segs: Vec<Seg>,
}

const POOL: usize = 4;
const MAX_REQUESTS: usize = 80;

fn pool() -> Vec<NodeId> {
    (0..POOL).map(|i| *MockSigner::from_seed([i as u8 + 1; 32]).public_key()).collect()
}

#[derive(Default)]
struct Bucket {
    /// (time in ms, admitted) of every request that reached this host's bucket
    calls: Vec<(u64, bool)>,
}

/// At most this many non-trivial cases are hashed per shard (the counters keep the full numbers).
const HASH_CAP: u64 = 100_000;

fn check(ctx: &Ctx, nids: &[NodeId], hashed: &std::cell::Cell<u64>, c: &Case) -> CaseResult {
    let d = c.rate_d.max(1) as u128;
    let k = c.rate_k as u128;
    let tokens = RateLimit { fill_rate: c.rate_k as f64 / c.rate_d.max(1) as f64, capacity: c.cap as usize };
    let mut lim = RateLimiter::new(nids.iter().enumerate().filter(|(i, _)| c.bypass >> i & 1 == 1).map(|(_, n)| *n));
    let mut buckets: BTreeMap<String, Bucket> = BTreeMap::new();
    let mut now: u64 = c.start_ms;
    let mut total = 0usize;
    let (mut saw_bypassed, mut saw_local, mut backwards) = (false, false, false);

    for seg in &c.segs {
        now = if seg.dt_ms >= 0 { now.saturating_add(seg.dt_ms as u64) } else { now.saturating_sub(seg.dt_ms.unsigned_abs()) };
        let host = seg.host.name();
        let nid = seg.nid.map(|i| i as usize % POOL);
        let bypassed = nid.map(|i| c.bypass >> i & 1 == 1).unwrap_or(false);
        for _ in 0..seg.n {
            if total >= MAX_REQUESTS {
                break;
            }
            total += 1;
            let r = catch(|| lim.limit(host.clone(), nid.map(|i| &nids[i]), &tokens, LocalTime::from_millis(now as u128)));
            let limited = match r {
                Ok(l) => l,
                Err((loc, msg)) => {
                    return fail("limit:panic", format!("RateLimiter::limit panicked at {loc}: {msg} (request {total}, host {host}, t = {now} ms)"))
                }
            };
            if bypassed {
                saw_bypassed = true;
                ensure!(!limited, "never-limited:bypassed-node", "request {total} from bypassed node id #{} ({host}) was limited", nid.unwrap());
                continue;
            }
            match seg.host {
                Host::V4Local(_) => {
                    saw_local = true;
                    ensure!(!limited, "never-limited:non-routable-ipv4", "request {total} from non-routable address {host} was limited");
                }
                Host::V6Local(_) => ctx.count(if limited { "ipv6-local:limited" } else { "ipv6-local:not-limited" }),
                Host::V4Special(_) => ctx.count(if limited { "ipv4-special-purpose:limited" } else { "ipv4-special-purpose:not-limited" }),
                _ => {}
            }
            // Only hosts that are unambiguously rate-limited enter the bound.
            if matches!(seg.host, Host::V4Local(_) | Host::V6Local(_) | Host::V4Special(_)) {
                continue;
            }
            let b = buckets.entry(host.to_string()).or_default();
            if let Some((last, _)) = b.calls.last() {
                if now < *last {
                    backwards = true;
                }
            }
            b.calls.push((now, !limited));
        }
    }

    // The bound, for every host and every contiguous window of its requests.
    let (mut denied_then_admitted, mut tight, mut any_denied) = (false, false, false);
    for (host, b) in &buckets {
        let n = b.calls.len();
        let mut seen_denied = false;
        for (_, adm) in &b.calls {
            if !*adm {
                seen_denied = true;
                any_denied = true;
            } else if seen_denied {
                denied_then_admitted = true;
            }
        }
        for i in 0..n {
            let (mut lo, mut hi, mut admitted) = (u64::MAX, 0u64, 0u128);
            for j in i..n {
                let (t, adm) = b.calls[j];
                lo = lo.min(t);
                hi = hi.max(t);
                admitted += adm as u128;
                let secs = ((hi - lo) / 1000) as u128;
                // floor(cap + k/d * secs)
                let bound = (c.cap as u128 * d + k * secs) / d;
                ensure!(
                    admitted <= bound,
                    "bound:capacity-plus-refill",
                    "host {host}: requests {i}..={j} of this host span {} ms ({secs} whole s) and {admitted} were admitted, \
                     bound is floor({} + {k}/{d} * {secs}) = {bound}; calls (ms, admitted) = {:?}",
                    hi - lo,
                    c.cap,
                    &b.calls[i..=j]
                );
                if admitted == bound && admitted > 0 {
                    tight = true;
                }
            }
        }
    }

    // classification
    ctx.count("timelines");
    ctx.count_n("requests", total as u64);
    ctx.count(match (c.rate_k, c.rate_k % c.rate_d.max(1) == 0, c.rate_k > c.rate_d) {
        (0, _, _) => "rate:zero",
        (_, true, _) => "rate:integral",
        (_, false, false) => "rate:fractional<1",
        (_, false, true) => "rate:fractional>1",
    });
    ctx.count(match c.cap {
        0 => "capacity:0",
        1..=3 => "capacity:1-3",
        4..=12 => "capacity:4-12",
        _ => "capacity:13+",
    });
    for (flag, label) in [
        (backwards, "clock-stepped-back-on-a-bucket"),
        (any_denied, "some-request-denied"),
        (denied_then_admitted, "denied-then-admitted-after-refill"),
        (tight, "some-window-exactly-at-bound"),
        (saw_bypassed, "has-bypassed-request"),
        (saw_local, "has-non-routable-ipv4-request"),
        (buckets.len() > 1, "several-limited-hosts"),
    ] {
        if flag {
            ctx.count(label);
        }
    }
    if denied_then_admitted || backwards {
        ctx.count("nontrivial");
        if hashed.get() < HASH_CAP {
            hashed.set(hashed.get() + 1);
            ctx.nontrivial(c);
        }
        ctx.sample("timeline", c);
    }
    Ok(())
}

fn host() -> impl Strategy<Value = Host> {
    let idx = || prop_oneof![3 => 0u8..2, 1 => 0u8..16];
    prop_oneof![
        6 => (0u8..2).prop_map(Host::Dns),
        3 => idx().prop_map(Host::V4Public),
        2 => idx().prop_map(Host::V4Local),
        1 => (0u8..4).prop_map(Host::V4Special),
        1 => (0u8..2).prop_map(Host::V6Global),
        1 => (0u8..6).prop_map(Host::V6Local),
    ]
}

fn delta() -> impl Strategy<Value = i64> {
    prop_oneof![
        4 => Just(0i64),
        3 => 1i64..1000,
        3 => (1i64..=20).prop_map(|s| s * 1000),
        3 => 1000i64..20_000,
        1 => 3_600_000i64..36_000_000,
        2 => (1i64..5000).prop_map(|x| -x),
        1 => (3_600_000i64..36_000_000).prop_map(|x| -x),
    ]
}

fn random_case() -> impl Strategy<Value = Case> {
    let cap = prop_oneof![3 => 0u16..=3, 3 => 4u16..=12, 1 => 13u16..=50];
    let rate = (1u32..=10).prop_flat_map(|d| (prop_oneof![1 => Just(0u32), 6 => 0..=d, 3 => 0..=3 * d], Just(d)));
    let start = prop_oneof![Just(0u64), 0u64..10_000, Just(1_700_000_000_000u64)];
    let seg = (
        delta(),
        host(),
        proptest::option::weighted(0.7, 0u8..POOL as u8),
        prop_oneof![4 => Just(1u8), 2 => 2u8..=5, 2 => 6u8..=25],
    )
        .prop_map(|(dt_ms, host, nid, n)| Seg { dt_ms, host, nid, n });
    (cap, rate, start, prop_oneof![2 => Just(0u8), 2 => 0u8..16], proptest::collection::vec(seg, 0..=16)).prop_map(
        |(cap, (rate_k, rate_d), start_ms, bypass, segs)| Case { cap, rate_k, rate_d, start_ms, bypass, segs },
    )
}

/// One host, no node id: capacities 0..=3 x 4 rates x all delta patterns of length `len`.
fn exhaustive(len: u32) -> impl Iterator<Item = Case> {
    const DELTAS: [i64; 5] = [0, 600, 1000, 2500, -1500];
    const RATES: [(u32, u32); 4] = [(0, 1), (1, 3), (1, 2), (2, 1)];
    let patterns = 5u64.pow(len);
    (0u16..=3).flat_map(move |cap| {
        RATES.into_iter().flat_map(move |(rate_k, rate_d)| {
            (0..patterns).map(move |mut p| {
                let mut segs = vec![];
                for _ in 0..len {
                    segs.push(Seg { dt_ms: DELTAS[(p % 5) as usize], host: Host::Dns(0), nid: None, n: 1 });
                    p /= 5;
                }
                Case { cap, rate_k, rate_d, start_ms: 2000, bypass: 0, segs }
            })
        })
    })
}

fn run(ctx: &Ctx) {
    let nids = pool();
    let hashed = std::cell::Cell::new(0u64);
    let f = |c: &Case| check(ctx, &nids, &hashed, c);
    ctx.enumerate("exhaustive-deltas", exhaustive(if ctx.quick() { 6 } else { 9 }), true, f);
    ctx.run("random", random_case(), ctx.cases(50_000, 8_000_000), f);
}
