//! C23 — DAG traversals respect dependencies and pruning removes exactly descendants.
use std::collections::{BTreeMap, BTreeSet};
use std::ops::ControlFlow;

use proptest::prelude::*;
use radicle_dag::Dag;
use serde::{Deserialize, Serialize};

use crate::core::*;
use crate::ensure;

pub const PROP: Prop = Prop {
    id: "C23",
    shards: (4, 16),
    level: "exploration",
    rule: "DAGs are (n, edge-mask over pairs i<j in a hidden topological order, key relabelling); \
           each case checks sorted/sorted_by/fold/prune_by against an adjacency-set reference and \
           merge of two graphs over a shared key space against the set union. Non-trivial: the graph has \
           >= 1 edge and (a prune/fold predicate breaks at a node that has dependents, or a merge operand \
           has >= 2 roots, or a comparator disagrees with key order). Distinct = hash of the whole case.",
    assumptions: &[
        "graphs are well-formed (edges only between existing nodes), as built by Dag::node/dependency",
        "comparators are total orders; break predicates are stateless functions of the key",
        "fold roots are passed sorted ascending (documented precondition)",
    ],
    run,
    budget_s: (600, 7200),
};

#[derive(Debug, Clone, Serialize, Deserialize, Hash)]
pub struct Case {
    /// number of nodes
    n: u8,
    /// edges: bit for pair (i<j) at index pair_index(i,j): node j depends on node i
    edges: u128,
    /// key of node i is labels[i] (distinct)
    labels: Vec<u8>,
    /// comparator rank for keys: rank[labels[i]] (total order), by node index
    rank: Vec<u8>,
    /// break predicate by node index
    brk: u16,
    /// root set by node index (any nodes; fold/prune start points)
    roots: u16,
    /// second graph for merge: node subset + edge mask (same pair indexing)
    b_nodes: u16,
    b_edges: u128,
    /// first graph for merge keeps only these nodes
    a_nodes: u16,
}

fn pair_index(i: usize, j: usize) -> usize {
    debug_assert!(i < j);
    j * (j - 1) / 2 + i
}

struct Model {
    n: usize,
    /// deps[j] = bitmask of i that j depends on
    deps: Vec<u16>,
    /// dependents[i] = bitmask of j
    dependents: Vec<u16>,
}

impl Model {
    fn new(n: usize, edges: u128, nodes: u16) -> Self {
        let mut deps = vec![0u16; n];
        let mut dependents = vec![0u16; n];
        for j in 0..n {
            for i in 0..j {
                if edges >> pair_index(i, j) & 1 == 1 && nodes >> i & 1 == 1 && nodes >> j & 1 == 1 {
                    deps[j] |= 1 << i;
                    dependents[i] |= 1 << j;
                }
            }
        }
        Model { n, deps, dependents }
    }
    /// descendants (transitive dependents), excluding self
    fn desc(&self, v: usize) -> u16 {
        let mut out = 0u16;
        let mut stack = vec![v];
        while let Some(x) = stack.pop() {
            for j in 0..self.n {
                if self.dependents[x] >> j & 1 == 1 && out >> j & 1 == 0 {
                    out |= 1 << j;
                    stack.push(j);
                }
            }
        }
        out
    }
    fn reach(&self, roots: u16) -> u16 {
        let mut out = roots;
        for v in 0..self.n {
            if roots >> v & 1 == 1 {
                out |= self.desc(v);
            }
        }
        out
    }
}

fn build(n: usize, edges: u128, nodes: u16, labels: &[u8]) -> Dag<u8, u8> {
    let mut dag = Dag::new();
    for i in 0..n {
        if nodes >> i & 1 == 1 {
            dag.node(labels[i], i as u8);
        }
    }
    for j in 0..n {
        for i in 0..j {
            if edges >> pair_index(i, j) & 1 == 1 && nodes >> i & 1 == 1 && nodes >> j & 1 == 1 {
                dag.dependency(labels[j], labels[i]);
            }
        }
    }
    dag
}

/// Full structural comparison of a Dag against the expected node/edge sets.
fn check_structure(
    what: &str,
    dag: &Dag<u8, u8>,
    nodes: &BTreeSet<u8>,
    edges: &BTreeSet<(u8, u8)>, // (from, to): from depends on to
) -> CaseResult {
    ensure!(dag.len() == nodes.len(), format!("{what}:node-count"), "len {} != {}", dag.len(), nodes.len());
    for k in 0..=255u8 {
        ensure!(
            dag.contains(&k) == nodes.contains(&k),
            format!("{what}:node-set"),
            "node {k}: contains={} expected={}",
            dag.contains(&k),
            nodes.contains(&k)
        );
    }
    let mut exp_tips = nodes.clone();
    let mut exp_roots = nodes.clone();
    for (f, t) in edges {
        exp_tips.remove(t);
        exp_roots.remove(f);
    }
    for k in nodes {
        let node = dag.get(k).unwrap();
        let deps: BTreeSet<u8> = edges.iter().filter(|(f, _)| f == k).map(|(_, t)| *t).collect();
        let depd: BTreeSet<u8> = edges.iter().filter(|(_, t)| t == k).map(|(f, _)| *f).collect();
        ensure!(
            node.dependencies == deps,
            format!("{what}:dependencies"),
            "node {k}: dependencies {:?} expected {:?}",
            node.dependencies,
            deps
        );
        ensure!(
            node.dependents == depd,
            format!("{what}:dependents"),
            "node {k}: dependents {:?} expected {:?}",
            node.dependents,
            depd
        );
    }
    let tips: BTreeSet<u8> = dag.tips().map(|(k, _)| *k).collect();
    let roots: BTreeSet<u8> = dag.roots().map(|(k, _)| *k).collect();
    ensure!(tips == exp_tips, format!("{what}:tips"), "tips {tips:?} expected {exp_tips:?}");
    ensure!(roots == exp_roots, format!("{what}:roots"), "roots {roots:?} expected {exp_roots:?}");
    Ok(())
}

fn check(ctx: &Ctx, c: &Case) -> CaseResult {
    let n = c.n as usize;
    let all: u16 = if n == 16 { u16::MAX } else { (1u16 << n) - 1 };
    let m = Model::new(n, c.edges, all);
    let labels = &c.labels;
    let idx_of: BTreeMap<u8, usize> = labels.iter().enumerate().map(|(i, k)| (*k, i)).collect();
    let dag = build(n, c.edges, all, labels);
    let has_edge = m.deps.iter().any(|d| *d != 0);

    // --- structure of the built graph (sanity of node/dependency)
    {
        let nodes: BTreeSet<u8> = labels.iter().copied().collect();
        let mut edges = BTreeSet::new();
        for j in 0..n {
            for i in 0..n {
                if m.deps[j] >> i & 1 == 1 {
                    edges.insert((labels[j], labels[i]));
                }
            }
        }
        check_structure("build", &dag, &nodes, &edges)?;
    }

    // --- sorted / sorted_by
    let topo_ok = |what: &str, order: &[u8]| -> CaseResult {
        ensure!(order.len() == n, format!("{what}:length"), "order {order:?} has {} of {n} nodes", order.len());
        let mut pos = BTreeMap::new();
        for (p, k) in order.iter().enumerate() {
            ensure!(idx_of.contains_key(k), format!("{what}:unknown-node"), "order {order:?} has unknown {k}");
            ensure!(pos.insert(*k, p).is_none(), format!("{what}:duplicate"), "order {order:?} repeats {k}");
        }
        for j in 0..n {
            for i in 0..n {
                if m.deps[j] >> i & 1 == 1 {
                    ensure!(
                        pos[&labels[i]] < pos[&labels[j]],
                        format!("{what}:dependency-order"),
                        "{} depends on {} but comes first in {order:?}",
                        labels[j],
                        labels[i]
                    );
                }
            }
        }
        Ok(())
    };
    let sorted: Vec<u8> = dag.sorted().into_iter().collect();
    topo_ok("sorted", &sorted)?;
    let rank: BTreeMap<u8, u8> = (0..n).map(|i| (labels[i], c.rank[i])).collect();
    let sorted_by: Vec<u8> = dag.sorted_by(|a, b| rank[a].cmp(&rank[b])).into_iter().collect();
    topo_ok("sorted_by", &sorted_by)?;
    let cmp_differs = (0..n).any(|i| (0..n).any(|j| (labels[i] < labels[j]) != (c.rank[i] < c.rank[j]) && i != j));

    // --- fold
    let roots_mask = c.roots & all;
    let mut roots: Vec<u8> = (0..n).filter(|i| roots_mask >> i & 1 == 1).map(|i| labels[i]).collect();
    roots.sort();
    let brk = c.brk & all;
    let visited: Vec<u8> = dag.fold(&roots, Vec::new(), |mut acc, k, _| {
        acc.push(*k);
        if brk >> idx_of[k] & 1 == 1 {
            ControlFlow::Break(acc)
        } else {
            ControlFlow::Continue(acc)
        }
    });
    // model
    let reach = m.reach(roots_mask);
    let mut skipped = 0u16;
    let mut exp_visited = 0u16;
    let mut effective_break_with_dependents = false;
    for v in 0..n {
        if reach >> v & 1 == 1 && skipped >> v & 1 == 0 {
            exp_visited |= 1 << v;
            if brk >> v & 1 == 1 {
                let d = m.desc(v);
                if d != 0 {
                    effective_break_with_dependents = true;
                }
                skipped |= d;
            }
        }
    }
    {
        let mut seen = 0u16;
        for k in &visited {
            let i = idx_of[k];
            ensure!(seen >> i & 1 == 0, "fold:duplicate-visit", "fold visited {k} twice: {visited:?}");
            // all dependencies that are visited at all must have been visited before
            seen |= 1 << i;
        }
        ensure!(
            seen == exp_visited,
            "fold:visited-set",
            "fold visited {:?} (mask {seen:b}), expected mask {exp_visited:b}; roots {roots:?} break {brk:b}",
            visited
        );
        let pos: BTreeMap<u8, usize> = visited.iter().enumerate().map(|(p, k)| (*k, p)).collect();
        for j in 0..n {
            for i in 0..n {
                if m.deps[j] >> i & 1 == 1 && seen >> i & 1 == 1 && seen >> j & 1 == 1 {
                    ensure!(
                        pos[&labels[i]] < pos[&labels[j]],
                        "fold:dependency-order",
                        "fold visited {} before its dependency {}: {visited:?}",
                        labels[j],
                        labels[i]
                    );
                }
            }
        }
    }

    // --- prune_by (with comparator) and prune
    for variant in 0..2 {
        let mut g = dag.clone();
        let mut order: Vec<u8> = vec![];
        let mut sib_err: Option<String> = None;
        {
            let filter = |k: &u8,
                          _n: &radicle_dag::Node<u8, u8>,
                          sibs: Box<dyn Iterator<Item = (&u8, &radicle_dag::Node<u8, u8>)> + '_>|
             -> ControlFlow<()> {
                order.push(*k);
                // siblings must be neither ancestors nor descendants nor self
                let i = idx_of[k];
                for (s, _) in sibs {
                    let si = idx_of[s];
                    if si == i || m.desc(i) >> si & 1 == 1 || m.desc(si) >> i & 1 == 1 {
                        sib_err = Some(format!("sibling {s} of {k} is related to it"));
                    }
                }
                if brk >> i & 1 == 1 {
                    ControlFlow::Break(())
                } else {
                    ControlFlow::Continue(())
                }
            };
            if variant == 0 {
                g.prune(&roots, filter);
            } else {
                g.prune_by(&roots, filter, |(a, _), (b, _)| rank[a].cmp(&rank[b]));
            }
        }
        let what = if variant == 0 { "prune" } else { "prune_by" };
        if let Some(e) = sib_err {
            return fail(format!("{what}:siblings"), e);
        }
        // expected removed = broken ∪ desc(broken), broken = reach ∧ brk
        let mut removed = 0u16;
        for v in 0..n {
            if reach >> v & 1 == 1 && brk >> v & 1 == 1 {
                removed |= 1 << v | m.desc(v);
            }
        }
        let surv = all & !removed;
        let nodes: BTreeSet<u8> = (0..n).filter(|i| surv >> i & 1 == 1).map(|i| labels[i]).collect();
        let mut edges = BTreeSet::new();
        for j in 0..n {
            for i in 0..n {
                if m.deps[j] >> i & 1 == 1 && surv >> i & 1 == 1 && surv >> j & 1 == 1 {
                    edges.insert((labels[j], labels[i]));
                }
            }
        }
        check_structure(what, &g, &nodes, &edges)?;
        // visit order: the filter was called on exactly the expected-visited set
        // (same rule as fold), each once, dependency-respecting.
        let mut seen = 0u16;
        for k in &order {
            let i = idx_of[k];
            ensure!(seen >> i & 1 == 0, format!("{what}:duplicate-visit"), "{k} visited twice: {order:?}");
            for d in 0..n {
                if m.deps[i] >> d & 1 == 1 && exp_visited >> d & 1 == 1 {
                    ensure!(
                        seen >> d & 1 == 1,
                        format!("{what}:dependency-order"),
                        "{k} visited before its dependency {}: {order:?}",
                        labels[d]
                    );
                }
            }
            seen |= 1 << i;
        }
        ensure!(
            seen == exp_visited,
            format!("{what}:visited-set"),
            "filter called on mask {seen:b}, expected {exp_visited:b} (roots {roots:?}, break {brk:b})"
        );
    }

    // --- merge
    let a_nodes = c.a_nodes & all;
    let b_nodes = c.b_nodes & all;
    let ma = Model::new(n, c.edges, a_nodes);
    let mb = Model::new(n, c.b_edges, b_nodes);
    let mut ga = build(n, c.edges, a_nodes, labels);
    let gb = build(n, c.b_edges, b_nodes, labels);
    let b_roots = (0..n).filter(|i| b_nodes >> i & 1 == 1 && mb.deps[*i] == 0).count();
    ga.merge(gb);
    {
        let un = a_nodes | b_nodes;
        let nodes: BTreeSet<u8> = (0..n).filter(|i| un >> i & 1 == 1).map(|i| labels[i]).collect();
        let mut edges = BTreeSet::new();
        for j in 0..n {
            for i in 0..n {
                if (ma.deps[j] | mb.deps[j]) >> i & 1 == 1 {
                    edges.insert((labels[j], labels[i]));
                }
            }
        }
        check_structure("merge", &ga, &nodes, &edges)?;
    }

    ctx.count(&format!("n={n}"));
    if has_edge {
        ctx.count("has-edge");
    }
    if effective_break_with_dependents {
        ctx.count("break-with-dependents");
    }
    if b_roots >= 2 {
        ctx.count("merge-multi-root");
    }
    if cmp_differs {
        ctx.count("comparator-differs-from-key-order");
    }
    if has_edge && (effective_break_with_dependents || b_roots >= 2 || cmp_differs) {
        ctx.nontrivial(c);
        ctx.sample("case", c);
    }
    Ok(())
}

fn perm_from(seed: u64, n: usize) -> Vec<u8> {
    // Fisher-Yates driven by a splitmix stream; deterministic function of seed.
    let mut v: Vec<u8> = (0..n as u8).collect();
    let mut s = seed;
    for i in (1..n).rev() {
        s = mix(s);
        let j = (s % (i as u64 + 1)) as usize;
        v.swap(i, j);
    }
    v
}

fn random_case(max_n: usize) -> impl Strategy<Value = Case> {
    (1..=max_n)
        .prop_flat_map(|n| {
            let pairs = n * (n - 1) / 2;
            (
                Just(n),
                // edge density classes
                prop_oneof![Just(1u8), Just(2u8), Just(4u8)],
                proptest::collection::vec(any::<u8>(), pairs),
                proptest::collection::vec(any::<u8>(), pairs),
                Just((0..n as u8).collect::<Vec<u8>>()).prop_shuffle(),
                Just((0..n as u8).collect::<Vec<u8>>()).prop_shuffle(),
                any::<(u16, u16, u16, u16)>(),
                proptest::collection::vec(0u8..200, n),
            )
        })
        .prop_map(|(n, dens, ea, eb, labels, rank, (brk, roots, a_nodes, b_nodes), offs)| {
            let mut edges = 0u128;
            let mut b_edges = 0u128;
            for (p, (x, y)) in ea.iter().zip(eb.iter()).enumerate() {
                if p < 128 {
                    if x % (dens + 1) == 0 {
                        edges |= 1 << p;
                    }
                    if y % (dens + 1) == 0 {
                        b_edges |= 1 << p;
                    }
                }
            }
            // labels: distinct keys, spread out over u8 (permutation + gaps)
            let mut sorted_offs: Vec<u8> = vec![];
            let mut acc = 0u16;
            for o in offs.iter() {
                acc += (*o as u16 % 12) + 1;
                sorted_offs.push(acc.min(255) as u8);
            }
            sorted_offs.dedup();
            let labels: Vec<u8> = if sorted_offs.len() == n {
                labels.iter().map(|i| sorted_offs[*i as usize]).collect()
            } else {
                labels
            };
            Case { n: n as u8, edges, labels, rank, brk, roots, b_nodes, b_edges, a_nodes }
        })
}

/// Exhaustive space for `n` nodes: all edge masks × a family of relabellings ×
/// all break masks × all root masks (merge operands derived from the masks).
fn exhaustive(n: usize) -> impl Iterator<Item = Case> {
    let pairs = n * (n - 1) / 2;
    let all = (1u32 << n) - 1;
    (0..(1u64 << pairs)).flat_map(move |edges| {
        (0..3u64).flat_map(move |pv| {
            (0..=all).flat_map(move |brk| {
                (0..=all).map(move |roots| {
                    let labels = match pv {
                        0 => (0..n as u8).collect(),
                        1 => (0..n as u8).rev().collect(),
                        _ => perm_from(edges * 31 + brk as u64, n),
                    };
                    let rank = perm_from(edges ^ (roots as u64) << 7 ^ pv, n);
                    // merge operands: A = nodes in `roots|brk`, B = complement ∪ brk;
                    // B's edge mask is a rotated version of A's.
                    let b_edges = (edges.rotate_left(3) ^ brk as u64) & ((1u64 << pairs) - 1).max(0);
                    Case {
                        n: n as u8,
                        edges: edges as u128,
                        labels,
                        rank,
                        brk: brk as u16,
                        roots: roots as u16,
                        a_nodes: (roots | brk) as u16,
                        b_nodes: ((all & !roots) | brk) as u16,
                        b_edges: b_edges as u128,
                    }
                })
            })
        })
    })
}

/// Exhaustive merge space: all pairs of graphs over n nodes (node subsets × edge masks).
fn exhaustive_merge(n: usize) -> impl Iterator<Item = Case> {
    let pairs = n * (n - 1) / 2;
    let all = (1u32 << n) - 1;
    (0..(1u64 << pairs)).flat_map(move |ea| {
        (0..(1u64 << pairs)).flat_map(move |eb| {
            (0..=all).flat_map(move |an| {
                (0..=all).map(move |bn| Case {
                    n: n as u8,
                    edges: ea as u128,
                    labels: perm_from(ea ^ eb << 8 ^ (an as u64) << 20, n),
                    rank: (0..n as u8).collect(),
                    brk: 0,
                    roots: all as u16,
                    a_nodes: an as u16,
                    b_nodes: bn as u16,
                    b_edges: eb as u128,
                })
            })
        })
    })
}

fn run(ctx: &Ctx) {
    let f = |c: &Case| check(ctx, c);
    // exhaustive small spaces
    for n in 1..=3 {
        ctx.enumerate(&format!("exhaustive-n{n}"), exhaustive(n), true, f);
    }
    ctx.enumerate("exhaustive-merge-n3", exhaustive_merge(3), true, f);
    if ctx.quick() {
        ctx.enumerate("exhaustive-n4", exhaustive(4), true, f);
    } else {
        ctx.enumerate("exhaustive-n4", exhaustive(4), true, f);
        ctx.enumerate("exhaustive-n5", exhaustive(5), true, f);
        ctx.enumerate("exhaustive-merge-n4", exhaustive_merge(4), true, f);
    }
    ctx.run("random-small", random_case(6), ctx.cases(20_000, 400_000), f);
    ctx.run("random-large", random_case(14), ctx.cases(20_000, 400_000), f);
}
