//! C01 — Replicated refs always match their owner's signed refs.
//! C02 — Fetches respect the delegate threshold and never rewind delegate sigrefs.
//!
//! Both properties are decided on the same generated fetch scenarios (fetch lab).
use std::collections::{BTreeMap, BTreeSet};

use proptest::prelude::*;
use radicle::git::Oid;
use radicle::identity::{Did, Visibility};
use radicle::storage::refs::RefsAt;
use radicle_fetch::{Allowed, FetchResult};
use serde::{Deserialize, Serialize};

use crate::core::*;
use crate::ensure;
use crate::lab::fetch::*;

pub const PROP_C01: Prop = Prop {
    id: "C01",
    shards: (16, 16),
    level: "exploration",
    rule: "Fetch scenarios between two real storages over `git upload-pack` (started with the node's flags): identities with \
           1..4 delegates, thresholds 1..n, local node delegate or not, 0..2 further namespaces, three signed epochs per \
           namespace; the fetcher starts empty (clone) or from an honest earlier state (pull); per served namespace one of: \
           honest at an older/equal/newer epoch, absent, unsigned extra ref, signed ref moved or deleted on the server, \
           rad/id present but unsigned, rad/sigrefs missing, signature bit-flipped, sigrefs of another key (re-keyed), \
           sigrefs naming another repository's root, sigrefs listing an object the server lacks, diverged sigrefs; scope all \
           or followed subset; refs_at none / announced subset / announced with a wrong commit. Oracle on raw git2 \
           snapshots of the fetcher: every namespace whose refs changed equals, ref by ref, the refs blob at its new \
           rad/sigrefs tip (parsed by the harness), whose signature blob verifies for the namespace key and whose listed \
           root is this repository's; namespaces offered in an invalid form are bit-identical to before; a failed fetch \
           leaves the snapshot unchanged. Non-trivial: >= 1 served namespace tampered, behind or diverged. Distinct = hash of the case.",
    assumptions: &[
        "the wire is replaced by a pipe to `git upload-pack` with exactly the worker's arguments; the request header is stripped like the responder does",
        "a sigrefs blob without refs/rad/root is tolerated (the code documents it as legacy-permitted)",
    ],
    run: run_c01,
    budget_s: (1500, 7200),
};

pub const PROP_C02: Prop = Prop {
    id: "C02",
    shards: (16, 16),
    level: "exploration",
    rule: "Same generated fetch scenarios as C01 (real storages, `git upload-pack`), biased towards delegate states: per \
           delegate the offered state is absent / behind / equal / ahead / diverged / invalid(kind) against a prior state \
           absent or present. Oracle: (a) every delegate's rad/sigrefs tip before the fetch is equal to or an ancestor of \
           the tip after it; (b) with V = number of non-local delegates that had signed refs before or are offered in a \
           valid form (the most lenient reading), V < threshold (minus one if the local node is a delegate) implies the \
           fetch does not succeed; (c) a delegate whose offered sigrefs diverge from the stored ones and are fetched makes \
           the fetch fail; (d) every non-success leaves the ref snapshot unchanged. Non-trivial: V within 1 of the \
           threshold, or a delegate behind/diverged/invalid. Distinct = hash of the case.",
    assumptions: &["see C01"],
    run: run_c02,
    budget_s: (1500, 7200),
};

#[derive(Debug, Clone, Copy, Serialize, Deserialize, Hash, PartialEq, Eq)]
pub enum Offer {
    Absent,
    Honest { epoch: u8 },
    /// benign server-side mess: the signed state of `epoch` plus something unsigned / moved / deleted
    UnsignedExtra { epoch: u8 },
    MovedRef { epoch: u8 },
    DeletedRef { epoch: u8 },
    /// a `rad/id` reference in the namespace that its signed refs do not list: either the fetch does not
    /// look at it, or the namespace fails validation; in both cases what is stored must equal the signed refs
    UnsignedRadId { epoch: u8 },
    /// invalid forms: the namespace's signed refs must stay what they were
    NoSigrefs { epoch: u8 },
    BadSignature { epoch: u8 },
    Rekeyed { epoch: u8 },
    ForeignRoot { epoch: u8 },
    MissingObject { epoch: u8 },
    Diverged,
}

impl Offer {
    fn invalid(&self) -> bool {
        matches!(
            self,
            Offer::NoSigrefs { .. } | Offer::BadSignature { .. } | Offer::Rekeyed { .. } | Offer::ForeignRoot { .. } | Offer::MissingObject { .. }
        )
    }
    fn honestish_epoch(&self) -> Option<u8> {
        match self {
            Offer::Honest { epoch } | Offer::UnsignedExtra { epoch } | Offer::MovedRef { epoch } | Offer::DeletedRef { epoch } | Offer::UnsignedRadId { epoch } => Some(*epoch),
            _ => None,
        }
    }
}

#[derive(Debug, Clone, Serialize, Deserialize, Hash)]
pub struct Case {
    ndelegates: u8,
    threshold: u8,
    local_delegate: bool,
    nothers: u8,
    clone: bool,
    /// per namespace (delegates first, then others): prior epoch + 1 in the fetcher, 0 = absent
    prior: Vec<u8>,
    offer: Vec<Offer>,
    /// None = scope all; Some(mask) = followed subset of the non-delegate namespaces
    followed: Option<u8>,
    /// 0 = none, 1 = announce the offered tips of the namespaces in `announce`, 2 = announce a wrong commit for the first of them
    refs_at: u8,
    announce: u8,
    /// index of the namespace whose key is the serving peer
    remote: u8,
}

const NEPOCHS: usize = 3;

fn offer_strategy(delegate_bias: bool) -> impl Strategy<Value = Offer> {
    let e = 0u8..NEPOCHS as u8;
    let inv = if delegate_bias { 2 } else { 1 };
    prop_oneof![
        2 => Just(Offer::Absent),
        20 => e.clone().prop_map(|epoch| Offer::Honest { epoch }),
        2 => e.clone().prop_map(|epoch| Offer::UnsignedExtra { epoch }),
        2 => e.clone().prop_map(|epoch| Offer::MovedRef { epoch }),
        2 => e.clone().prop_map(|epoch| Offer::DeletedRef { epoch }),
        4 => e.clone().prop_map(|epoch| Offer::UnsignedRadId { epoch }),
        2 + inv => e.clone().prop_map(|epoch| Offer::NoSigrefs { epoch }),
        // the following four make the whole fetch fail, so they are kept rarer
        1 => e.clone().prop_map(|epoch| Offer::BadSignature { epoch }),
        1 => e.clone().prop_map(|epoch| Offer::Rekeyed { epoch }),
        1 => e.clone().prop_map(|epoch| Offer::ForeignRoot { epoch }),
        1 => e.prop_map(|epoch| Offer::MissingObject { epoch }),
        2 + inv => Just(Offer::Diverged),
    ]
}

fn case_strategy(delegate_bias: bool) -> impl Strategy<Value = Case> {
    (1u8..=4, any::<bool>(), 0u8..=2).prop_flat_map(move |(ndelegates, local_delegate, nothers)| {
        let n = (ndelegates + nothers) as usize;
        let total_delegates = ndelegates + local_delegate as u8;
        (
            1u8..=total_delegates,
            proptest::bool::weighted(0.35),
            proptest::collection::vec(0u8..=NEPOCHS as u8, n),
            proptest::collection::vec(offer_strategy(delegate_bias), n),
            proptest::option::weighted(0.3, any::<u8>()),
            prop_oneof![4 => Just(0u8), 2 => Just(1u8), 1 => Just(2u8)],
            any::<u8>(),
            0u8..n as u8,
        )
            .prop_map(move |(threshold, clone, prior, offer, followed, refs_at, announce, remote)| Case {
                ndelegates,
                threshold,
                local_delegate,
                nothers,
                clone,
                prior,
                offer,
                followed,
                refs_at,
                announce,
                remote,
            })
    })
}

thread_local! {
    /// Pristine worlds per identity shape; every case works on a copy.
    static WORLDS: std::cell::RefCell<BTreeMap<(Vec<u8>, u8, Vec<u8>), World>> = const { std::cell::RefCell::new(BTreeMap::new()) };
}

struct Outcome {
    before: Snapshot,
    after: Snapshot,
    success: bool,
    err: Option<String>,
    keys: Vec<u8>,
    offered_tip: Vec<Option<Oid>>,
    fetched_ns: Vec<bool>,
    world: World,
    client_repo: Option<git2::Repository>,
}

/// Clauses (1)-(3) for one namespace as stored in `repo`: its refs equal the refs blob at its
/// rad/sigrefs tip, the signature verifies for the namespace key, a listed root is this repository's.
fn verify_namespace(repo: &git2::Repository, ns: &str, pk: &radicle::crypto::PublicKey, a: &BTreeMap<String, Oid>, identity_root: Oid, what: &str) -> CaseResult {
    let Some(tip) = a.get("refs/rad/sigrefs") else {
        return fail(format!("{what}:namespace-without-sigrefs"), format!("namespace {ns} has refs {:?} but no rad/sigrefs", a.keys().collect::<Vec<_>>()));
    };
    let Some(blob) = blob_at(repo, *tip, "refs") else {
        return fail(format!("{what}:sigrefs-tip-has-no-refs-blob"), format!("namespace {ns}: rad/sigrefs points at {tip}, which has no refs blob"));
    };
    let Some(listed) = parse_refs_blob(&blob) else {
        return fail(format!("{what}:sigrefs-refs-blob-unparseable"), format!("namespace {ns}: refs blob at {tip} does not parse"));
    };
    let mut have = a.clone();
    have.remove("refs/rad/sigrefs");
    if have != listed {
        let extra: Vec<_> = have.iter().filter(|(n, o)| listed.get(*n) != Some(o)).map(|(n, _)| n.clone()).collect();
        let missing: Vec<_> = listed.iter().filter(|(n, o)| have.get(*n) != Some(o)).map(|(n, _)| n.clone()).collect();
        let class = if !extra.is_empty() && extra.iter().all(|n| n.starts_with("refs/rad/")) && missing.is_empty() {
            "unlisted-rad-ref-kept"
        } else {
            "refs-differ-from-signed-refs"
        };
        return fail(
            format!("{what}:{class}"),
            format!("namespace {ns}: refs not matching the signed refs at {tip}: unlisted-or-different {extra:?}, missing {missing:?}"),
        );
    }
    let sig = blob_at(repo, *tip, "signature").and_then(|s| radicle::crypto::Signature::try_from(s.as_slice()).ok());
    let Some(sig) = sig else {
        return fail(format!("{what}:signature-blob-invalid"), format!("namespace {ns}: no valid signature blob at {tip}"));
    };
    ensure!(
        pk.verify(&blob, &sig).is_ok(),
        format!("{what}:signature-does-not-verify"),
        "namespace {ns}: signature at {tip} does not verify for the namespace key over the refs blob"
    );
    if let Some(root) = listed.get("refs/rad/root") {
        ensure!(
            *root == identity_root,
            format!("{what}:foreign-identity-root"),
            "namespace {ns}: signed refs name identity root {root}, this repository's is {identity_root}"
        );
    }
    Ok(())
}

/// Build the world, prime the fetcher, tamper with the server, fetch.
fn execute(ctx: &Ctx, c: &Case) -> Result<Option<Outcome>, Fail> {
    let mut delegates: Vec<u8> = (0..c.ndelegates).collect();
    if c.local_delegate {
        delegates.push(LOCAL);
    }
    let others: Vec<u8> = (10..10 + c.nothers).collect();
    let keys: Vec<u8> = (0..c.ndelegates).chain(others.iter().copied()).collect(); // served namespaces
    let n = keys.len();
    // the local node's namespace is not on the server
    let served_delegates: Vec<u8> = (0..c.ndelegates).collect();
    let mut all_delegates = served_delegates.clone();
    if c.local_delegate {
        all_delegates.push(LOCAL);
    }
    let key = (all_delegates.clone(), c.threshold, others.clone());
    let mut world = WORLDS.with(|w| {
        let mut w = w.borrow_mut();
        if !w.contains_key(&key) {
            w.insert(key.clone(), World::new(&all_delegates, c.threshold as usize, &others, NEPOCHS));
        }
        w[&key].fork()
    });
    let client = world.client();
    let allowed_all = Allowed::All;
    let srv = world.server_repo();
    let raw = &srv.backend;

    // ---- prime the fetcher (pull mode): honest state, delegates always present
    let mut prior: Vec<Option<usize>> = c.prior.iter().map(|p| if *p == 0 { None } else { Some((*p - 1) as usize) }).collect();
    if c.clone {
        prior = vec![None; n];
    } else {
        for (i, _) in keys.iter().enumerate() {
            if i < c.ndelegates as usize && prior[i].is_none() {
                prior[i] = Some(0);
            }
        }
        for (i, k) in keys.iter().enumerate() {
            match prior[i] {
                Some(e) => world.offer_epoch(*k, e),
                None => set_ns(raw, &key_of(*k), &BTreeMap::new()),
            }
        }
        let (r, _) = clone(&world, &client, keys[0], allowed_all.clone());
        match r {
            Fetched::Ok(res) if res.is_success() => {
                // the priming clone is a fetch like any other: everything it stored must match the signed refs
                use radicle::storage::ReadStorage;
                let prepo = client.repository(world.rid).unwrap();
                let snap = snapshot(&prepo.backend);
                for ns in namespaces(&snap) {
                    let pk: radicle::crypto::PublicKey = ns.parse().map_err(|_| Fail { sig: "namespace-name-not-a-key".into(), msg: ns.clone() })?;
                    verify_namespace(&prepo.backend, &ns, &pk, &ns_refs(&snap, &pk), world.identity_root, "honest-clone")?;
                }
                ctx.count("priming-clone-verified");
            }
            Fetched::Ok(_) => {
                ctx.count("skipped:priming-clone-below-threshold");
                return Ok(None);
            }
            Fetched::Err(e) => {
                return Err(Fail { sig: "harness:priming-clone-failed".into(), msg: format!("honest priming clone failed: {e}") });
            }
        }
    }
    let before = if c.clone {
        Snapshot::new()
    } else {
        use radicle::storage::ReadStorage;
        snapshot(&client.repository(world.rid).unwrap().backend)
    };

    // ---- the offered (possibly tampered) server state
    let mut offered_tip: Vec<Option<Oid>> = vec![None; n];
    for (i, k) in keys.iter().enumerate() {
        let pk = key_of(*k);
        let dev = peer_key(*k);
        let states = &world.epochs[k];
        let put = |refs: &BTreeMap<String, Oid>| set_ns(raw, &pk, refs);
        match c.offer[i] {
            Offer::Absent => put(&BTreeMap::new()),
            Offer::Honest { epoch } => put(&states[epoch as usize]),
            Offer::UnsignedExtra { epoch } => {
                let mut r = states[epoch as usize].clone();
                r.insert("refs/heads/unsigned".into(), states[0]["refs/heads/master"]);
                put(&r);
            }
            Offer::MovedRef { epoch } => {
                let mut r = states[epoch as usize].clone();
                let other = states[(epoch as usize + 1) % NEPOCHS]["refs/heads/master"];
                r.insert("refs/heads/master".into(), other);
                put(&r);
            }
            Offer::DeletedRef { epoch } => {
                let mut r = states[epoch as usize].clone();
                r.remove("refs/heads/master");
                put(&r);
            }
            Offer::UnsignedRadId { epoch } => {
                let mut r = states[epoch as usize].clone();
                r.insert("refs/rad/id".into(), world.identity_root);
                put(&r);
            }
            Offer::NoSigrefs { epoch } => {
                let mut r = states[epoch as usize].clone();
                r.remove("refs/rad/sigrefs");
                put(&r);
            }
            Offer::BadSignature { epoch } => {
                let e = epoch as usize;
                let at = states[e]["refs/rad/sigrefs"];
                let blob = blob_at(raw, at, "refs").unwrap();
                let mut sig = blob_at(raw, at, "signature").unwrap();
                sig[5] ^= 0x04;
                let parent = if e > 0 { Some(*states[e - 1]["refs/rad/sigrefs"]) } else { None };
                let forged = write_sigrefs(raw, &blob, &sig, parent, 1_600_009_000);
                let mut r = states[e].clone();
                r.insert("refs/rad/sigrefs".into(), forged.into());
                put(&r);
            }
            Offer::Rekeyed { epoch } => {
                // somebody else's (valid) sigrefs commit under this namespace
                let other = keys[(i + 1) % n];
                let donor = if other == *k { None } else { Some(world.epochs[&other][epoch as usize]["refs/rad/sigrefs"]) };
                let mut r = states[epoch as usize].clone();
                match donor {
                    Some(d) => {
                        r.insert("refs/rad/sigrefs".into(), d);
                    }
                    None => {
                        // single namespace: use a re-signed copy by a foreign key instead
                        use radicle::crypto::signature::Signer as _;
                        let at = states[epoch as usize]["refs/rad/sigrefs"];
                        let blob = blob_at(raw, at, "refs").unwrap();
                        let sig: radicle::crypto::Signature = peer_key(77).sign(&blob);
                        let forged = write_sigrefs(raw, &blob, sig.as_ref(), None, 1_600_009_001);
                        r.insert("refs/rad/sigrefs".into(), forged.into());
                    }
                }
                put(&r);
            }
            Offer::ForeignRoot { epoch } => {
                use radicle::crypto::signature::Signer as _;
                let e = epoch as usize;
                let foreign_doc = world.doc.clone().with_edits(|raw| raw.visibility = Visibility::private([])).unwrap();
                let foreign = doc_commit(raw, &foreign_doc);
                let at = states[e]["refs/rad/sigrefs"];
                let mut listed = parse_refs_blob(&blob_at(raw, at, "refs").unwrap()).unwrap();
                listed.insert("refs/rad/root".into(), foreign);
                let text: String = listed.iter().map(|(n, o)| format!("{o} {n}\n")).collect();
                let sig: radicle::crypto::Signature = dev.sign(text.as_bytes());
                let parent = if e > 0 { Some(*states[e - 1]["refs/rad/sigrefs"]) } else { None };
                let forged = write_sigrefs(raw, text.as_bytes(), sig.as_ref(), parent, 1_600_009_002);
                let mut r = states[e].clone();
                r.insert("refs/rad/root".into(), foreign);
                r.insert("refs/rad/sigrefs".into(), forged.into());
                put(&r);
            }
            Offer::MissingObject { epoch } => {
                use radicle::crypto::signature::Signer as _;
                let e = epoch as usize;
                let at = states[e]["refs/rad/sigrefs"];
                let mut listed = parse_refs_blob(&blob_at(raw, at, "refs").unwrap()).unwrap();
                let ghost: Oid = "d".repeat(40).parse().unwrap();
                listed.insert("refs/heads/ghost".into(), ghost);
                let text: String = listed.iter().map(|(n, o)| format!("{o} {n}\n")).collect();
                let sig: radicle::crypto::Signature = dev.sign(text.as_bytes());
                let parent = if e > 0 { Some(*states[e - 1]["refs/rad/sigrefs"]) } else { None };
                let forged = write_sigrefs(raw, text.as_bytes(), sig.as_ref(), parent, 1_600_009_003);
                let mut r = states[e].clone();
                r.insert("refs/rad/sigrefs".into(), forged.into());
                put(&r);
            }
            Offer::Diverged => {
                // a validly signed sibling of what the fetcher has (or of epoch 1)
                use radicle::storage::SignRepository;
                let p = prior[i].unwrap_or(1);
                let base = if p > 0 { states[p - 1].clone() } else { BTreeMap::new() };
                put(&base);
                let parent_head = base.get("refs/heads/master").map(|o| **o);
                let alt = commit_on(raw, &parent_head.into_iter().collect::<Vec<_>>(), &format!("alt k{k}"), 1_600_000_777);
                raw.reference(&format!("{}refs/heads/master", ns_prefix(&pk)), alt, true, "lab").unwrap();
                std::env::set_var("GIT_COMMITTER_DATE", "1600007777");
                srv.sign_refs(&dev).unwrap();
                std::env::remove_var("GIT_COMMITTER_DATE");
            }
        }
        offered_tip[i] = ns_refs(&snapshot(raw), &pk).get("refs/rad/sigrefs").copied();
    }

    // ---- fetch parameters
    let allowed = match c.followed {
        None => Allowed::All,
        Some(mask) => {
            let remotes: std::collections::HashSet<_> = keys
                .iter()
                .enumerate()
                .filter(|(i, _)| *i >= c.ndelegates as usize && mask >> (i - c.ndelegates as usize) & 1 == 1)
                .map(|(_, k)| key_of(*k))
                .collect();
            Allowed::Followed { remotes }
        }
    };
    let announced: Vec<usize> = (0..n).filter(|i| c.announce >> i & 1 == 1 && offered_tip[*i].is_some()).collect();
    let refs_at: Option<Vec<RefsAt>> = if c.clone || c.refs_at == 0 || announced.is_empty() {
        None
    } else {
        let mut v: Vec<RefsAt> = announced.iter().map(|i| RefsAt { remote: key_of(keys[*i]), at: offered_tip[*i].unwrap() }).collect();
        if c.refs_at == 2 {
            // a commit that is not this namespace's signed refs at all
            v[0].at = world.identity_root;
        }
        Some(v)
    };
    let fetched_ns: Vec<bool> = (0..n)
        .map(|i| match &refs_at {
            Some(v) => v.iter().any(|r| r.remote == key_of(keys[i])),
            None => match &allowed {
                Allowed::All => true,
                Allowed::Followed { remotes } => i < c.ndelegates as usize || remotes.contains(&key_of(keys[i])),
            },
        })
        .collect();
    let remote = keys[c.remote as usize % n];

    let (fetched, repo) = if c.clone {
        let (f, r) = clone(&world, &client, remote, allowed);
        (f, r.map(|r| r.backend))
    } else {
        use radicle::storage::ReadStorage;
        let f = pull(&world, &client, remote, allowed, refs_at);
        (f, Some(client.repository(world.rid).unwrap().backend))
    };
    let (success, err) = match &fetched {
        Fetched::Ok(FetchResult::Success { .. }) => (true, None),
        Fetched::Ok(FetchResult::Failed { .. }) => (false, Some("failed: threshold".to_string())),
        Fetched::Err(e) => (false, Some(e.clone())),
    };
    let after = match (&repo, c.clone, success) {
        (Some(r), _, true) => snapshot(r),
        (Some(r), false, false) => snapshot(r),
        // a failed clone leaves nothing in storage (the temporary repository is discarded)
        _ => Snapshot::new(),
    };
    if c.clone && !success {
        use radicle::storage::ReadStorage;
        ensure!(
            !client.contains(&world.rid).unwrap_or(false),
            "failed-clone-left-repository-in-storage",
            "clone failed ({err:?}) but the repository exists in the fetcher's storage"
        );
    }
    ctx.count(match (&fetched, c.clone) {
        (Fetched::Ok(FetchResult::Success { .. }), true) => "clone:success",
        (Fetched::Ok(FetchResult::Success { .. }), false) => "pull:success",
        (Fetched::Ok(FetchResult::Failed { .. }), _) => "result:failed-threshold",
        (Fetched::Err(_), _) => "result:error",
    });
    Ok(Some(Outcome { before, after, success, err, keys, offered_tip, fetched_ns, world, client_repo: repo }))
}

/// A commit carrying an identity document (of another repository).
fn doc_commit(raw: &git2::Repository, doc: &radicle::identity::Doc) -> Oid {
    let (_, bytes) = doc.encode().unwrap();
    let blob = raw.blob(&bytes).unwrap();
    let mut embeds = raw.treebuilder(None).unwrap();
    embeds.insert("radicle.json", blob, 0o100644).unwrap();
    let embeds = embeds.write().unwrap();
    let mut root = raw.treebuilder(None).unwrap();
    root.insert("embeds", embeds, 0o040000).unwrap();
    let tree = raw.find_tree(root.write().unwrap()).unwrap();
    let sig = git2::Signature::new("lab", "lab@localhost", &git2::Time::new(1_600_000_001, 0)).unwrap();
    raw.commit(None, &sig, &sig, "foreign doc", &tree, &[]).unwrap().into()
}

fn check_c01(ctx: &Ctx, c: &Case) -> CaseResult {
    let Some(o) = execute(ctx, c)? else { return Ok(()) };
    let n = o.keys.len();
    if !o.success {
        ensure!(
            o.after == o.before || c.clone,
            "failed-fetch-changed-storage",
            "fetch did not succeed ({:?}) but the ref snapshot changed: {:?}",
            o.err,
            diff(&o.before, &o.after)
        );
    } else {
        let repo = o.client_repo.as_ref().unwrap();
        let all_ns: BTreeSet<String> = namespaces(&o.before).union(&namespaces(&o.after)).cloned().collect();
        for ns in all_ns {
            let pk: radicle::crypto::PublicKey = ns.parse().map_err(|_| Fail { sig: "namespace-name-not-a-key".into(), msg: ns.clone() })?;
            let b = ns_refs(&o.before, &pk);
            let a = ns_refs(&o.after, &pk);
            let ix = (0..n).find(|i| key_of(o.keys[*i]) == pk);
            if a == b {
                continue;
            }
            // Invalid offers: the signed refs of the namespace must stay what they were (a namespace
            // that did not exist must not appear); it may only change towards exactly those signed refs.
            if let Some(i) = ix {
                if c.offer[i].invalid() {
                    ensure!(
                        a.get("refs/rad/sigrefs") == b.get("refs/rad/sigrefs") && b.contains_key("refs/rad/sigrefs"),
                        format!("invalid-namespace-changed:{}", offer_name(&c.offer[i])),
                        "namespace {ns} was offered as {:?}; its signed refs must stay as they were, but it changed: {:?}",
                        c.offer[i],
                        diff_ns(&b, &a)
                    );
                }
            }
            verify_namespace(repo, &ns, &pk, &a, o.world.identity_root, "changed-namespace")?;
            ctx.count("namespace-changed-and-verified");
        }
    }
    classify(ctx, c, &o);
    Ok(())
}

fn check_c02(ctx: &Ctx, c: &Case) -> CaseResult {
    let Some(o) = execute(ctx, c)? else { return Ok(()) };
    let nd = c.ndelegates as usize;
    let threshold = (c.threshold as usize).saturating_sub(c.local_delegate as usize);
    // (d)
    if !o.success {
        ensure!(
            o.after == o.before || c.clone,
            "failed-fetch-changed-storage",
            "fetch did not succeed ({:?}) but the ref snapshot changed: {:?}",
            o.err,
            diff(&o.before, &o.after)
        );
    }
    // (a) delegate sigrefs only move forward
    if let Some(repo) = o.client_repo.as_ref() {
        for i in 0..nd {
            let pk = key_of(o.keys[i]);
            let old = ns_refs(&o.before, &pk).get("refs/rad/sigrefs").copied();
            let new = ns_refs(&o.after, &pk).get("refs/rad/sigrefs").copied();
            if let Some(old) = old {
                let Some(new) = new else {
                    if o.success {
                        return fail("delegate-sigrefs-removed", format!("delegate {i}: rad/sigrefs {old} disappeared"));
                    }
                    continue;
                };
                ensure!(
                    is_ancestor_or_equal(repo, old, new),
                    if o.world.epochs[&o.keys[i]].iter().any(|s| s["refs/rad/sigrefs"] == new) { "delegate-sigrefs-rewound" } else { "delegate-sigrefs-diverged" },
                    "delegate {i}: rad/sigrefs moved from {old} to {new}, which does not descend from it (offer {:?})",
                    c.offer[i]
                );
            }
        }
    }
    // (b) threshold under the most lenient reading
    let mut v = 0;
    for i in 0..nd {
        let pk = key_of(o.keys[i]);
        let had = ns_refs(&o.before, &pk).contains_key("refs/rad/sigrefs");
        let offered_valid = !matches!(c.offer[i], Offer::Absent) && !c.offer[i].invalid();
        if had || offered_valid {
            v += 1;
        }
    }
    if v < threshold {
        ensure!(
            !o.success,
            "success-below-delegate-threshold",
            "{v} delegate(s) have or are offered valid signed refs, threshold is {threshold} (identity threshold {}, local delegate: {}), yet the fetch succeeded",
            c.threshold,
            c.local_delegate
        );
    }
    // (c) diverged delegate that is fetched
    for i in 0..nd {
        let pk = key_of(o.keys[i]);
        let had = ns_refs(&o.before, &pk).get("refs/rad/sigrefs").copied();
        if let (Offer::Diverged, Some(old), true) = (c.offer[i], had, o.fetched_ns[i]) {
            if let (Some(new), Some(repo)) = (o.offered_tip[i], o.client_repo.as_ref()) {
                let really_diverged = !is_ancestor_or_equal(repo, old, new) && !is_ancestor_or_equal(repo, new, old);
                // (if the objects never arrived the ancestry test is vacuous; then the fetch failed earlier)
                if really_diverged || repo.find_commit(*new).is_err() {
                    ensure!(
                        !o.success,
                        "success-with-diverged-delegate",
                        "delegate {i} offered rad/sigrefs {new} diverging from the stored {old}, and the fetch succeeded"
                    );
                }
            }
        }
    }
    let near = (v as i64 - threshold as i64).abs() <= 1;
    let delegate_trouble = (0..nd).any(|i| {
        c.offer[i].invalid()
            || matches!(c.offer[i], Offer::Diverged)
            || match (c.offer[i].honestish_epoch(), c.prior.get(i)) {
                (Some(e), Some(p)) if *p > 0 => (e as usize) < (*p as usize - 1),
                _ => false,
            }
    });
    if near {
        ctx.count("case:valid-delegates-within-1-of-threshold");
    }
    if delegate_trouble {
        ctx.count("case:delegate-behind-diverged-or-invalid");
    }
    if near || delegate_trouble {
        ctx.nontrivial(c);
        ctx.sample("scenarios", c);
    }
    Ok(())
}

fn classify(ctx: &Ctx, c: &Case, o: &Outcome) {
    let n = o.keys.len();
    let mut interesting = false;
    for i in 0..n {
        ctx.count(&format!("offer:{}", offer_name(&c.offer[i])));
        let behind = match (c.offer[i].honestish_epoch(), c.prior.get(i)) {
            (Some(e), Some(p)) if *p > 0 && !c.clone => (e as usize) < (*p as usize - 1),
            _ => false,
        };
        if behind {
            ctx.count("offer:behind");
        }
        if behind || !matches!(c.offer[i], Offer::Honest { .. } | Offer::Absent) {
            interesting = true;
        }
    }
    if interesting {
        ctx.nontrivial(c);
        ctx.sample("scenarios", c);
    }
}

fn offer_name(o: &Offer) -> &'static str {
    match o {
        Offer::Absent => "absent",
        Offer::Honest { .. } => "honest",
        Offer::UnsignedExtra { .. } => "unsigned-extra-ref",
        Offer::MovedRef { .. } => "signed-ref-moved",
        Offer::DeletedRef { .. } => "signed-ref-deleted",
        Offer::UnsignedRadId { .. } => "unsigned-rad-id",
        Offer::NoSigrefs { .. } => "no-sigrefs",
        Offer::BadSignature { .. } => "bad-signature",
        Offer::Rekeyed { .. } => "re-keyed",
        Offer::ForeignRoot { .. } => "foreign-root",
        Offer::MissingObject { .. } => "missing-object",
        Offer::Diverged => "diverged",
    }
}

fn diff(a: &Snapshot, b: &Snapshot) -> Vec<String> {
    let mut v = vec![];
    for (n, o) in a {
        match b.get(n) {
            None => v.push(format!("-{n}")),
            Some(x) if x != o => v.push(format!("~{n}")),
            _ => {}
        }
    }
    for n in b.keys() {
        if !a.contains_key(n) {
            v.push(format!("+{n}"));
        }
    }
    v
}

fn diff_ns(a: &BTreeMap<String, Oid>, b: &BTreeMap<String, Oid>) -> Vec<String> {
    let sa: Snapshot = a.clone();
    let sb: Snapshot = b.clone();
    diff(&sa, &sb)
}

fn run_c01(ctx: &Ctx) {
    ctx.run("scenarios", case_strategy(false), ctx.cases(192, 1_600), |c: &Case| check_c01(ctx, c));
}

fn run_c02(ctx: &Ctx) {
    ctx.run("scenarios", case_strategy(true), ctx.cases(192, 1_600), |c: &Case| check_c02(ctx, c));
}

#[allow(dead_code)]
fn _unused(_: Did) {}
