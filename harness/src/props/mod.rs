use crate::core::Prop;

pub mod c23;

pub fn all() -> Vec<Prop> {
    vec![c23::PROP]
}
