use crate::core::Prop;

pub mod c01;
pub mod c03;
pub mod c04;
pub mod c05;
pub mod c06;
pub mod c07;
pub mod c08;
pub mod c09;
pub mod c09b;
pub mod c10;
pub mod c11;
pub mod c12;
pub mod c13;
pub mod c14;
pub mod c15;
pub mod c16;
pub mod c17;
pub mod c18;
pub mod c19;
pub mod c20;
pub mod c21;
pub mod c22;
pub mod c23;
pub mod c24;
pub mod c25;
pub mod c26;
pub mod c27;
pub mod c28;
pub mod c29;
#[cfg(feature = "cli")]
pub mod c30;
pub mod modelrepo;

pub fn all() -> Vec<Prop> {
    vec![c01::PROP_C01, c01::PROP_C02, c03::PROP, c04::PROP, c05::PROP, c06::PROP, c07::PROP, c08::PROP, c09::PROP, c10::PROP, c11::PROP, c12::PROP, c13::PROP, c14::PROP, c15::PROP, c16::PROP, c17::PROP, c18::PROP, c19::PROP, c20::PROP, c21::PROP, c22::PROP, c23::PROP, c24::PROP, c25::PROP, c26::PROP, c27::PROP, c28::PROP, c29::PROP]
}

/// Properties served by the `vcheck-cli` binary (needs the `cli` feature).
#[cfg(feature = "cli")]
pub fn cli() -> Vec<Prop> {
    vec![c30::PROP]
}
