//! C09 — The COB cache answers exactly like direct evaluation.
//!
//! A real git-backed repository (two delegates + one non-delegate contributor)
//! is driven through generated sequences of patch / issue operations. Each
//! operation goes either through the write-through cached handle
//! (`Cache<_, StoreWriter>`, in-memory sqlite) or — a "fetched" update —
//! through a `NoCache` handle followed by what `worker::fetch::cache_cobs`
//! does (`Cache::write`, update-or-remove, or `write_all`). After every step
//! every query of the `Patches` / `Issues` traits is asked on the cached handle
//! and on `Cache::no_cache(&repo)` and the answers are compared as
//! `Result<Option<_>>` shapes plus object equality.
use std::collections::{BTreeMap, BTreeSet};
use std::fmt::Display;
use std::ops::ControlFlow;
use std::str::FromStr;

use proptest::prelude::*;
use radicle::cob::cache::{Remove, StoreWriter, Update};
use radicle::cob::issue::cache::Issues as IssuesApi;
use radicle::cob::issue::{self, CloseReason, Issue, IssueMut};
use radicle::cob::patch::cache::Patches as PatchesApi;
use radicle::cob::patch::{
    self, ByRevision, Lifecycle, MergeTarget, Patch, PatchMut, ReviewId, RevisionId, Status, Verdict,
};
use radicle::cob::{Embed, Label, ObjectId, Reaction, Uri};
use radicle::crypto::test::signer::MockSigner;
use radicle::git::raw as git2;
use radicle::git::Oid;
use radicle::identity::{Did, Doc, RepoId, Visibility};
use radicle::node::device::Device;
use radicle::storage::git::Repository;
use radicle::storage::{ReadRepository, SignRepository, WriteRepository};
use radicle::Storage;
use serde::{Deserialize, Serialize};

use crate::core::*;
use crate::ensure;

pub const PROP: Prop = Prop {
    id: "C09",
    shards: (16, 16),
    level: "exploration",
    rule: "Cases are (delegate threshold 1|2, <=12 steps, a probe id). A step = (author: delegate 0/1 or \
           non-delegate 2, route: write-through cached handle | NoCache handle followed by Cache::write / \
           update-or-remove / write_all, op) with ops over <=4 patches and <=3 issues: create/draft, revision, \
           review (+edit), comments on revisions and reviews, redactions (revision, review, both comment kinds), \
           reactions, label, assign, edit, every lifecycle status, merge (valid and ignored commits), remove, \
           issue create/comment/redact/lifecycle(open, solved, other)/label/assign/remove, and foreign rows of \
           another repository in the same database. An op whose target does not exist yet is preceded by the \
           ops that create it (same author and route; <= 24 executed ops per case). After every executed op \
           all queries are compared (get, list, list_by_status for every status, \
           counts, is_empty, find_by_revision for every patch, revision, review, comment and issue id ever \
           produced, the two latest other entry ids, foreign ids and a random probe). Non-trivial: at some step \
           the store held >= 2 objects in >= 2 different statuses and find_by_revision was asked with a \
           comment id, review id or redacted revision id. Distinct = hash of the whole case. Sub-space \
           'fetch-batches': 1-3 rounds of <= 8 changes made behind the cache's back (new issue/patch, comment, \
           label, close, remove, objects of the issue/patch type that cannot be evaluated, objects of another \
           type), the reference updates of the round in a generated order handed to the node's real \
           worker::fetch::cache_cobs (verif-hooks), then get/list/list_by_status/counts compared for every \
           object that direct evaluation can load; non-trivial there: a round with an unloadable object and \
           >= 1 loadable update.",
    assumptions: &[
        "all changes are honest (made through the public Patches/Issues API); rejected operations leave both views unchanged",
        "every update made behind the cache's back is followed by the cache refresh that the fetch worker performs",
        "default branches never move during a case (merge validity is time-independent)",
        "State::Open{conflicts} is compared as a set: direct evaluation orders it by HashMap iteration",
        "single process, single thread per shard: GIT_COMMITTER_DATE is set per step from generated values",
    ],
    run,
    budget_s: (1500, 7200),
};

// ---------------------------------------------------------------------------
// Case
// ---------------------------------------------------------------------------

#[derive(Debug, Clone, Copy, PartialEq, Eq, Serialize, Deserialize, Hash)]
pub enum Via {
    /// through the write-through cached handle
    Cached,
    /// through the NoCache handle, then `Cache::write(id)` (remove from the cache if the object is gone)
    FetchedWrite,
    /// through the NoCache handle, then load-and-`Update::update` or `Remove::remove` (`update_or_remove`)
    FetchedSync,
    /// through the NoCache handle, then `Cache::write_all`
    FetchedWriteAll,
}

#[derive(Debug, Clone, PartialEq, Eq, Serialize, Deserialize, Hash)]
pub enum Op {
    PatchCreate { draft: bool, labels: u8, branch: u8 },
    PatchEdit { patch: u16 },
    Revision { patch: u16, branch: u8 },
    EditRevision { patch: u16, rev: u16 },
    Review { patch: u16, rev: u16, verdict: u8, summary: bool, label: bool },
    ReviewEdit { patch: u16, review: u16, verdict: u8 },
    RevComment { patch: u16, rev: u16, reply: Option<u16>, embed: bool },
    EditRevComment { patch: u16, comment: u16 },
    ReviewComment { patch: u16, review: u16, reply: Option<u16> },
    ResolveReviewComment { patch: u16, comment: u16, resolve: bool },
    RedactRevision { patch: u16, rev: u16 },
    RedactReview { patch: u16, review: u16 },
    RedactRevComment { patch: u16, comment: u16 },
    RedactReviewComment { patch: u16, comment: u16 },
    RevReact { patch: u16, rev: u16, active: bool },
    CommentReact { patch: u16, comment: u16, active: bool },
    Label { patch: u16, labels: u8 },
    Assign { patch: u16, who: u8 },
    Lifecycle { patch: u16, state: u8 },
    Merge { patch: u16, rev: u16, commit: u8 },
    PatchRemove { patch: u16 },
    IssueCreate { labels: u8, assign: u8 },
    IssueEdit { issue: u16 },
    IssueComment { issue: u16, reply: u16, embed: bool },
    IssueRedactComment { issue: u16, comment: u16 },
    IssueReact { issue: u16, comment: u16, active: bool },
    IssueLifecycle { issue: u16, state: u8 },
    IssueLabel { issue: u16, labels: u8 },
    IssueAssign { issue: u16, who: u8 },
    IssueRemove { issue: u16 },
    /// rows of another repository in the same database (copies of current objects under fresh ids)
    ForeignRows,
}

#[derive(Debug, Clone, PartialEq, Eq, Serialize, Deserialize, Hash)]
pub struct Step {
    /// 0, 1: delegates; 2: non-delegate
    who: u8,
    via: Via,
    /// seconds added to the commit clock before this step (0 = same second as the previous step)
    dt: u8,
    op: Op,
}

#[derive(Debug, Clone, PartialEq, Eq, Serialize, Deserialize, Hash)]
pub struct Case {
    threshold: u8,
    steps: Vec<Step>,
    probe: [u8; 20],
}

const MAX_PATCHES: usize = 4;
const MAX_ISSUES: usize = 3;
/// Executed operations per case (generated steps plus inserted target-creating ops).
const MAX_OPS: usize = 24;

fn op_strategy() -> impl Strategy<Value = Op> {
    let ix = || any::<u16>();
    prop_oneof![
        4 => (any::<bool>(), 0u8..8, 0u8..4).prop_map(|(draft, labels, branch)| Op::PatchCreate { draft, labels, branch }),
        1 => ix().prop_map(|patch| Op::PatchEdit { patch }),
        5 => (ix(), 0u8..4).prop_map(|(patch, branch)| Op::Revision { patch, branch }),
        1 => (ix(), ix()).prop_map(|(patch, rev)| Op::EditRevision { patch, rev }),
        5 => (ix(), ix(), 0u8..3, any::<bool>(), any::<bool>())
            .prop_map(|(patch, rev, verdict, summary, label)| Op::Review { patch, rev, verdict, summary, label }),
        1 => (ix(), ix(), 0u8..3).prop_map(|(patch, review, verdict)| Op::ReviewEdit { patch, review, verdict }),
        4 => (ix(), ix(), proptest::option::of(ix()), any::<bool>())
            .prop_map(|(patch, rev, reply, embed)| Op::RevComment { patch, rev, reply, embed }),
        1 => (ix(), ix()).prop_map(|(patch, comment)| Op::EditRevComment { patch, comment }),
        4 => (ix(), ix(), proptest::option::of(ix())).prop_map(|(patch, review, reply)| Op::ReviewComment { patch, review, reply }),
        1 => (ix(), ix(), any::<bool>()).prop_map(|(patch, comment, resolve)| Op::ResolveReviewComment { patch, comment, resolve }),
        5 => (ix(), ix()).prop_map(|(patch, rev)| Op::RedactRevision { patch, rev }),
        3 => (ix(), ix()).prop_map(|(patch, review)| Op::RedactReview { patch, review }),
        3 => (ix(), ix()).prop_map(|(patch, comment)| Op::RedactRevComment { patch, comment }),
        2 => (ix(), ix()).prop_map(|(patch, comment)| Op::RedactReviewComment { patch, comment }),
        2 => (ix(), ix(), any::<bool>()).prop_map(|(patch, rev, active)| Op::RevReact { patch, rev, active }),
        1 => (ix(), ix(), any::<bool>()).prop_map(|(patch, comment, active)| Op::CommentReact { patch, comment, active }),
        2 => (ix(), 0u8..8).prop_map(|(patch, labels)| Op::Label { patch, labels }),
        2 => (ix(), 0u8..8).prop_map(|(patch, who)| Op::Assign { patch, who }),
        7 => (ix(), 0u8..3).prop_map(|(patch, state)| Op::Lifecycle { patch, state }),
        6 => (ix(), ix(), 0u8..4).prop_map(|(patch, rev, commit)| Op::Merge { patch, rev, commit }),
        2 => ix().prop_map(|patch| Op::PatchRemove { patch }),
        3 => (0u8..8, 0u8..8).prop_map(|(labels, assign)| Op::IssueCreate { labels, assign }),
        1 => ix().prop_map(|issue| Op::IssueEdit { issue }),
        3 => (ix(), ix(), any::<bool>()).prop_map(|(issue, reply, embed)| Op::IssueComment { issue, reply, embed }),
        2 => (ix(), ix()).prop_map(|(issue, comment)| Op::IssueRedactComment { issue, comment }),
        1 => (ix(), ix(), any::<bool>()).prop_map(|(issue, comment, active)| Op::IssueReact { issue, comment, active }),
        6 => (ix(), prop_oneof![1 => Just(0u8), 3 => Just(1u8), 3 => Just(2u8)]).prop_map(|(issue, state)| Op::IssueLifecycle { issue, state }),
        1 => (ix(), 0u8..8).prop_map(|(issue, labels)| Op::IssueLabel { issue, labels }),
        1 => (ix(), 0u8..8).prop_map(|(issue, who)| Op::IssueAssign { issue, who }),
        1 => ix().prop_map(|issue| Op::IssueRemove { issue }),
        1 => Just(Op::ForeignRows),
    ]
}

fn step_strategy() -> impl Strategy<Value = Step> {
    (
        prop_oneof![3 => Just(0u8), 3 => Just(1u8), 2 => Just(2u8)],
        prop_oneof![
            5 => Just(Via::Cached),
            2 => Just(Via::FetchedWrite),
            2 => Just(Via::FetchedSync),
            1 => Just(Via::FetchedWriteAll),
        ],
        0u8..4,
        op_strategy(),
    )
        .prop_map(|(who, via, dt, op)| Step { who, via, dt, op })
}

fn case_strategy() -> impl Strategy<Value = Case> {
    (1u8..=2, proptest::collection::vec(step_strategy(), 0..=12), any::<[u8; 20]>())
        .prop_map(|(threshold, steps, probe)| Case { threshold, steps, probe })
}

// ---------------------------------------------------------------------------
// World
// ---------------------------------------------------------------------------

pub(super) struct World {
    _tmp: tempfile::TempDir,
    pub(super) repo: Repository,
    pub(super) signers: Vec<Device<MockSigner>>,
    /// (base, head) pairs for revisions
    pub(super) branches: Vec<(Oid, Oid)>,
    /// merge commit candidates: the first two are in every default branch, the others in none
    merge_commits: Vec<Oid>,
    embed: Embed<Uri>,
}

pub(super) const T0: u64 = 1_700_000_000;

pub(super) fn set_clock(t: u64) {
    std::env::set_var("GIT_COMMITTER_DATE", t.to_string());
}

fn signer(ix: u8) -> Device<MockSigner> {
    let mut seed = [0u8; 32];
    seed[0] = 0xC9;
    seed[1] = ix;
    seed[31] = 7;
    Device::mock_from_seed(seed)
}

pub(super) fn world(threshold: u8) -> World {
    set_clock(T0);
    let tmp = crate::lab::tempdir();
    let signers: Vec<Device<MockSigner>> = (0..3).map(signer).collect();
    let storage = Storage::open(
        tmp.path().join("storage"),
        radicle::git::UserInfo { alias: radicle::node::Alias::new("lab"), key: *signers[0].public_key() },
    )
    .expect("storage");
    let project = radicle::identity::project::Project::new(
        "lab".to_string().try_into().unwrap(),
        "cob cache lab".to_string(),
        radicle::git::RefString::try_from("master").unwrap(),
    )
    .expect("project");
    let doc = Doc::initial(project, Did::from(*signers[0].public_key()), Visibility::Public)
        .with_edits(|raw| {
            raw.delegate(Did::from(*signers[1].public_key()));
            raw.threshold = threshold as usize;
        })
        .expect("doc");
    let (repo, identity) = Repository::init(&doc, &storage, &signers[0]).expect("repository init");
    repo.set_identity_head_to(identity).expect("identity head");

    let (branches, merge_commits, embed) = {
        let raw = &repo.backend;
        let sig = git2::Signature::new("lab", "lab@localhost", &git2::Time::new(1_600_000_000, 0)).unwrap();
        let commit = |name: &str, parents: &[Oid]| -> Oid {
            let blob = raw.blob(name.as_bytes()).unwrap();
            let mut tb = raw.treebuilder(None).unwrap();
            tb.insert("README", blob, 0o100_644).unwrap();
            let tree = raw.find_tree(tb.write().unwrap()).unwrap();
            let parents: Vec<git2::Commit> = parents.iter().map(|p| raw.find_commit(**p).unwrap()).collect();
            let parents: Vec<&git2::Commit> = parents.iter().collect();
            raw.commit(None, &sig, &sig, name, &tree, &parents).unwrap().into()
        };
        let c0 = commit("c0", &[]);
        let m1 = commit("m1", &[c0]);
        let m2 = commit("m2", &[m1]);
        let s1 = commit("s1", &[c0]);
        let s2 = commit("s2", &[s1]);
        for s in &signers {
            raw.reference(&format!("refs/namespaces/{}/refs/heads/master", s.public_key()), *m2, true, "lab")
                .unwrap();
        }
        let embed = Embed::<Uri>::store("note.txt", b"embedded", raw).unwrap();
        (vec![(c0, m1), (m1, m2), (c0, s1), (s1, s2)], vec![m1, m2, s1, s2], embed)
    };
    for s in &signers {
        repo.sign_refs(s).expect("sign refs");
    }
    let _ = repo.set_head();
    World { _tmp: tmp, repo, signers, branches, merge_commits, embed }
}

// ---------------------------------------------------------------------------
// Bookkeeping (target selection and the set of ids to ask about; not an oracle)
// ---------------------------------------------------------------------------

#[derive(Debug, Clone, Copy, PartialEq, Eq)]
enum Kind {
    Patch(usize),
    Revision(usize),
    RevComment,
    Review,
    ReviewComment,
    IssueId,
    IssueComment,
    /// entry id of an operation that creates no addressable object (label, lifecycle, redaction...)
    Entry,
}

#[derive(Default)]
struct PatchInfo {
    id: Option<ObjectId>,
    /// all revisions ever created, root first
    revs: Vec<RevisionId>,
    reviews: Vec<ReviewId>,
    rev_comments: Vec<(RevisionId, Oid)>,
    review_comments: Vec<(ReviewId, Oid)>,
}

struct IssueInfo {
    id: ObjectId,
    /// root comment first
    comments: Vec<Oid>,
}

#[derive(Default)]
struct Book {
    patches: Vec<PatchInfo>,
    issues: Vec<IssueInfo>,
    ids: Vec<(Oid, Kind)>,
    foreign: Vec<ObjectId>,
}

impl Book {
    fn note(&mut self, id: Oid, kind: Kind) {
        if !self.ids.iter().any(|(i, _)| *i == id) {
            self.ids.push((id, kind));
        }
    }
}

fn oid_of(x: impl Display) -> Oid {
    Oid::from_str(&x.to_string()).expect("oid")
}

pub(super) fn labels_of(mask: u8) -> Vec<Label> {
    ["bug", "ux", "p1"]
        .iter()
        .enumerate()
        .filter(|(i, _)| mask >> i & 1 == 1)
        .map(|(_, l)| Label::new(l).unwrap())
        .collect()
}

fn dids_of(w: &World, mask: u8) -> BTreeSet<Did> {
    w.signers
        .iter()
        .enumerate()
        .filter(|(i, _)| mask >> i & 1 == 1)
        .map(|(_, s)| Did::from(*s.public_key()))
        .collect()
}

// ---------------------------------------------------------------------------
// Resolved actions, applied through either handle
// ---------------------------------------------------------------------------

enum PAct {
    Edit(String),
    Revision(Oid, Oid, String),
    EditRevision(RevisionId, String),
    Review(RevisionId, Option<Verdict>, Option<String>, Vec<Label>),
    ReviewEdit(ReviewId, Option<Verdict>, Option<String>),
    RevComment(RevisionId, String, Option<Oid>, Vec<Embed<Uri>>),
    EditRevComment(RevisionId, Oid, String),
    ReviewComment(ReviewId, String, Option<Oid>),
    Resolve(ReviewId, Oid, bool),
    RedactRevision(RevisionId),
    RedactReview(ReviewId),
    RedactRevComment(RevisionId, Oid),
    RedactReviewComment(ReviewId, Oid),
    RevReact(RevisionId, bool),
    CommentReact(RevisionId, Oid, bool),
    Label(Vec<Label>),
    Assign(BTreeSet<Did>),
    Lifecycle(Lifecycle),
    Merge(RevisionId, Oid),
}

fn rocket() -> Reaction {
    Reaction::new('\u{1F680}').unwrap()
}

fn apply_patch<C>(
    pm: &mut PatchMut<'_, '_, Repository, C>,
    act: &PAct,
    s: &Device<MockSigner>,
) -> Result<Oid, String>
where
    C: Update<Patch>,
{
    let e = |e: patch::Error| e.to_string();
    match act {
        PAct::Edit(t) => pm.edit::<_, String>(t.clone(), MergeTarget::Delegates, s).map_err(e),
        PAct::Revision(base, oid, d) => pm.update(d, *base, *oid, s).map(oid_of).map_err(e),
        PAct::EditRevision(r, d) => pm.edit_revision(*r, d, Vec::new(), s).map_err(e),
        PAct::Review(r, v, sm, l) => pm.review(*r, *v, sm.clone(), l.clone(), s).map(oid_of).map_err(e),
        PAct::ReviewEdit(r, v, sm) => pm.review_edit(*r, *v, sm.clone(), vec![], s).map_err(e),
        PAct::RevComment(r, b, reply, em) => pm.comment(*r, b, *reply, None, em.clone(), s).map_err(e),
        PAct::EditRevComment(r, c, b) => pm.comment_edit(*r, *c, b, Vec::new(), s).map_err(e),
        PAct::ReviewComment(r, b, reply) => pm.review_comment(*r, b, None, *reply, Vec::new(), s).map_err(e),
        PAct::Resolve(r, c, true) => pm.resolve_review_comment(*r, *c, s).map_err(e),
        PAct::Resolve(r, c, false) => pm.unresolve_review_comment(*r, *c, s).map_err(e),
        PAct::RedactRevision(r) => pm.redact(*r, s).map_err(e),
        PAct::RedactReview(r) => pm.redact_review(*r, s).map_err(e),
        PAct::RedactRevComment(r, c) => pm.comment_redact(*r, *c, s).map_err(e),
        PAct::RedactReviewComment(r, c) => pm.redact_review_comment(*r, *c, s).map_err(e),
        PAct::RevReact(r, a) => pm.react(*r, rocket(), None, *a, s).map_err(e),
        PAct::CommentReact(r, c, a) => pm.comment_react(*r, *c, rocket(), *a, s).map_err(e),
        PAct::Label(l) => pm.label(l.clone(), s).map_err(e),
        PAct::Assign(a) => pm.assign(a.clone(), s).map_err(e),
        PAct::Lifecycle(l) => pm.lifecycle(l.clone(), s).map_err(e),
        PAct::Merge(r, c) => pm.merge(*r, *c, s).map(|_| Oid::from(git2::Oid::zero())).map_err(e),
    }
}

enum IAct {
    Edit(String),
    Comment(String, Oid, Vec<Embed<Uri>>),
    Redact(Oid),
    React(Oid, bool),
    Lifecycle(issue::State),
    Label(Vec<Label>),
    Assign(BTreeSet<Did>),
}

fn apply_issue<C>(
    im: &mut IssueMut<'_, '_, Repository, C>,
    act: &IAct,
    s: &Device<MockSigner>,
) -> Result<Oid, String>
where
    C: Update<Issue>,
{
    let e = |e: issue::Error| e.to_string();
    match act {
        IAct::Edit(t) => im.edit(t, s).map_err(e),
        IAct::Comment(b, reply, em) => im.comment(b, *reply, em.clone(), s).map_err(e),
        IAct::Redact(c) => im.redact_comment(*c, s).map_err(e),
        IAct::React(c, a) => im.react(*c, rocket(), *a, s).map_err(e),
        IAct::Lifecycle(st) => im.lifecycle(*st, s).map_err(e),
        IAct::Label(l) => im.label(l.clone(), s).map_err(e),
        IAct::Assign(a) => im.assign(a.clone(), s).map_err(e),
    }
}

// ---------------------------------------------------------------------------
// Environment: the two pairs of handles
// ---------------------------------------------------------------------------

type PCached<'a> = patch::Cache<patch::Patches<'a, Repository>, StoreWriter>;
type PDirect<'a> = patch::Cache<patch::Patches<'a, Repository>, radicle::cob::cache::NoCache>;
type ICached<'a> = issue::Cache<issue::Issues<'a, Repository>, StoreWriter>;
type IDirect<'a> = issue::Cache<issue::Issues<'a, Repository>, radicle::cob::cache::NoCache>;

struct Env<'a> {
    w: &'a World,
    rid: RepoId,
    db: StoreWriter,
    pc: PCached<'a>,
    pd: PDirect<'a>,
    ic: ICached<'a>,
    id: IDirect<'a>,
}

impl<'a> Env<'a> {
    fn new(w: &'a World) -> Env<'a> {
        let db = StoreWriter::memory().unwrap().with_migrations(radicle::cob::migrate::ignore).unwrap();
        Env {
            w,
            rid: w.repo.id(),
            pc: patch::Cache::open(patch::Patches::open(&w.repo).unwrap(), db.clone()),
            pd: patch::Cache::no_cache(&w.repo).unwrap(),
            ic: issue::Cache::open(issue::Issues::open(&w.repo).unwrap(), db.clone()),
            id: issue::Cache::no_cache(&w.repo).unwrap(),
            db,
        }
    }

    /// What the fetch worker does for a patch whose reference changed.
    fn sync_patch(&mut self, via: Via, id: &ObjectId) -> Result<(), String> {
        match via {
            Via::Cached => Ok(()),
            Via::FetchedWriteAll => self.pc.write_all(|_, _| ControlFlow::Continue(())).map_err(|e| e.to_string()),
            Via::FetchedWrite | Via::FetchedSync => match self.pd.get(id) {
                Ok(Some(p)) => {
                    if via == Via::FetchedWrite {
                        self.pc.write(id).map_err(|e| e.to_string())
                    } else {
                        Update::update(&mut self.pc, &self.rid, id, &p).map(|_| ()).map_err(|e| e.to_string())
                    }
                }
                _ => Remove::<Patch>::remove(&mut self.pc, id).map(|_| ()).map_err(|e| e.to_string()),
            },
        }
    }

    fn sync_issue(&mut self, via: Via, id: &ObjectId) -> Result<(), String> {
        match via {
            Via::Cached => Ok(()),
            Via::FetchedWriteAll => self.ic.write_all(|_, _| ControlFlow::Continue(())).map_err(|e| e.to_string()),
            Via::FetchedWrite | Via::FetchedSync => match self.id.get(id) {
                Ok(Some(i)) => {
                    if via == Via::FetchedWrite {
                        self.ic.write(id).map_err(|e| e.to_string())
                    } else {
                        Update::update(&mut self.ic, &self.rid, id, &i).map(|_| ()).map_err(|e| e.to_string())
                    }
                }
                _ => Remove::<Issue>::remove(&mut self.ic, id).map(|_| ()).map_err(|e| e.to_string()),
            },
        }
    }

    fn patch_act(&mut self, via: Via, id: &ObjectId, act: &PAct, who: u8) -> Result<Oid, String> {
        let s = &self.w.signers[who as usize];
        let r = if via == Via::Cached {
            match self.pc.get_mut(id) {
                Ok(mut pm) => apply_patch(&mut pm, act, s),
                Err(e) => Err(e.to_string()),
            }
        } else {
            match self.pd.get_mut(id) {
                Ok(mut pm) => apply_patch(&mut pm, act, s),
                Err(e) => Err(e.to_string()),
            }
        };
        self.sync_patch(via, id).expect("cache refresh");
        r
    }

    fn issue_act(&mut self, via: Via, id: &ObjectId, act: &IAct, who: u8) -> Result<Oid, String> {
        let s = &self.w.signers[who as usize];
        let r = if via == Via::Cached {
            match self.ic.get_mut(id) {
                Ok(mut im) => apply_issue(&mut im, act, s),
                Err(e) => Err(e.to_string()),
            }
        } else {
            match self.id.get_mut(id) {
                Ok(mut im) => apply_issue(&mut im, act, s),
                Err(e) => Err(e.to_string()),
            }
        };
        self.sync_issue(via, id).expect("cache refresh");
        r
    }
}

// ---------------------------------------------------------------------------
// Interpreter
// ---------------------------------------------------------------------------

/// Live patches according to the bookkeeping (created and not removed through this handle).
fn pick_patch(b: &Book, i: u16) -> Option<usize> {
    let live: Vec<usize> = b.patches.iter().enumerate().filter(|(_, p)| p.id.is_some()).map(|(i, _)| i).collect();
    if live.is_empty() {
        None
    } else {
        Some(live[pick(i, live.len())])
    }
}

/// The op that creates the target of `op` when the target does not exist yet.
fn prerequisite(b: &Book, op: &Op) -> Option<Op> {
    match op {
        Op::PatchCreate { .. } | Op::IssueCreate { .. } | Op::ForeignRows => None,
        Op::IssueEdit { .. }
        | Op::IssueComment { .. }
        | Op::IssueRedactComment { .. }
        | Op::IssueReact { .. }
        | Op::IssueLifecycle { .. }
        | Op::IssueLabel { .. }
        | Op::IssueAssign { .. }
        | Op::IssueRemove { .. } => {
            if b.issues.is_empty() {
                Some(Op::IssueCreate { labels: 0, assign: 0 })
            } else if let Op::IssueRedactComment { issue, .. } = op {
                let i = &b.issues[pick(*issue, b.issues.len())];
                (i.comments.len() < 2).then_some(Op::IssueComment { issue: *issue, reply: 0, embed: false })
            } else {
                None
            }
        }
        other => {
            let patch = match other {
                Op::PatchEdit { patch }
                | Op::Revision { patch, .. }
                | Op::EditRevision { patch, .. }
                | Op::Review { patch, .. }
                | Op::ReviewEdit { patch, .. }
                | Op::RevComment { patch, .. }
                | Op::EditRevComment { patch, .. }
                | Op::ReviewComment { patch, .. }
                | Op::ResolveReviewComment { patch, .. }
                | Op::RedactRevision { patch, .. }
                | Op::RedactReview { patch, .. }
                | Op::RedactRevComment { patch, .. }
                | Op::RedactReviewComment { patch, .. }
                | Op::RevReact { patch, .. }
                | Op::CommentReact { patch, .. }
                | Op::Label { patch, .. }
                | Op::Assign { patch, .. }
                | Op::Lifecycle { patch, .. }
                | Op::Merge { patch, .. }
                | Op::PatchRemove { patch } => *patch,
                _ => unreachable!(),
            };
            match pick_patch(b, patch) {
                None => Some(Op::PatchCreate { draft: false, labels: 0, branch: 0 }),
                Some(p) => {
                    let p = &b.patches[p];
                    match other {
                        Op::RedactRevision { .. } if p.revs.len() < 2 => Some(Op::Revision { patch, branch: 1 }),
                        Op::ReviewEdit { .. } | Op::ReviewComment { .. } | Op::RedactReview { .. }
                            if p.reviews.is_empty() =>
                        {
                            Some(Op::Review { patch, rev: u16::MAX, verdict: 1, summary: true, label: false })
                        }
                        Op::EditRevComment { .. } | Op::RedactRevComment { .. } | Op::CommentReact { .. }
                            if p.rev_comments.is_empty() =>
                        {
                            Some(Op::RevComment { patch, rev: u16::MAX, reply: None, embed: false })
                        }
                        Op::ResolveReviewComment { .. } | Op::RedactReviewComment { .. }
                            if p.review_comments.is_empty() =>
                        {
                            Some(Op::ReviewComment { patch, review: u16::MAX, reply: None })
                        }
                        _ => None,
                    }
                }
            }
        }
    }
}

/// Perform one operation (whose target exists) through the chosen route.
fn execute(ctx: &Ctx, env: &mut Env, b: &mut Book, n: usize, tag: &str, who: u8, via: Via, mut op: Op) {
    let w = env.w;
    let who = who.min(2);
    // Caps.
    if matches!(op, Op::PatchCreate { .. }) && b.patches.len() >= MAX_PATCHES {
        op = Op::Revision { patch: (n as u16).wrapping_mul(9973), branch: (n % 4) as u8 };
        if pick_patch(b, 0).is_none() {
            ctx.count("op-skipped:patch-cap-and-none-live");
            return;
        }
    }
    if matches!(op, Op::IssueCreate { .. }) && b.issues.len() >= MAX_ISSUES {
        op = Op::IssueComment { issue: (n as u16).wrapping_mul(9973), reply: 0, embed: false };
    }

    let route = match via {
        Via::Cached => "cached",
        Via::FetchedWrite => "fetched+write",
        Via::FetchedSync => "fetched+update-or-remove",
        Via::FetchedWriteAll => "fetched+write_all",
    };
    ctx.count(&format!("route:{route}"));
    let s = &w.signers[who as usize];

    let name;
    let result: Result<(), String> = match op {
        Op::PatchCreate { draft, labels, branch } => {
            name = if draft { "patch-draft" } else { "patch-create" };
            let (base, head) = w.branches[branch as usize % w.branches.len()];
            let title = format!("patch {tag}");
            let labels = labels_of(labels);
            let d = "description".to_string();
            let t = MergeTarget::Delegates;
            let r = match (via == Via::Cached, draft) {
                (true, false) => env.pc.create(title, d, t, base, head, &labels, s).map(|pm| pm.id).map_err(|e| e.to_string()),
                (true, true) => env.pc.draft(title, d, t, base, head, &labels, s).map(|pm| pm.id).map_err(|e| e.to_string()),
                (false, false) => env.pd.create(title, d, t, base, head, &labels, s).map(|pm| pm.id).map_err(|e| e.to_string()),
                (false, true) => env.pd.draft(title, d, t, base, head, &labels, s).map(|pm| pm.id).map_err(|e| e.to_string()),
            };
            match r {
                Ok(id) => {
                    env.sync_patch(via, &id).expect("cache refresh");
                    let ix = b.patches.len();
                    b.patches.push(PatchInfo { id: Some(id), revs: vec![RevisionId::from(*id)], ..Default::default() });
                    b.note(*id, Kind::Patch(ix));
                    Ok(())
                }
                Err(e) => Err(e),
            }
        }
        Op::IssueCreate { labels, assign } => {
            name = "issue-create";
            let title = format!("issue {tag}");
            let labels = labels_of(labels);
            let assignees: Vec<Did> = dids_of(w, assign).into_iter().collect();
            let r = if via == Via::Cached {
                env.ic
                    .create(title, "what is wrong", &labels, &assignees, Vec::new(), s)
                    .map(|im| *im.id())
                    .map_err(|e| e.to_string())
            } else {
                env.id
                    .create(title, "what is wrong", &labels, &assignees, Vec::new(), s)
                    .map(|im| *im.id())
                    .map_err(|e| e.to_string())
            };
            match r {
                Ok(id) => {
                    env.sync_issue(via, &id).expect("cache refresh");
                    b.issues.push(IssueInfo { id, comments: vec![*id] });
                    b.note(*id, Kind::IssueId);
                    Ok(())
                }
                Err(e) => Err(e),
            }
        }
        Op::ForeignRows => {
            name = "foreign-rows";
            // Another repository's objects in the same database file (ids are unique across repositories).
            let other = RepoId::from(w.merge_commits[0]);
            let mut db = env.db.clone();
            let k = b.foreign.len() as u8;
            if let Some(p) = b.patches.iter().filter_map(|p| p.id).next() {
                if let Ok(Some(obj)) = env.pd.get(&p) {
                    let mut bytes = [0xF0u8; 20];
                    bytes[1] = k;
                    let fid = ObjectId::from(Oid::try_from(&bytes[..]).unwrap());
                    Update::<Patch>::update(&mut db, &other, &fid, &obj).unwrap();
                    b.foreign.push(fid);
                }
            }
            if let Some(i) = b.issues.first() {
                if let Ok(Some(obj)) = env.id.get(&i.id) {
                    let mut bytes = [0xF1u8; 20];
                    bytes[1] = k;
                    let fid = ObjectId::from(Oid::try_from(&bytes[..]).unwrap());
                    Update::<Issue>::update(&mut db, &other, &fid, &obj).unwrap();
                    b.foreign.push(fid);
                }
            }
            Ok(())
        }
        Op::PatchRemove { patch } => {
            name = "patch-remove";
            let p = pick_patch(b, patch).unwrap();
            let id = b.patches[p].id.unwrap();
            let r = if via == Via::Cached {
                env.pc.remove(&id, s).map_err(|e| e.to_string())
            } else {
                env.pd.remove(&id, s).map_err(|e| e.to_string())
            };
            env.sync_patch(via, &id).expect("cache refresh");
            // Only this author's reference is gone; the object survives if others contributed.
            if let Ok(None) = env.pd.get(&id) {
                b.patches[p].id = None;
                ctx.count("patch-removed-entirely");
            } else {
                ctx.count("patch-removed-own-ref-only");
            }
            r
        }
        Op::IssueRemove { issue } => {
            name = "issue-remove";
            let i = pick(issue, b.issues.len());
            let id = b.issues[i].id;
            let r = if via == Via::Cached {
                env.ic.remove(&id, s).map_err(|e| e.to_string())
            } else {
                env.id.remove(&id, s).map_err(|e| e.to_string())
            };
            env.sync_issue(via, &id).expect("cache refresh");
            if let Ok(None) = env.id.get(&id) {
                ctx.count("issue-removed-entirely");
            } else {
                ctx.count("issue-removed-own-ref-only");
            }
            r
        }
        Op::IssueEdit { .. }
        | Op::IssueComment { .. }
        | Op::IssueRedactComment { .. }
        | Op::IssueReact { .. }
        | Op::IssueLifecycle { .. }
        | Op::IssueLabel { .. }
        | Op::IssueAssign { .. } => {
            let (ix, act, nm) = match op {
                Op::IssueEdit { issue } => (issue, IAct::Edit(format!("retitled {tag}")), "issue-edit"),
                Op::IssueComment { issue, reply, embed } => {
                    let i = &b.issues[pick(issue, b.issues.len())];
                    let to = i.comments[pick(reply, i.comments.len())];
                    let em = if embed { vec![w.embed.clone()] } else { vec![] };
                    (issue, IAct::Comment(format!("comment {tag}"), to, em), "issue-comment")
                }
                Op::IssueRedactComment { issue, comment } => {
                    let i = &b.issues[pick(issue, b.issues.len())];
                    // mostly non-root comments
                    let c = i.comments[1 + pick(comment, i.comments.len() - 1)];
                    (issue, IAct::Redact(c), "issue-comment-redact")
                }
                Op::IssueReact { issue, comment, active } => {
                    let i = &b.issues[pick(issue, b.issues.len())];
                    (issue, IAct::React(i.comments[pick(comment, i.comments.len())], active), "issue-react")
                }
                Op::IssueLifecycle { issue, state } => {
                    let st = match state {
                        0 => issue::State::Open,
                        1 => issue::State::Closed { reason: CloseReason::Solved },
                        _ => issue::State::Closed { reason: CloseReason::Other },
                    };
                    (issue, IAct::Lifecycle(st), ["issue-open", "issue-close-solved", "issue-close-other"][state.min(2) as usize])
                }
                Op::IssueLabel { issue, labels } => (issue, IAct::Label(labels_of(labels)), "issue-label"),
                Op::IssueAssign { issue, who } => (issue, IAct::Assign(dids_of(w, who)), "issue-assign"),
                _ => unreachable!(),
            };
            name = nm;
            let i = pick(ix, b.issues.len());
            let id = b.issues[i].id;
            match env.issue_act(via, &id, &act, who) {
                Ok(entry) => {
                    if let IAct::Comment(..) = act {
                        b.issues[i].comments.push(entry);
                        b.note(entry, Kind::IssueComment);
                    } else {
                        b.note(entry, Kind::Entry);
                    }
                    Ok(())
                }
                Err(e) => Err(e),
            }
        }
        patch_op => {
            let (pix, act, nm): (u16, PAct, &'static str) = {
                let bk: &Book = &*b;
                let pi = |patch: u16| &bk.patches[pick_patch(bk, patch).unwrap()];
                // `u16::MAX` picks the latest.
                let rev_of = |p: &PatchInfo, r: u16| p.revs[pick(r, p.revs.len())];
                match patch_op {
                    Op::PatchEdit { patch } => (patch, PAct::Edit(format!("retitled {tag}")), "patch-edit"),
                    Op::Revision { patch, branch } => {
                        let (base, head) = w.branches[branch as usize % w.branches.len()];
                        (patch, PAct::Revision(base, head, format!("revision {tag}")), "revision")
                    }
                    Op::EditRevision { patch, rev } => {
                        (patch, PAct::EditRevision(rev_of(pi(patch), rev), format!("edited {tag}")), "revision-edit")
                    }
                    Op::Review { patch, rev, verdict, summary, label } => {
                        let v = match verdict {
                            0 => None,
                            1 => Some(Verdict::Accept),
                            _ => Some(Verdict::Reject),
                        };
                        let sm = (summary || v.is_none()).then(|| format!("review {tag}"));
                        let l = if label { labels_of(1) } else { vec![] };
                        let nm = ["review-no-verdict", "review-accept", "review-reject"][verdict.min(2) as usize];
                        (patch, PAct::Review(rev_of(pi(patch), rev), v, sm, l), nm)
                    }
                    Op::ReviewEdit { patch, review, verdict } => {
                        let p = pi(patch);
                        let v = match verdict {
                            0 => None,
                            1 => Some(Verdict::Accept),
                            _ => Some(Verdict::Reject),
                        };
                        let r = p.reviews[pick(review, p.reviews.len())];
                        (patch, PAct::ReviewEdit(r, v, Some(format!("edited {tag}"))), "review-edit")
                    }
                    Op::RevComment { patch, rev, reply, embed } => {
                        let p = pi(patch);
                        let r = rev_of(p, rev);
                        let on_r: Vec<Oid> = p.rev_comments.iter().filter(|(x, _)| *x == r).map(|(_, c)| *c).collect();
                        let reply = match reply {
                            Some(i) if !on_r.is_empty() => Some(on_r[pick(i, on_r.len())]),
                            _ => None,
                        };
                        let em = if embed { vec![w.embed.clone()] } else { vec![] };
                        (patch, PAct::RevComment(r, format!("comment {tag}"), reply, em), "revision-comment")
                    }
                    Op::EditRevComment { patch, comment } => {
                        let p = pi(patch);
                        let (r, c) = p.rev_comments[pick(comment, p.rev_comments.len())];
                        (patch, PAct::EditRevComment(r, c, format!("edited {tag}")), "revision-comment-edit")
                    }
                    Op::ReviewComment { patch, review, reply } => {
                        let p = pi(patch);
                        let r = p.reviews[pick(review, p.reviews.len())];
                        let on_r: Vec<Oid> = p.review_comments.iter().filter(|(x, _)| *x == r).map(|(_, c)| *c).collect();
                        let reply = match reply {
                            Some(i) if !on_r.is_empty() => Some(on_r[pick(i, on_r.len())]),
                            _ => None,
                        };
                        (patch, PAct::ReviewComment(r, format!("review comment {tag}"), reply), "review-comment")
                    }
                    Op::ResolveReviewComment { patch, comment, resolve } => {
                        let p = pi(patch);
                        let (r, c) = p.review_comments[pick(comment, p.review_comments.len())];
                        (patch, PAct::Resolve(r, c, resolve), "review-comment-resolve")
                    }
                    Op::RedactRevision { patch, rev } => {
                        let p = pi(patch);
                        // non-root revisions (the root cannot be redacted)
                        let r = p.revs[1 + pick(rev, p.revs.len() - 1)];
                        (patch, PAct::RedactRevision(r), "revision-redact")
                    }
                    Op::RedactReview { patch, review } => {
                        let p = pi(patch);
                        (patch, PAct::RedactReview(p.reviews[pick(review, p.reviews.len())]), "review-redact")
                    }
                    Op::RedactRevComment { patch, comment } => {
                        let p = pi(patch);
                        let (r, c) = p.rev_comments[pick(comment, p.rev_comments.len())];
                        (patch, PAct::RedactRevComment(r, c), "revision-comment-redact")
                    }
                    Op::RedactReviewComment { patch, comment } => {
                        let p = pi(patch);
                        let (r, c) = p.review_comments[pick(comment, p.review_comments.len())];
                        (patch, PAct::RedactReviewComment(r, c), "review-comment-redact")
                    }
                    Op::RevReact { patch, rev, active } => {
                        (patch, PAct::RevReact(rev_of(pi(patch), rev), active), if active { "revision-react" } else { "revision-unreact" })
                    }
                    Op::CommentReact { patch, comment, active } => {
                        let p = pi(patch);
                        let (r, c) = p.rev_comments[pick(comment, p.rev_comments.len())];
                        (patch, PAct::CommentReact(r, c, active), "comment-react")
                    }
                    Op::Label { patch, labels } => (patch, PAct::Label(labels_of(labels)), "patch-label"),
                    Op::Assign { patch, who } => (patch, PAct::Assign(dids_of(w, who)), "patch-assign"),
                    Op::Lifecycle { patch, state } => {
                        let l = match state {
                            0 => Lifecycle::Open,
                            1 => Lifecycle::Draft,
                            _ => Lifecycle::Archived,
                        };
                        (patch, PAct::Lifecycle(l), ["lifecycle-open", "lifecycle-draft", "lifecycle-archived"][state.min(2) as usize])
                    }
                    Op::Merge { patch, rev, commit } => {
                        let c = commit as usize % w.merge_commits.len();
                        (
                            patch,
                            PAct::Merge(rev_of(pi(patch), rev), w.merge_commits[c]),
                            if c < 2 { "merge-commit-in-default-branch" } else { "merge-commit-elsewhere" },
                        )
                    }
                    _ => unreachable!(),
                }
            };
            name = nm;
            let p = pick_patch(b, pix).unwrap();
            let id = b.patches[p].id.unwrap();
            match env.patch_act(via, &id, &act, who) {
                Ok(entry) => {
                    match act {
                        PAct::Revision(..) => {
                            b.patches[p].revs.push(RevisionId::from(entry));
                            b.note(entry, Kind::Revision(p));
                        }
                        PAct::Review(..) => {
                            b.patches[p].reviews.push(ReviewId::from(entry));
                            b.note(entry, Kind::Review);
                        }
                        PAct::RevComment(r, ..) => {
                            b.patches[p].rev_comments.push((r, entry));
                            b.note(entry, Kind::RevComment);
                        }
                        PAct::ReviewComment(r, ..) => {
                            b.patches[p].review_comments.push((r, entry));
                            b.note(entry, Kind::ReviewComment);
                        }
                        PAct::Merge(..) => {}
                        _ => b.note(entry, Kind::Entry),
                    }
                    Ok(())
                }
                Err(e) => Err(e),
            }
        }
    };
    ctx.count(&format!("op:{name}"));
    match result {
        Ok(()) => ctx.count(if who == 2 { "op-accepted:non-delegate" } else { "op-accepted:delegate" }),
        Err(_) => {
            ctx.count(&format!("op-rejected:{name}"));
            ctx.count(if who == 2 { "op-rejected:non-delegate" } else { "op-rejected:delegate" });
        }
    }
}

// ---------------------------------------------------------------------------
// Comparison
// ---------------------------------------------------------------------------

/// Outcome of one query on one handle.
enum Out<T> {
    Val(T),
    Err(String),
    Panic(String),
}

impl<T> Out<T> {
    fn of<E: Display>(f: impl FnOnce() -> Result<T, E>) -> Out<T> {
        match catch(f) {
            Ok(Ok(v)) => Out::Val(v),
            Ok(Err(e)) => Out::Err(e.to_string()),
            Err((loc, msg)) => Out::Panic(format!("{loc}: {msg}")),
        }
    }
    fn shape(&self, some: impl Fn(&T) -> &'static str) -> &'static str {
        match self {
            Out::Val(v) => some(v),
            Out::Err(_) => "err",
            Out::Panic(_) => "panic",
        }
    }
    fn detail(&self) -> String {
        match self {
            Out::Val(_) => String::new(),
            Out::Err(e) => format!(" ({e})"),
            Out::Panic(e) => format!(" ({e})"),
        }
    }
}

fn opt_shape<T>(o: &Option<T>) -> &'static str {
    if o.is_some() {
        "some"
    } else {
        "none"
    }
}

/// Patch equality up to the order of `State::Open { conflicts }` (direct evaluation collects the
/// conflicts from a `HashMap`, so two evaluations of the same history may order them differently).
pub(super) fn patch_eq(ctx: &Ctx, a: &Patch, b: &Patch) -> bool {
    if a == b {
        return true;
    }
    if let (patch::State::Open { conflicts: ca }, patch::State::Open { conflicts: cb }) = (a.state(), b.state()) {
        let (mut sa, mut sb) = (ca.clone(), cb.clone());
        sa.sort();
        sb.sort();
        if ca != cb && sa == sb {
            let strip = |p: &Patch| format!("{p:?}").replacen(&format!("state: {:?}", p.state()), "state: _", 1);
            if strip(a) == strip(b) {
                ctx.count("equal-up-to-conflicts-order");
                return true;
            }
        }
    }
    false
}

fn cmp_opt<T>(
    what: &str,
    c: Out<Option<T>>,
    d: Out<Option<T>>,
    eq: impl Fn(&T, &T) -> bool,
    show: impl Fn(&T) -> String,
) -> CaseResult {
    let (sc, sd) = (c.shape(opt_shape), d.shape(opt_shape));
    if sc == "err" && sd == "err" {
        return Ok(());
    }
    ensure!(
        sc == sd,
        format!("{what}:cached={sc},direct={sd}"),
        "{what}: cached handle answered {sc}{}, direct evaluation {sd}{}",
        c.detail(),
        d.detail()
    );
    if let (Out::Val(Some(x)), Out::Val(Some(y))) = (&c, &d) {
        ensure!(eq(x, y), format!("{what}:object-differs"), "{what}: cached {} != direct {}", show(x), show(y));
    }
    Ok(())
}

type PMap = BTreeMap<ObjectId, Patch>;
type IMap = BTreeMap<ObjectId, Issue>;

/// Collect a listing into a map; duplicates are reported through the flag.
fn collect<T, E: Display>(
    it: Result<impl Iterator<Item = Result<(ObjectId, T), E>>, E>,
) -> Result<(BTreeMap<ObjectId, T>, bool), String> {
    let mut m = BTreeMap::new();
    let mut dup = false;
    for x in it.map_err(|e| e.to_string())? {
        let (id, o) = x.map_err(|e| e.to_string())?;
        dup |= m.insert(id, o).is_some();
    }
    Ok((m, dup))
}

fn cmp_list<T: std::fmt::Debug>(
    what: &str,
    c: Out<(BTreeMap<ObjectId, T>, bool)>,
    d: Out<(BTreeMap<ObjectId, T>, bool)>,
    eq: impl Fn(&T, &T) -> bool,
) -> CaseResult {
    let sh = |_: &(BTreeMap<ObjectId, T>, bool)| "ok";
    let (sc, sd) = (c.shape(sh), d.shape(sh));
    if sc == "err" && sd == "err" {
        return Ok(());
    }
    ensure!(
        sc == sd,
        format!("{what}:cached={sc},direct={sd}"),
        "{what}: cached {sc}{}, direct {sd}{}",
        c.detail(),
        d.detail()
    );
    if let (Out::Val((mc, dc)), Out::Val((md, dd))) = (&c, &d) {
        ensure!(!dc && !dd, format!("{what}:duplicate-id"), "{what}: an id is listed twice (cached: {dc}, direct: {dd})");
        let (kc, kd): (Vec<_>, Vec<_>) = (mc.keys().collect(), md.keys().collect());
        ensure!(
            kc == kd,
            format!("{what}:id-set-differs"),
            "{what}: cached lists {:?}, direct evaluation lists {:?}",
            kc.iter().map(|k| k.to_string()).collect::<Vec<_>>(),
            kd.iter().map(|k| k.to_string()).collect::<Vec<_>>()
        );
        for (k, x) in mc {
            ensure!(eq(x, &md[k]), format!("{what}:object-differs"), "{what}: {k}: cached {x:?} != direct {:?}", md[k]);
        }
    }
    Ok(())
}

struct Seen {
    statuses: BTreeSet<String>,
    objects: usize,
    asked_nested: bool,
}

fn compare(ctx: &Ctx, env: &Env, b: &Book, probe: Oid) -> Result<Seen, Fail> {
    let peq = |a: &Patch, b: &Patch| patch_eq(ctx, a, b);
    let ieq = |a: &Issue, b: &Issue| a == b;

    // --- listings -----------------------------------------------------------
    let direct_patches: PMap = match Out::of(|| collect(env.pd.list())) {
        Out::Val((m, _)) => m,
        _ => PMap::new(),
    };
    let direct_issues: IMap = match Out::of(|| collect(env.id.list())) {
        Out::Val((m, _)) => m,
        _ => IMap::new(),
    };
    cmp_list("patch.list", Out::of(|| collect(env.pc.list())), Out::of(|| collect(env.pd.list())), peq)?;
    for st in [Status::Draft, Status::Open, Status::Archived, Status::Merged] {
        cmp_list(
            &format!("patch.list_by_status[{st}]"),
            Out::of(|| collect(env.pc.list_by_status(&st))),
            Out::of(|| collect(env.pd.list_by_status(&st))),
            peq,
        )?;
    }
    cmp_list("issue.list", Out::of(|| collect(env.ic.list())), Out::of(|| collect(env.id.list())), ieq)?;
    for (nm, st) in [
        ("open", issue::State::Open),
        ("closed-solved", issue::State::Closed { reason: CloseReason::Solved }),
        ("closed-other", issue::State::Closed { reason: CloseReason::Other }),
    ] {
        cmp_list(
            &format!("issue.list_by_status[{nm}]"),
            Out::of(|| collect(env.ic.list_by_status(&st))),
            Out::of(|| collect(env.id.list_by_status(&st))),
            ieq,
        )?;
    }

    // --- counts, is_empty ---------------------------------------------------
    {
        let c = Out::of(|| env.pc.counts());
        let d = Out::of(|| env.pd.counts());
        let sh = |_: &patch::PatchCounts| "ok";
        ensure!(
            c.shape(sh) == d.shape(sh),
            format!("patch.counts:cached={},direct={}", c.shape(sh), d.shape(sh)),
            "patch.counts: cached {}{} direct {}{}",
            c.shape(sh),
            c.detail(),
            d.shape(sh),
            d.detail()
        );
        if let (Out::Val(x), Out::Val(y)) = (&c, &d) {
            ensure!(x == y, "patch.counts:differs", "patch.counts: cached {x:?} != direct {y:?}");
        }
        let c = Out::of(|| env.ic.counts());
        let d = Out::of(|| env.id.counts());
        let sh = |_: &issue::IssueCounts| "ok";
        ensure!(
            c.shape(sh) == d.shape(sh),
            format!("issue.counts:cached={},direct={}", c.shape(sh), d.shape(sh)),
            "issue.counts: cached {}{} direct {}{}",
            c.shape(sh),
            c.detail(),
            d.shape(sh),
            d.detail()
        );
        if let (Out::Val(x), Out::Val(y)) = (&c, &d) {
            ensure!(x == y, "issue.counts:differs", "issue.counts: cached {x:?} != direct {y:?}");
        }
        let sh = |b: &bool| if *b { "true" } else { "false" };
        let (c, d) = (Out::of(|| env.pc.is_empty()), Out::of(|| env.pd.is_empty()));
        ensure!(
            c.shape(sh) == d.shape(sh),
            "patch.is_empty:differs",
            "patch.is_empty: cached {}{} direct {}{}",
            c.shape(sh),
            c.detail(),
            d.shape(sh),
            d.detail()
        );
        let (c, d) = (Out::of(|| env.ic.is_empty()), Out::of(|| env.id.is_empty()));
        ensure!(
            c.shape(sh) == d.shape(sh),
            "issue.is_empty:differs",
            "issue.is_empty: cached {}{} direct {}{}",
            c.shape(sh),
            c.detail(),
            d.shape(sh),
            d.detail()
        );
    }

    // --- classification of ids (from the direct objects) ----------------------
    let live_revs: BTreeSet<Oid> =
        direct_patches.values().flat_map(|p| p.revisions().map(|(id, _)| oid_of(id))).collect();
    let class = |id: &Oid, k: &Kind| -> &'static str {
        match k {
            Kind::Patch(p) => {
                if b.patches[*p].id.is_some_and(|i| direct_patches.contains_key(&i)) {
                    "patch-id"
                } else {
                    "removed-patch-id"
                }
            }
            Kind::Revision(p) => {
                if live_revs.contains(id) {
                    "live-revision"
                } else if b.patches[*p].id.is_some_and(|i| direct_patches.contains_key(&i)) {
                    "redacted-revision"
                } else {
                    "revision-of-removed-patch"
                }
            }
            Kind::RevComment => "revision-comment-id",
            Kind::Review => "review-id",
            Kind::ReviewComment => "review-comment-id",
            Kind::IssueId => "issue-id",
            Kind::IssueComment => "issue-comment-id",
            Kind::Entry => "other-entry-id",
        }
    };

    // --- get ------------------------------------------------------------------
    let mut get_ids: Vec<(Oid, &'static str)> = b
        .ids
        .iter()
        .filter(|(_, k)| matches!(k, Kind::Patch(_) | Kind::IssueId))
        .map(|(i, k)| (*i, class(i, k)))
        .collect();
    if let Some((i, k)) = b.ids.iter().find(|(_, k)| matches!(k, Kind::Revision(_))) {
        get_ids.push((*i, class(i, k)));
    }
    if let Some((i, k)) = b.ids.iter().find(|(_, k)| matches!(k, Kind::RevComment | Kind::IssueComment)) {
        get_ids.push((*i, class(i, k)));
    }
    for f in &b.foreign {
        get_ids.push((**f, "foreign-repo-object-id"));
    }
    get_ids.push((probe, "unknown-id"));
    for (id, cl) in &get_ids {
        let oid = ObjectId::from(*id);
        ctx.count(&format!("get-asked:{cl}"));
        cmp_opt(
            &format!("patch.get[{cl}]"),
            Out::of(|| env.pc.get(&oid)),
            Out::of(|| env.pd.get(&oid)),
            peq,
            |p| format!("{p:?}"),
        )?;
        cmp_opt(
            &format!("issue.get[{cl}]"),
            Out::of(|| env.ic.get(&oid)),
            Out::of(|| env.id.get(&oid)),
            ieq,
            |p| format!("{p:?}"),
        )?;
    }

    // --- find_by_revision -----------------------------------------------------
    let mut asked_nested = false;
    // Every id that ever named a patch, revision, review, comment or issue; of the ids of other
    // operations (label, lifecycle, redaction, ... entries) only the two most recent ones.
    let recent_entries: Vec<Oid> =
        b.ids.iter().rev().filter(|(_, k)| *k == Kind::Entry).take(2).map(|(i, _)| *i).collect();
    let mut find_ids: Vec<(Oid, &'static str)> = b
        .ids
        .iter()
        .filter(|(i, k)| *k != Kind::Entry || recent_entries.contains(i))
        .map(|(i, k)| (*i, class(i, k)))
        .collect();
    for f in &b.foreign {
        find_ids.push((**f, "foreign-repo-object-id"));
    }
    find_ids.push((probe, "unknown-id"));
    for (id, cl) in &find_ids {
        let rid = RevisionId::from(*id);
        ctx.count(&format!("find_by_revision-asked:{cl}"));
        if matches!(*cl, "redacted-revision" | "revision-comment-id" | "review-id" | "review-comment-id") {
            asked_nested = true;
        }
        let beq = |x: &ByRevision, y: &ByRevision| {
            x.id == y.id && x.revision_id == y.revision_id && x.revision == y.revision && peq(&x.patch, &y.patch)
        };
        let c = Out::of(|| env.pc.find_by_revision(&rid));
        let d = Out::of(|| env.pd.find_by_revision(&rid));
        if let Out::Val(v) = &d {
            ctx.count(if v.is_some() { "find_by_revision-direct:some" } else { "find_by_revision-direct:none" });
        }
        cmp_opt(&format!("patch.find_by_revision[{cl}]"), c, d, beq, |p| {
            format!("{{patch {} revision {:?}}}", p.id, p.revision)
        })?;
    }

    let mut statuses = BTreeSet::new();
    for p in direct_patches.values() {
        statuses.insert(format!("patch:{}", Status::from(p.state())));
    }
    for i in direct_issues.values() {
        statuses.insert(format!("issue:{:?}", i.state()));
    }
    Ok(Seen { statuses, objects: direct_patches.len() + direct_issues.len(), asked_nested })
}

// ---------------------------------------------------------------------------
// Case
// ---------------------------------------------------------------------------

fn check(ctx: &Ctx, c: &Case) -> CaseResult {
    ctx.sample("history", c);
    let threshold = c.threshold.clamp(1, 2);
    ctx.count(&format!("threshold:{threshold}"));
    ctx.count(&format!("steps:{:02}", c.steps.len().min(12)));
    let w = world(threshold);
    let mut env = Env::new(&w);
    let mut book = Book::default();
    let probe = Oid::try_from(&c.probe[..]).unwrap();
    let mut clock = T0 + 10;

    // The empty store is compared as well.
    compare(ctx, &env, &book, probe)?;
    let mut nontrivial = false;
    let mut all_statuses = BTreeSet::new();
    let mut executed = 0usize;
    'steps: for (n, st) in c.steps.iter().take(12).enumerate() {
        clock += st.dt as u64;
        set_clock(clock);
        // The op of the step, preceded by the ops that create its target when there is none
        // (same author, same route); every executed op is followed by a full comparison.
        let mut stack = vec![st.op.clone()];
        let mut inserted = 0;
        while let Some(op) = stack.last().cloned() {
            if executed >= MAX_OPS {
                ctx.count("op-budget-exhausted");
                break 'steps;
            }
            if let Some(pre) = prerequisite(&book, &op) {
                if inserted < 4 {
                    inserted += 1;
                    ctx.count("prerequisite-op-inserted");
                    stack.push(pre);
                    continue;
                }
                ctx.count("step-abandoned:target-could-not-be-created");
                break;
            }
            stack.pop();
            executed += 1;
            execute(ctx, &mut env, &mut book, n, &format!("s{n}.{executed}"), st.who, st.via, op);
            let seen = compare(ctx, &env, &book, probe)?;
            if seen.objects >= 2 && seen.statuses.len() >= 2 && seen.asked_nested {
                nontrivial = true;
            }
            all_statuses.extend(seen.statuses);
        }
    }
    ctx.count(&format!("ops-executed:{:02}", executed));
    for s in &all_statuses {
        ctx.count(&format!("case-reached-status:{s}"));
    }
    ctx.count(&format!("patches-created:{}", book.patches.len()));
    ctx.count(&format!("issues-created:{}", book.issues.len()));
    if nontrivial {
        ctx.count("nontrivial");
        ctx.nontrivial(c);
    } else {
        ctx.count("trivial");
    }
    Ok(())
}

fn run(ctx: &Ctx) {
    ctx.run("history", case_strategy(), ctx.cases(240, 1_600), |c: &Case| check(ctx, c));
    super::c09b::run(ctx);
}
