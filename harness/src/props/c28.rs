//! C28 — Storage cleanup never deletes the local or delegate namespaces.
//!
//! A real `radicle::Storage` in a temp dir holds one repository whose identity
//! has 1..3 delegates (optionally changed afterwards by an accepted identity
//! revision that adds or removes a delegate). The local node is one of the
//! delegates or an outsider; up to four further peers have namespaces. Every
//! namespace is generated with or without `rad/sigrefs`, with branches, tags,
//! COB-like refs, refs created after signing and refs that do not peel to a
//! commit. Then `Storage::clean(rid)` runs and the complete ref listing before
//! and after is compared:
//!
//! * the repository may disappear only if the local node had no `rad/sigrefs`;
//! * if it is still there, every ref that vanished or changed lives in a
//!   namespace of a peer that is neither the local node nor a current
//!   delegate; everything else (local, delegates, non-namespaced refs) is
//!   untouched.
use std::collections::{BTreeMap, BTreeSet};
use std::path::Path;

use proptest::prelude::*;
use radicle::cob::identity::Identity;
use radicle::crypto::PublicKey;
use radicle::git::raw as git2;
use radicle::identity::doc::RawDoc;
use radicle::identity::project::Project;
use radicle::identity::{Did, Visibility};
use radicle::node::device::Device;
use radicle::node::Alias;
use radicle::storage::git::{Repository, Storage};
use radicle::storage::{ReadRepository, ReadStorage, SignRepository, WriteRepository, WriteStorage};
use radicle_crypto::test::signer::MockSigner;
use serde::{Deserialize, Serialize};

use crate::core::*;
use crate::ensure;

pub const PROP: Prop = Prop {
    id: "C28",
    shards: (4, 16),
    level: "exploration",
    rule: "A case is: 1..3 initial delegates with a threshold, an optional accepted identity revision that adds a \
           further peer as delegate or removes a delegate, the local node's role (one of the delegates or an \
           outsider), 0..4 further peers, and for every peer a namespace description (signed refs present or \
           not, 0..3 branches, tag, COB-like ref, refs added after signing, a ref that does not peel to a commit). \
           Non-trivial: before cleaning there was at least one protected namespace (local or current delegate) \
           with refs AND the call removed something (>= 1 ref of another peer, or the whole repository). \
           Distinct = hash of the whole case.",
    assumptions: &[
        "'has signed refs' means the namespace has a valid `refs/rad/sigrefs` branch (written by sign_refs)",
        "'delegate' means a delegate of the repository's current (canonical, accepted) identity document",
        "the statement is one-directional: namespaces that survive although they could be removed, and a \
         repository that is kept although the local node has no signed refs, are counted, not failed",
        "no concurrent writers; the repository is well-formed (created through Repository::init, sign_refs and \
         Identity::update/accept plus plain git refs)",
    ],
    run,
    budget_s: (900, 7200),
};

#[derive(Debug, Clone, Default, Serialize, Deserialize, Hash, PartialEq, Eq)]
pub struct Ns {
    /// sign the namespace (creates `rad/sigrefs`)
    sigrefs: bool,
    /// number of `refs/heads/*` refs (0..=3)
    heads: u8,
    tag: bool,
    cob: bool,
    /// refs added after signing (not covered by the signed refs): a branch
    unsigned_after: bool,
    /// a ref that points at a blob (cannot be peeled to a commit), added after signing
    odd: bool,
}

#[derive(Debug, Clone, Serialize, Deserialize, Hash, PartialEq, Eq)]
pub enum IdChange {
    None,
    /// promote `others[i]` (index clamped) to delegate
    AddOther(u8),
    /// promote the outsider local node to delegate (no-op when the local node is a delegate already)
    AddLocal,
    /// remove delegate `i` (index clamped to 1..n, never the creator; no-op with one delegate)
    Remove(u8),
}

#[derive(Debug, Clone, Serialize, Deserialize, Hash, PartialEq, Eq)]
pub struct Case {
    /// varies the keys (and so the order of namespaces)
    salt: u8,
    /// initial delegates: namespace descriptions, 1..=3 entries; delegate 0 creates the identity
    delegates: Vec<Ns>,
    threshold: u8,
    /// `Some(i)`: the local node is initial delegate `i` (clamped); `None`: an outsider
    local_delegate: Option<u8>,
    /// namespace of the local node when it is an outsider
    local_ns: Ns,
    others: Vec<Ns>,
    change: IdChange,
}

fn device(salt: u8, role: u8, idx: u8) -> Device<MockSigner> {
    let mut seed = [0u8; 32];
    seed[0] = salt;
    seed[1] = role;
    seed[2] = idx;
    seed[31] = 0x5a;
    Device::mock_from_seed(seed)
}

fn namespace_of(name: &str) -> Option<&str> {
    let rest = name.strip_prefix("refs/namespaces/")?;
    rest.split('/').next()
}

type Snapshot = BTreeMap<String, String>;

fn snapshot(path: &Path) -> Option<Snapshot> {
    if !path.exists() {
        return None;
    }
    let repo = git2::Repository::open_bare(path).ok()?;
    let mut out = BTreeMap::new();
    for r in repo.references().expect("references") {
        let r = r.expect("reference");
        let name = r.name().expect("utf-8 ref name").to_string();
        let target = match (r.target(), r.symbolic_target()) {
            (Some(oid), _) => oid.to_string(),
            (None, Some(s)) => format!("-> {s}"),
            (None, None) => "?".to_string(),
        };
        out.insert(name, target);
    }
    Some(out)
}

struct Commits {
    list: Vec<git2::Oid>,
    blob: git2::Oid,
}

fn commits(raw: &git2::Repository) -> Commits {
    let sig = git2::Signature::new("anonymous", "anonymous@radicle.xyz", &git2::Time::new(1514817556, 0))
        .expect("signature");
    let blob = raw.blob(b"Hello World!\n").expect("blob");
    let mut list = vec![];
    let mut parent: Option<git2::Oid> = None;
    for i in 0..4 {
        let content = raw.blob(format!("version {i}\n").as_bytes()).expect("blob");
        let mut tb = raw.treebuilder(None).expect("treebuilder");
        tb.insert("README", content, 0o100644).expect("insert");
        let tree = raw.find_tree(tb.write().expect("tree")).expect("tree");
        let parents: Vec<git2::Commit> = parent.iter().map(|p| raw.find_commit(*p).expect("commit")).collect();
        let refs: Vec<&git2::Commit> = parents.iter().collect();
        let oid = raw.commit(None, &sig, &sig, &format!("commit {i}"), &tree, &refs).expect("commit");
        list.push(oid);
        parent = Some(oid);
    }
    Commits { list, blob }
}

fn set_ref(raw: &git2::Repository, pk: &PublicKey, suffix: &str, oid: git2::Oid) {
    raw.reference(&format!("refs/namespaces/{pk}/{suffix}"), oid, true, "vcheck").expect("create ref");
}

/// Refs created before signing.
fn populate(raw: &git2::Repository, pk: &PublicKey, ns: &Ns, cs: &Commits, k: usize) {
    for h in 0..ns.heads.min(3) as usize {
        let name = ["master", "dev", "feature/x"][h];
        set_ref(raw, pk, &format!("refs/heads/{name}"), cs.list[(h + k) % cs.list.len()]);
    }
    if ns.tag {
        set_ref(raw, pk, "refs/tags/v1.0", cs.list[k % cs.list.len()]);
    }
    if ns.cob {
        let c = cs.list[(k + 1) % cs.list.len()];
        set_ref(raw, pk, &format!("refs/cobs/xyz.radicle.issue/{c}"), c);
    }
}

/// Refs created after signing.
fn populate_after(raw: &git2::Repository, pk: &PublicKey, ns: &Ns, cs: &Commits, k: usize) {
    if ns.unsigned_after {
        set_ref(raw, pk, "refs/heads/late", cs.list[(k + 2) % cs.list.len()]);
    }
    if ns.odd {
        set_ref(raw, pk, "refs/notes/blob", cs.blob);
    }
}

fn check(ctx: &Ctx, c: &Case) -> CaseResult {
    let tmp = scratch_dir("vcheck-c28-");

    // ---- participants
    let n = c.delegates.len().clamp(1, 3);
    let delegate_ns = &c.delegates[..n.min(c.delegates.len())];
    if delegate_ns.is_empty() {
        return Ok(()); // hand-edited replay without delegates
    }
    let delegates: Vec<Device<MockSigner>> = (0..n).map(|i| device(c.salt, 1, i as u8)).collect();
    let outsider = device(c.salt, 2, 0);
    let others: Vec<Device<MockSigner>> = (0..c.others.len().min(4)).map(|i| device(c.salt, 3, i as u8)).collect();
    let local_idx = c.local_delegate.map(|i| (i as usize).min(n - 1));
    let local_pk: PublicKey = match local_idx {
        Some(i) => *delegates[i].public_key(),
        None => *outsider.public_key(),
    };
    let local_desc: &Ns = match local_idx {
        Some(i) => &delegate_ns[i],
        None => &c.local_ns,
    };

    // ---- storage + repository
    let storage = Storage::open(
        tmp.path().join("storage"),
        radicle::git::UserInfo { alias: Alias::new("local"), key: local_pk },
    )
    .expect("open storage");
    let project = Project::new(
        "acme".try_into().expect("project name"),
        "Acme's repository".to_string(),
        radicle::git::RefString::try_from("master").expect("branch name"),
    )
    .expect("project");
    let threshold = (c.threshold as usize).clamp(1, n);
    let doc = RawDoc::new(
        project,
        delegates.iter().map(|d| Did::from(*d.public_key())).collect(),
        threshold,
        Visibility::Public,
    )
    .verified()
    .expect("valid document");
    let (repo, root): (Repository, _) = Repository::init(&doc, &storage, &delegates[0]).expect("init repository");
    let rid = repo.id;
    repo.set_identity_head_to(root).expect("set identity head");

    // ---- optional identity change (accepted by every initial delegate)
    let mut current: Vec<PublicKey> = delegates.iter().map(|d| *d.public_key()).collect();
    let mut change_label = "none";
    {
        let mut raw_doc = doc.clone().edit();
        let mut wanted = false;
        match &c.change {
            IdChange::None => {}
            IdChange::AddOther(i) => {
                if !others.is_empty() {
                    let o = &others[(*i as usize).min(others.len() - 1)];
                    raw_doc.delegate(Did::from(*o.public_key()));
                    wanted = true;
                    change_label = "add-other";
                }
            }
            IdChange::AddLocal => {
                if local_idx.is_none() {
                    raw_doc.delegate(Did::from(local_pk));
                    wanted = true;
                    change_label = "add-local";
                }
            }
            IdChange::Remove(i) => {
                if n >= 2 {
                    let k = (*i as usize).clamp(1, n - 1);
                    raw_doc.rescind(&Did::from(*delegates[k].public_key())).expect("rescind");
                    raw_doc.threshold = raw_doc.threshold.min(n - 1);
                    wanted = true;
                    change_label = if Some(k) == local_idx { "remove-local-delegate" } else { "remove-delegate" };
                }
            }
        }
        if wanted {
            let new_doc = raw_doc.verified().expect("valid changed document");
            let mut identity = Identity::load_mut(&repo).expect("load identity");
            let rev = identity.update("change delegates", "", &new_doc, &delegates[0]).expect("identity update");
            for d in delegates.iter().skip(1) {
                if identity.revision(&rev).map(|r| r.is_accepted()).unwrap_or(false) {
                    break;
                }
                identity.accept(&rev, d).expect("identity accept");
            }
            let accepted = identity.revision(&rev).map(|r| r.is_accepted()).unwrap_or(false);
            if !accepted || identity.current != rev {
                ctx.count("excluded:identity-change-not-accepted");
                return Ok(());
            }
            repo.set_identity_head_to(rev).expect("set identity head");
            current = new_doc.delegates().iter().map(|d| **d).collect();
        }
    }
    // Harness consistency: the model's delegate set is the one the repository reports.
    {
        let reported: BTreeSet<PublicKey> = repo.delegates().expect("delegates").into_iter().map(|d| *d).collect();
        let model: BTreeSet<PublicKey> = current.iter().copied().collect();
        if reported != model {
            ctx.count("excluded:model-delegates-mismatch");
            return Ok(());
        }
    }

    // ---- namespaces
    let raw = repo.raw();
    let cs = commits(raw);
    let mut peers: Vec<(&Device<MockSigner>, &Ns)> = vec![];
    for (i, d) in delegates.iter().enumerate() {
        peers.push((d, &delegate_ns[i.min(delegate_ns.len() - 1)]));
    }
    if local_idx.is_none() {
        peers.push((&outsider, &c.local_ns));
    }
    for (i, o) in others.iter().enumerate() {
        peers.push((o, &c.others[i]));
    }
    for (k, (dev, ns)) in peers.iter().enumerate() {
        populate(raw, dev.public_key(), ns, &cs, k);
    }
    for (dev, ns) in peers.iter() {
        if ns.sigrefs {
            repo.sign_refs(*dev).expect("sign refs");
        }
    }
    for (k, (dev, ns)) in peers.iter().enumerate() {
        populate_after(raw, dev.public_key(), ns, &cs, k);
    }

    // ---- clean
    let path = storage.path_of(&rid);
    let before = snapshot(&path).expect("repository exists before cleaning");
    let protected: BTreeSet<String> =
        current.iter().map(|k| k.to_string()).chain(std::iter::once(local_pk.to_string())).collect();
    let local_s = local_pk.to_string();
    let local_has_sigrefs = before.contains_key(&format!("refs/namespaces/{local_s}/refs/rad/sigrefs"));
    // Nb. an identity revision signs the refs of every delegate that took part in it, so
    // the snapshot (not the namespace description) says whether the local node has sigrefs.
    if local_has_sigrefs != local_desc.sigrefs {
        ctx.count("local:sigrefs-created-by-identity-change");
    }
    drop(repo);

    let result = storage.clean(rid);
    let after = snapshot(&path);

    // ---- oracle
    let ns_before: BTreeSet<&str> = before.keys().filter_map(|n| namespace_of(n)).collect();
    let protected_present = ns_before.iter().filter(|n| protected.contains(**n)).count();
    let removable_present: Vec<&str> = ns_before.iter().filter(|n| !protected.contains(**n)).copied().collect();
    let removable_with_sigrefs = removable_present
        .iter()
        .filter(|n| before.contains_key(&format!("refs/namespaces/{n}/refs/rad/sigrefs")))
        .count();

    let mut removed_something = false;
    match &after {
        None => {
            ensure!(
                !local_has_sigrefs,
                "repository-removed-with-local-sigrefs",
                "the whole repository was removed although the local node {local_s} has rad/sigrefs (result: {})",
                res_str(&result)
            );
            removed_something = true;
            ctx.count("outcome:repository-removed");
        }
        Some(after) => {
            let mut gone_ns: BTreeSet<&str> = BTreeSet::new();
            for (name, target) in &before {
                let now = after.get(name);
                if now == Some(target) {
                    continue;
                }
                let what = if now.is_none() { "deleted" } else { "changed" };
                match namespace_of(name) {
                    None => {
                        return fail(
                            "non-namespaced-ref-touched",
                            format!("{what} `{name}` which is not in any peer's namespace (result: {})", res_str(&result)),
                        )
                    }
                    Some(ns) if ns == local_s => {
                        return fail(
                            "local-namespace-touched",
                            format!("{what} `{name}` of the local node (result: {})", res_str(&result)),
                        )
                    }
                    Some(ns) if protected.contains(ns) => {
                        return fail(
                            "delegate-namespace-touched",
                            format!("{what} `{name}` of a delegate (result: {})", res_str(&result)),
                        )
                    }
                    Some(ns) => {
                        gone_ns.insert(ns);
                        removed_something = true;
                    }
                }
            }
            for name in after.keys() {
                if !before.contains_key(name) {
                    // Not a removal; the statement does not speak about it.
                    ctx.count("note:ref-created-by-clean");
                }
            }
            if !local_has_sigrefs {
                ctx.count("note:kept-although-local-has-no-sigrefs");
            }
            let survivors = removable_present
                .iter()
                .filter(|n| after.keys().any(|k| namespace_of(k) == Some(**n)))
                .count();
            if survivors > 0 {
                ctx.count("note:removable-namespace-survived(all-or-part)");
            }
            ctx.count(&format!("outcome:kept,namespaces-removed={}", gone_ns.len().min(4)));
        }
    }

    // ---- classification
    ctx.count(if result.is_ok() { "result:ok" } else { "result:err" });
    ctx.count(if local_idx.is_some() { "local:initial-delegate" } else { "local:outsider" });
    ctx.count(if local_has_sigrefs { "local:has-sigrefs" } else { "local:no-sigrefs" });
    ctx.count(&format!("delegates-initial={n}"));
    ctx.count(&format!("identity-change:{change_label}"));
    ctx.count(&format!("removable-namespaces={}", removable_present.len().min(4)));
    ctx.count(&format!("removable-with-sigrefs={}", removable_with_sigrefs.min(4)));
    ctx.count(&format!("protected-namespaces-present={}", protected_present.min(4)));
    if peers.iter().any(|(_, ns)| ns.odd) {
        ctx.count("has-unpeelable-ref");
    }
    if protected_present >= 1 && removed_something {
        ctx.nontrivial(c);
        ctx.sample("random", c);
    }
    Ok(())
}

/// Scratch directory: memory-backed when the machine has `/dev/shm` (a case creates and
/// deletes a few hundred small files), the system temp dir otherwise.
fn scratch_dir(prefix: &str) -> tempfile::TempDir {
    let mut b = tempfile::Builder::new();
    b.prefix(prefix);
    let shm = Path::new("/dev/shm");
    if shm.is_dir() {
        if let Ok(d) = b.tempdir_in(shm) {
            return d;
        }
    }
    b.tempdir().expect("tempdir")
}

/// glibc gives the heap top back to the kernel after every case and grows it again in
/// the next one; on this kind of workload that is a third of the run time. Keep it.
fn keep_heap() {
    #[cfg(all(target_os = "linux", target_env = "gnu"))]
    unsafe {
        extern "C" {
            fn mallopt(param: i32, value: i32) -> i32;
        }
        const M_TRIM_THRESHOLD: i32 = -1;
        const M_TOP_PAD: i32 = -2;
        mallopt(M_TRIM_THRESHOLD, 256 << 20);
        mallopt(M_TOP_PAD, 16 << 20);
    }
}

fn res_str<T: std::fmt::Debug, E: std::fmt::Display>(r: &Result<T, E>) -> String {
    match r {
        Ok(v) => format!("Ok({v:?})"),
        Err(e) => format!("Err({e})"),
    }
}

// ---------------------------------------------------------------------------
// Generators
// ---------------------------------------------------------------------------

fn ns(p_sigrefs: f64) -> impl Strategy<Value = Ns> {
    (
        proptest::bool::weighted(p_sigrefs),
        prop_oneof![2 => Just(0u8), 3 => Just(1u8), 2 => Just(2u8), 1 => Just(3u8)],
        proptest::bool::weighted(0.3),
        proptest::bool::weighted(0.3),
        proptest::bool::weighted(0.25),
        proptest::bool::weighted(0.12),
    )
        .prop_map(|(sigrefs, heads, tag, cob, unsigned_after, odd)| Ns { sigrefs, heads, tag, cob, unsigned_after, odd })
}

fn random_case() -> impl Strategy<Value = Case> {
    (
        any::<u8>(),
        proptest::collection::vec(ns(0.8), 1..=3),
        1u8..=3,
        prop_oneof![3 => Just(None), 2 => Just(Some(0u8)), 1 => Just(Some(1u8)), 1 => Just(Some(2u8))],
        ns(0.75),
        proptest::collection::vec(ns(0.8), 0..=4),
        prop_oneof![
            5 => Just(IdChange::None),
            2 => (0u8..4).prop_map(IdChange::AddOther),
            1 => Just(IdChange::AddLocal),
            2 => (1u8..3).prop_map(IdChange::Remove),
        ],
    )
        .prop_map(|(salt, delegates, threshold, local_delegate, local_ns, others, change)| Case {
            salt,
            delegates,
            threshold,
            local_delegate,
            local_ns,
            others,
            change,
        })
}

/// Small exhaustive family: one or two delegates, local role, local/other
/// sigrefs flags, identity change kind — every combination once.
fn combos() -> impl Iterator<Item = Case> {
    let full = |sigrefs: bool| Ns { sigrefs, heads: 1, tag: false, cob: true, unsigned_after: false, odd: false };
    let mut v = vec![];
    for n in 1..=2usize {
        for local in [None, Some(0u8), Some(1u8)] {
            if local == Some(1) && n == 1 {
                continue;
            }
            for local_sig in [true, false] {
                for other_sig in [true, false] {
                    for change in [IdChange::None, IdChange::AddOther(0), IdChange::AddLocal, IdChange::Remove(1)] {
                        let mut delegates: Vec<Ns> = (0..n).map(|_| full(true)).collect();
                        if let Some(i) = local {
                            delegates[i as usize].sigrefs = local_sig;
                        }
                        v.push(Case {
                            salt: (v.len() as u8).wrapping_mul(37),
                            delegates,
                            threshold: 1,
                            local_delegate: local,
                            local_ns: full(local_sig),
                            others: vec![full(other_sig), full(true)],
                            change,
                        });
                    }
                }
            }
        }
    }
    v.into_iter()
}

fn run(ctx: &Ctx) {
    // COB and sigrefs commits take their time from this variable: fixed for determinism.
    std::env::set_var("GIT_COMMITTER_DATE", "1514817556");
    keep_heap();
    let f = |c: &Case| check(ctx, c);
    ctx.enumerate("combos", combos(), true, f);
    ctx.run("random", random_case(), ctx.cases(2_000, 60_000), f);
}
