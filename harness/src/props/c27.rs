//! C27 — SSH agent client never panics and key encodings round-trip.
//!
//! Statement: parsing any response from an SSH agent (identity lists and
//! signatures of any shape or length) yields a value or an error and never
//! panics. Keys and signatures written in the SSH wire encoding read back
//! unchanged.
//!
//! Sub-checks
//! * `reply-raw`: arbitrary / token-built reply bodies through a mock
//!   `ClientStream` into every `AgentClient` operation; no panic.
//! * `identities`: identity answers built from entries (ed25519 keys written
//!   with `Encodable::write`, foreign-algorithm blobs, wrong-length keys, raw
//!   blobs) with structural mutations; no panic, and for an unmutated answer the
//!   ed25519 keys come back unchanged and in order.
//! * `sign`: sign responses with signatures of any length and structural
//!   mutations; no panic, and a well-formed 64-byte ed25519 signature is
//!   returned unchanged (genuine ones verify).
//! * `roundtrip`: `read(write(x)) == x` for public keys, signatures and secret
//!   keys, directly and through the requests/answers of the client.
//! * `unix-stream`: the same replies framed over a real `UnixStream` pair
//!   (declared length shorter/longer than the body, zero-length frame); no panic.
use std::io::Write as _;
use std::os::unix::net::UnixStream;
use std::sync::{Arc, Mutex};

use proptest::prelude::*;
use radicle_crypto::{KeyPair, PublicKey, SecretKey, Seed, Signature};
use radicle_ssh::agent::client::{AgentClient, ClientStream, Error};
use radicle_ssh::agent::Constraint;
use radicle_ssh::encoding::{Buffer, Encodable, Encoding, Reader};
use serde::{Deserialize, Serialize};

use crate::core::*;
use crate::ensure;

pub const PROP: Prop = Prop {
    id: "C27",
    shards: (8, 16),
    level: "exploration",
    rule: "Replies are (a) raw bytes or token sequences (message-type bytes, biased u32s, strings, algorithm names, \
           32/64-byte blobs), (b) identity answers built from 0..6 entries (ed25519 key written with Encodable::write, \
           foreign algorithm, wrong key length, raw blob) and (c) sign responses with signature length classes \
           {0,1,32,63,64,65,128,random}; (b) and (c) are then mutated structurally (type byte, count field, \
           truncation, appended bytes, one corrupted byte, emptied). Keys are derived from seeds or are arbitrary \
           bytes. Non-trivial: the reply reaches the parser behind the message-type byte (first byte is the expected \
           answer type) or the case is a round trip; distinct = hash of the case.",
    assumptions: &[
        "a ClientStream hands the client the reply body without its length prefix, as the UnixStream implementation \
         does (a zero-length frame is an empty body); the mock stream does the same",
        "any value of PublicKey/Signature/SecretKey counts as a valid key/signature for the round trip (the types \
         only constrain the length)",
        "unix-stream: declared frame lengths are capped at 1 MiB to keep the run light",
    ],
    run,
    budget_s: (600, 7200),
};

const ED: &[u8] = b"ssh-ed25519";
const IDENTITIES_ANSWER: u8 = 12;
const SIGN_RESPONSE: u8 = 14;
const TYPE_BYTES: &[u8] = &[12, 14, 5, 6, 27, 28, 0, 255];
/// Algorithm names that are not `ssh-ed25519` (including near misses).
const FOREIGN: &[&[u8]] =
    &[b"ssh-rsa", b"ecdsa-sha2-nistp256", b"ssh-ed25519-cert-v01@openssh.com", b"", b"ssh-ed2551", b"ssh-ed255190"];

// ---------------------------------------------------------------------------
// Mock transport
// ---------------------------------------------------------------------------

#[derive(Clone, Default)]
struct Mock {
    reply: Vec<u8>,
    sent: Arc<Mutex<Vec<u8>>>,
}

impl ClientStream for Mock {
    fn request(&mut self, req: &[u8]) -> Result<Buffer, Error> {
        *self.sent.lock().unwrap() = req.to_vec();
        Ok(self.reply.clone().into())
    }

    fn connect<P>(_path: P) -> Result<AgentClient<Self>, Error>
    where
        P: AsRef<std::path::Path> + Send,
    {
        Err(Error::AgentFailure)
    }
}

fn client(reply: &[u8]) -> (AgentClient<Mock>, Arc<Mutex<Vec<u8>>>) {
    let mock = Mock { reply: reply.to_vec(), sent: Default::default() };
    let sent = mock.sent.clone();
    (AgentClient::connect(mock), sent)
}

fn err_class(e: &Error) -> &'static str {
    match e {
        Error::AgentProtocolError => "err-protocol",
        Error::AgentFailure => "err-agent-failure",
        Error::Encoding(_) => "err-encoding",
        Error::Io(_) => "err-io",
        _ => "err-other",
    }
}

fn keypair(mut seed: [u8; 32]) -> (PublicKey, SecretKey) {
    if seed == [0; 32] {
        // `KeyPair::from_seed` rejects the all-zero seed (precondition of the key library).
        seed[31] = 1;
    }
    let kp = KeyPair::from_seed(Seed::new(seed));
    (PublicKey::from(kp.pk), SecretKey::from(kp.sk))
}

// ---------------------------------------------------------------------------
// All reply parsers, no panic
// ---------------------------------------------------------------------------

struct Outcomes {
    identities: Result<Vec<PublicKey>, Error>,
    sign: Result<[u8; 64], Error>,
}

/// Feed one reply body to every client operation. Fails only on a panic.
fn all_operations<S: ClientStream>(
    what: &str,
    reply: &[u8],
    mk: &dyn Fn() -> AgentClient<S>,
    pk: &PublicKey,
    sk: &SecretKey,
) -> Result<Outcomes, Fail> {
    let p = |op: &str, (loc, msg): (String, String)| Fail {
        sig: format!("{op}:panic"),
        msg: format!("{what}: AgentClient::{op} panicked at {loc}: {msg}; reply body = {reply:?}"),
    };
    let identities =
        catch(|| mk().request_identities::<PublicKey>()).map_err(|e| p("request_identities", e))?;
    let sign = catch(|| mk().sign(pk, b"data")).map_err(|e| p("sign", e))?;
    let _ = catch(|| mk().query_extension(b"ext@radicle", Buffer::default())).map_err(|e| p("query_extension", e))?;
    // Operations that only await an acknowledgement.
    catch(|| {
        let _ = mk().add_identity(sk, &[]);
        let _ = mk().add_identity(sk, &[Constraint::Confirm, Constraint::KeyLifetime { seconds: 7 }]);
        let _ = mk().remove_identity(pk);
        let _ = mk().remove_all_identities();
        let _ = mk().lock(b"pass");
        let _ = mk().unlock(b"pass");
        let _ = mk().extension(b"ext@radicle", b"x");
        let _ = mk().add_smartcard_key("id", b"pin", &[]);
        let _ = mk().remove_smartcard_key("id", b"pin");
    })
    .map_err(|e| p("acknowledged-operation", e))?;
    // The decoders of the key crate on agent-supplied bytes.
    catch(|| {
        let _ = PublicKey::read(&mut reply.reader(0));
        let _ = PublicKey::read(&mut reply.reader(1));
    })
    .map_err(|e| p("PublicKey::read", e))?;
    catch(|| {
        let _ = Signature::read(&mut reply.reader(0));
        let _ = Signature::read(&mut reply.reader(1));
    })
    .map_err(|e| p("Signature::read", e))?;
    Ok(Outcomes { identities, sign })
}

fn via_mock(what: &str, reply: &[u8]) -> Result<Outcomes, Fail> {
    let (pk, sk) = keypair([7; 32]);
    all_operations(what, reply, &|| client(reply).0, &pk, &sk)
}

fn count_outcomes(ctx: &Ctx, sub: &str, reply: &[u8], o: &Outcomes) {
    match reply.first() {
        None => ctx.count(&format!("{sub}:reply-empty")),
        Some(&IDENTITIES_ANSWER) => ctx.count(&format!("{sub}:first-byte=identities-answer")),
        Some(&SIGN_RESPONSE) => ctx.count(&format!("{sub}:first-byte=sign-response")),
        Some(_) => ctx.count(&format!("{sub}:first-byte=other")),
    }
    match &o.identities {
        Ok(k) if k.is_empty() => ctx.count(&format!("{sub}:identities=ok-empty")),
        Ok(_) => ctx.count(&format!("{sub}:identities=ok-keys")),
        Err(e) => ctx.count(&format!("{sub}:identities={}", err_class(e))),
    }
    match &o.sign {
        Ok(_) => ctx.count(&format!("{sub}:sign=ok")),
        Err(e) => ctx.count(&format!("{sub}:sign={}", err_class(e))),
    }
}

// ---------------------------------------------------------------------------
// reply-raw
// ---------------------------------------------------------------------------

#[derive(Debug, Clone, Serialize, Deserialize, Hash)]
pub enum Token {
    Byte(u8),
    U32(u32),
    Str(Vec<u8>),
    Algo,
    Blob32(u8),
    Blob64(u8),
    /// A complete key blob `string(string(algo) string(key))`.
    KeyBlob(u8),
}

#[derive(Debug, Clone, Serialize, Deserialize, Hash)]
pub struct RawCase {
    tokens: Vec<Token>,
}

fn render(tokens: &[Token]) -> Vec<u8> {
    let mut out: Vec<u8> = vec![];
    for t in tokens {
        match t {
            Token::Byte(b) => out.push(*b),
            Token::U32(u) => out.extend_u32(*u),
            Token::Str(s) => out.extend_ssh_string(s),
            Token::Algo => out.extend_ssh_string(ED),
            Token::Blob32(b) => out.extend_ssh_string(&[*b; 32]),
            Token::Blob64(b) => out.extend_ssh_string(&[*b; 64]),
            Token::KeyBlob(b) => PublicKey::from([*b; 32]).write(&mut out),
        }
    }
    out
}

fn biased_u32() -> impl Strategy<Value = u32> {
    prop_oneof![
        4 => prop::sample::select(vec![0u32, 1, 2, 3, 4, 8, 11, 32, 51, 64, 83, 255, 256]),
        2 => prop::sample::select(vec![u32::MAX, u32::MAX - 1, u32::MAX - 3, 1 << 31, (1 << 31) - 1, 1 << 24]),
        1 => any::<u32>(),
    ]
}

fn token() -> impl Strategy<Value = Token> {
    prop_oneof![
        3 => any::<u16>().prop_map(|i| Token::Byte(TYPE_BYTES[pick(i, TYPE_BYTES.len())])),
        1 => any::<u8>().prop_map(Token::Byte),
        4 => biased_u32().prop_map(Token::U32),
        2 => proptest::collection::vec(any::<u8>(), 0..20).prop_map(Token::Str),
        2 => Just(Token::Algo),
        1 => any::<u8>().prop_map(Token::Blob32),
        1 => any::<u8>().prop_map(Token::Blob64),
        1 => any::<u8>().prop_map(Token::KeyBlob),
    ]
}

fn raw_case() -> impl Strategy<Value = RawCase> {
    prop_oneof![
        1 => Just(RawCase { tokens: vec![] }),
        2 => proptest::collection::vec(any::<u8>().prop_map(Token::Byte), 0..24).prop_map(|tokens| RawCase { tokens }),
        2 => proptest::collection::vec(token(), 0..10).prop_map(|tokens| RawCase { tokens }),
        // behind the message-type byte of the two parsed answers
        6 => (prop_oneof![Just(IDENTITIES_ANSWER), Just(SIGN_RESPONSE)], proptest::collection::vec(token(), 0..10))
            .prop_map(|(t, mut tokens)| {
                tokens.insert(0, Token::Byte(t));
                RawCase { tokens }
            }),
    ]
}

fn check_raw(ctx: &Ctx, sub: &str, c: &RawCase) -> CaseResult {
    let reply = render(&c.tokens);
    let o = via_mock("raw reply", &reply)?;
    count_outcomes(ctx, "raw", &reply, &o);
    if matches!(reply.first(), Some(&IDENTITIES_ANSWER) | Some(&SIGN_RESPONSE)) && reply.len() > 1 {
        ctx.nontrivial(c);
        ctx.sample(sub, c);
    }
    Ok(())
}

// ---------------------------------------------------------------------------
// Structural mutations
// ---------------------------------------------------------------------------

#[derive(Debug, Clone, Serialize, Deserialize, Hash)]
pub enum Mutation {
    None,
    /// Replace the message-type byte.
    TypeByte(u8),
    /// Overwrite bytes 1..5 (the count of an identities answer / the outer length of a sign response).
    Field(u32),
    /// Keep only a prefix.
    Truncate(u16),
    Append(Vec<u8>),
    /// Overwrite one byte somewhere.
    SetByte(u16, u8),
    /// The empty reply.
    Empty,
}

fn mutation() -> impl Strategy<Value = Mutation> {
    prop_oneof![
        6 => Just(Mutation::None),
        1 => any::<u16>().prop_map(|i| Mutation::TypeByte(TYPE_BYTES[pick(i, TYPE_BYTES.len())])),
        2 => biased_u32().prop_map(Mutation::Field),
        3 => any::<u16>().prop_map(Mutation::Truncate),
        1 => proptest::collection::vec(any::<u8>(), 1..12).prop_map(Mutation::Append),
        3 => (any::<u16>(), prop_oneof![Just(0u8), Just(1), Just(0xff), Just(0x80), any::<u8>()])
            .prop_map(|(i, b)| Mutation::SetByte(i, b)),
        1 => Just(Mutation::Empty),
    ]
}

/// Returns the mutated reply and whether it is still the original one.
fn mutate(mut reply: Vec<u8>, m: &Mutation) -> (Vec<u8>, bool) {
    let orig = reply.clone();
    match m {
        Mutation::None => {}
        Mutation::TypeByte(b) => reply[0] = *b,
        Mutation::Field(v) => {
            if reply.len() >= 5 {
                reply[1..5].copy_from_slice(&v.to_be_bytes());
            }
        }
        Mutation::Truncate(i) => reply.truncate(pick(*i, reply.len())),
        Mutation::Append(x) => reply.extend_from_slice(x),
        Mutation::SetByte(i, b) => {
            let at = pick(*i, reply.len());
            reply[at] = *b;
        }
        Mutation::Empty => reply.clear(),
    }
    let same = reply == orig;
    (reply, same)
}

// ---------------------------------------------------------------------------
// identities
// ---------------------------------------------------------------------------

#[derive(Debug, Clone, Serialize, Deserialize, Hash)]
pub enum KeySrc {
    Seed([u8; 32]),
    Bytes([u8; 32]),
}

impl KeySrc {
    fn key(&self) -> PublicKey {
        match self {
            KeySrc::Seed(s) => keypair(*s).0,
            KeySrc::Bytes(b) => PublicKey::from(*b),
        }
    }
}

#[derive(Debug, Clone, Serialize, Deserialize, Hash)]
pub enum Entry {
    /// A key written with `Encodable::write`.
    Key { key: KeySrc, comment: Vec<u8> },
    /// `string(string(algo) string(body))` with another algorithm name.
    Foreign { algo: Vec<u8>, body: Vec<u8>, comment: Vec<u8> },
    /// An ed25519 blob whose key string does not have 32 bytes.
    WrongLen { key: Vec<u8>, comment: Vec<u8> },
    /// Arbitrary blob bytes.
    Raw { blob: Vec<u8>, comment: Vec<u8> },
}

#[derive(Debug, Clone, Serialize, Deserialize, Hash)]
pub struct IdentCase {
    entries: Vec<Entry>,
    mutation: Mutation,
}

fn identities_answer(entries: &[Entry]) -> Vec<u8> {
    let mut out: Vec<u8> = vec![IDENTITIES_ANSWER];
    out.extend_u32(entries.len() as u32);
    for e in entries {
        match e {
            Entry::Key { key, comment } => {
                key.key().write(&mut out);
                out.extend_ssh_string(comment);
            }
            Entry::Foreign { algo, body, comment } => {
                let mut blob: Vec<u8> = vec![];
                blob.extend_ssh_string(algo);
                blob.extend_ssh_string(body);
                out.extend_ssh_string(&blob);
                out.extend_ssh_string(comment);
            }
            Entry::WrongLen { key, comment } => {
                let mut blob: Vec<u8> = vec![];
                blob.extend_ssh_string(ED);
                blob.extend_ssh_string(key);
                out.extend_ssh_string(&blob);
                out.extend_ssh_string(comment);
            }
            Entry::Raw { blob, comment } => {
                out.extend_ssh_string(blob);
                out.extend_ssh_string(comment);
            }
        }
    }
    out
}

fn key_src() -> impl Strategy<Value = KeySrc> {
    prop_oneof![any::<[u8; 32]>().prop_map(KeySrc::Seed), any::<[u8; 32]>().prop_map(KeySrc::Bytes)]
}

fn small_bytes(max: usize) -> impl Strategy<Value = Vec<u8>> {
    proptest::collection::vec(any::<u8>(), 0..=max)
}

fn entry() -> impl Strategy<Value = Entry> {
    prop_oneof![
        6 => (key_src(), small_bytes(12)).prop_map(|(key, comment)| Entry::Key { key, comment }),
        2 => (
            any::<u16>(),
            small_bytes(40),
            small_bytes(12)
        )
            .prop_map(|(i, body, comment)| Entry::Foreign { algo: FOREIGN[pick(i, FOREIGN.len())].to_vec(), body, comment }),
        1 => (prop_oneof![small_bytes(31), proptest::collection::vec(any::<u8>(), 33..70)], small_bytes(12))
            .prop_map(|(key, comment)| Entry::WrongLen { key, comment }),
        1 => (small_bytes(60), small_bytes(12)).prop_map(|(blob, comment)| Entry::Raw { blob, comment }),
    ]
}

fn ident_case() -> impl Strategy<Value = IdentCase> {
    (proptest::collection::vec(entry(), 0..=6), mutation()).prop_map(|(entries, mutation)| IdentCase { entries, mutation })
}

fn is_subsequence(needle: &[PublicKey], hay: &[PublicKey]) -> bool {
    let mut it = hay.iter();
    needle.iter().all(|k| it.any(|h| h == k))
}

fn check_ident(ctx: &Ctx, c: &IdentCase) -> CaseResult {
    let (reply, same) = mutate(identities_answer(&c.entries), &c.mutation);
    let o = via_mock("identities answer", &reply)?;
    count_outcomes(ctx, "identities", &reply, &o);
    ctx.count(&format!("identities:entries={}", c.entries.len()));
    if same {
        // Well-formed answer: the written keys must come back unchanged, in order.
        ctx.count("identities:well-formed");
        let expected: Vec<PublicKey> = c
            .entries
            .iter()
            .filter_map(|e| match e {
                Entry::Key { key, .. } => Some(key.key()),
                _ => None,
            })
            .collect();
        let has_raw = c.entries.iter().any(|e| matches!(e, Entry::Raw { .. }));
        let got = match &o.identities {
            Ok(k) => k,
            Err(e) => {
                return fail(
                    "identities:roundtrip",
                    format!("well-formed identities answer with {} entries was rejected: {e}", c.entries.len()),
                )
            }
        };
        if has_raw {
            // A raw blob may or may not decode; the written keys must still be there, in order.
            ensure!(
                is_subsequence(&expected, got),
                "identities:roundtrip",
                "keys written {expected:?} are not contained in order in the keys returned {got:?}"
            );
        } else {
            ensure!(
                *got == expected,
                "identities:roundtrip",
                "keys written {expected:?} != keys returned {got:?}"
            );
        }
        if expected.len() >= 2 {
            ctx.count("identities:well-formed,>=2-keys");
        }
        if c.entries.len() > expected.len() {
            ctx.count("identities:well-formed,with-undecodable-entries");
        }
    } else {
        ctx.count(match c.mutation {
            Mutation::TypeByte(_) => "identities:mutated-type-byte",
            Mutation::Field(_) => "identities:mutated-count",
            Mutation::Truncate(_) => "identities:mutated-truncated",
            Mutation::Append(_) => "identities:mutated-appended",
            Mutation::SetByte(..) => "identities:mutated-byte",
            _ => "identities:mutated-emptied",
        });
    }
    if !c.entries.is_empty() {
        ctx.nontrivial(c);
        ctx.sample("identities", c);
    }
    Ok(())
}

// ---------------------------------------------------------------------------
// sign
// ---------------------------------------------------------------------------

#[derive(Debug, Clone, Serialize, Deserialize, Hash)]
pub enum SigSrc {
    /// Real signature by the key of `seed` over `data`.
    Genuine,
    /// Arbitrary bytes of any length.
    Bytes(Vec<u8>),
}

#[derive(Debug, Clone, Serialize, Deserialize, Hash)]
pub struct SignCase {
    seed: [u8; 32],
    data: Vec<u8>,
    algo: Vec<u8>,
    sig: SigSrc,
    /// extra bytes inside the signature blob, after the signature string
    inner_extra: Vec<u8>,
    mutation: Mutation,
}

fn sig_bytes() -> impl Strategy<Value = Vec<u8>> {
    prop_oneof![
        3 => proptest::collection::vec(any::<u8>(), 64..=64),
        1 => Just(vec![]),
        1 => proptest::collection::vec(any::<u8>(), 1..=1),
        1 => proptest::collection::vec(any::<u8>(), 32..=32),
        2 => proptest::collection::vec(any::<u8>(), 63..=63),
        2 => proptest::collection::vec(any::<u8>(), 65..=65),
        1 => proptest::collection::vec(any::<u8>(), 128..=128),
        2 => proptest::collection::vec(any::<u8>(), 0..200),
    ]
}

fn sign_case() -> impl Strategy<Value = SignCase> {
    (
        any::<[u8; 32]>(),
        small_bytes(40),
        prop_oneof![4 => Just(ED.to_vec()), 1 => Just(b"ssh-rsa".to_vec()), 1 => small_bytes(14)],
        prop_oneof![2 => Just(SigSrc::Genuine), 5 => sig_bytes().prop_map(SigSrc::Bytes)],
        prop_oneof![4 => Just(vec![]), 1 => small_bytes(8)],
        mutation(),
    )
        .prop_map(|(seed, data, algo, sig, inner_extra, mutation)| SignCase { seed, data, algo, sig, inner_extra, mutation })
}

fn check_sign(ctx: &Ctx, c: &SignCase) -> CaseResult {
    let (pk, sk) = keypair(c.seed);
    let sig: Vec<u8> = match &c.sig {
        SigSrc::Genuine => sk.sign(&c.data, None).to_vec(),
        SigSrc::Bytes(b) => b.clone(),
    };
    let mut blob: Vec<u8> = vec![];
    blob.extend_ssh_string(&c.algo);
    blob.extend_ssh_string(&sig);
    blob.extend_from_slice(&c.inner_extra);
    let mut reply: Vec<u8> = vec![SIGN_RESPONSE];
    reply.extend_ssh_string(&blob);
    let (reply, same) = mutate(reply, &c.mutation);

    let o = via_mock("sign response", &reply)?;
    count_outcomes(ctx, "sign", &reply, &o);
    // The call with the real key and data.
    let got = catch(|| client(&reply).0.sign(&pk, &c.data)).map_err(|(loc, msg)| Fail {
        sig: "sign:panic".into(),
        msg: format!("AgentClient::sign panicked at {loc}: {msg}; reply body = {reply:?}"),
    })?;
    ctx.count(&format!(
        "sign:signature-length{}",
        match sig.len() {
            64 => "=64",
            0..=63 => "<64",
            _ => ">64",
        }
    ));
    if same {
        ctx.count("sign:well-formed");
        if sig.len() == 64 && c.algo == ED {
            ctx.count("sign:well-formed,ed25519-64");
            match &got {
                Ok(ret) => {
                    ensure!(
                        ret[..] == sig[..],
                        "sign:roundtrip",
                        "signature written {sig:?} != signature returned {ret:?}"
                    );
                    if matches!(c.sig, SigSrc::Genuine) {
                        ctx.count("sign:well-formed,genuine");
                        ensure!(
                            pk.verify(&c.data, &Signature::from(*ret)).is_ok(),
                            "sign:roundtrip",
                            "genuine signature no longer verifies after passing through AgentClient::sign"
                        );
                    }
                }
                Err(e) => {
                    return fail("sign:roundtrip", format!("well-formed 64-byte ed25519 sign response was rejected: {e}"))
                }
            }
        } else {
            ctx.count(if got.is_ok() { "sign:well-formed,other-shape=ok" } else { "sign:well-formed,other-shape=err" });
        }
    } else {
        ctx.count("sign:mutated");
    }
    ctx.nontrivial(c);
    ctx.sample("sign", c);
    Ok(())
}

// ---------------------------------------------------------------------------
// roundtrip
// ---------------------------------------------------------------------------

#[derive(Debug, Clone, Serialize, Deserialize, Hash)]
pub struct RtCase {
    /// key material: seed-derived when `genuine`, otherwise the raw bytes below
    genuine: bool,
    seed: [u8; 32],
    raw_pk: [u8; 32],
    raw_hi: [u8; 32],
    data: Vec<u8>,
    /// further keys for a multi-key identities answer
    more: Vec<[u8; 32]>,
    constrained: bool,
}

fn rt_case() -> impl Strategy<Value = RtCase> {
    (any::<bool>(), any::<[u8; 32]>(), any::<[u8; 32]>(), any::<[u8; 32]>(), small_bytes(40), proptest::collection::vec(any::<[u8; 32]>(), 0..4), any::<bool>())
        .prop_map(|(genuine, seed, raw_pk, raw_hi, data, more, constrained)| RtCase { genuine, seed, raw_pk, raw_hi, data, more, constrained })
}

fn check_rt(ctx: &Ctx, c: &RtCase) -> CaseResult {
    let (pk, sk, sig) = if c.genuine {
        let (pk, sk) = keypair(c.seed);
        let sig = Signature::from(sk.sign(&c.data, None));
        (pk, sk, sig)
    } else {
        let mut sk = [0u8; 64];
        sk[..32].copy_from_slice(&c.seed);
        sk[32..].copy_from_slice(&c.raw_pk);
        let mut sg = [0u8; 64];
        sg[..32].copy_from_slice(&c.raw_hi);
        sg[32..].copy_from_slice(&c.seed);
        (PublicKey::from(c.raw_pk), SecretKey::from(sk), Signature::from(sg))
    };
    ctx.count(if c.genuine { "roundtrip:genuine-keys" } else { "roundtrip:arbitrary-bytes" });

    // --- direct: write then read
    {
        let mut buf = Buffer::default();
        pk.write(&mut buf);
        // PublicKey::write produces the key blob as one string; read takes the blob's content.
        let mut outer = buf.reader(0);
        let blob = match outer.read_string() {
            Ok(b) => b,
            Err(e) => return fail("roundtrip:public-key", format!("written key blob is not an SSH string: {e}")),
        };
        match PublicKey::read(&mut blob.reader(0)) {
            Ok(back) => ensure!(back == pk, "roundtrip:public-key", "wrote {pk:?}, read {back:?}"),
            Err(e) => return fail("roundtrip:public-key", format!("wrote {pk:?}, read failed: {e}")),
        }
    }
    {
        let mut buf = Buffer::default();
        sig.write(&mut buf);
        match Signature::read(&mut buf.reader(0)) {
            Ok(back) => ensure!(back == sig, "roundtrip:signature", "wrote {sig:?}, read {back:?}"),
            Err(e) => return fail("roundtrip:signature", format!("wrote {sig:?}, read failed: {e}")),
        }
    }
    {
        let mut buf = Buffer::default();
        sk.write(&mut buf);
        match SecretKey::read(&mut buf.reader(0)) {
            Ok(back) => ensure!(back == sk, "roundtrip:secret-key", "secret key of {pk:?} read back differently"),
            Err(e) => return fail("roundtrip:secret-key", format!("secret key of {pk:?}: read failed: {e}")),
        }
    }

    // --- through the client's requests
    {
        let (mut cl, sent) = client(&[6]);
        let cons = if c.constrained { vec![Constraint::KeyLifetime { seconds: 60 }, Constraint::Confirm] } else { vec![] };
        let _ = cl.add_identity(&sk, &cons);
        let req = sent.lock().unwrap().clone();
        // u32 length, message type, then the key.
        match SecretKey::read(&mut req.reader(5)) {
            Ok(back) => ensure!(back == sk, "roundtrip:add-identity", "secret key in the add-identity request differs"),
            Err(e) => return fail("roundtrip:add-identity", format!("secret key in the add-identity request unreadable: {e}")),
        }
        for op in ["remove_identity", "sign"] {
            let (mut cl, sent) = client(&[6]);
            if op == "sign" {
                let _ = cl.sign(&pk, &c.data);
            } else {
                let _ = cl.remove_identity(&pk);
            }
            let req = sent.lock().unwrap().clone();
            let back = req.reader(5).read_string().ok().and_then(|blob| PublicKey::read(&mut blob.reader(0)).ok());
            ensure!(
                back == Some(pk),
                format!("roundtrip:{op}-request"),
                "public key in the {op} request: wrote {pk:?}, read {back:?}"
            );
        }
    }

    // --- through the client's answers
    {
        let mut keys = vec![pk];
        keys.extend(c.more.iter().map(|b| PublicKey::from(*b)));
        let mut reply: Vec<u8> = vec![IDENTITIES_ANSWER];
        reply.extend_u32(keys.len() as u32);
        for k in &keys {
            k.write(&mut reply);
            reply.extend_ssh_string(b"comment");
        }
        match catch(|| client(&reply).0.request_identities::<PublicKey>()) {
            Ok(Ok(back)) => ensure!(back == keys, "roundtrip:identities-answer", "wrote {keys:?}, read {back:?}"),
            Ok(Err(e)) => return fail("roundtrip:identities-answer", format!("wrote {keys:?}, read failed: {e}")),
            Err((loc, msg)) => return fail("request_identities:panic", format!("panic at {loc}: {msg}")),
        }
        let mut reply: Vec<u8> = vec![SIGN_RESPONSE];
        sig.write(&mut reply);
        match catch(|| client(&reply).0.sign(&pk, &c.data)) {
            Ok(Ok(back)) => {
                ensure!(Signature::from(back) == sig, "roundtrip:sign-response", "wrote {sig:?}, read {back:?}")
            }
            Ok(Err(e)) => return fail("roundtrip:sign-response", format!("wrote {sig:?}, read failed: {e}")),
            Err((loc, msg)) => return fail("sign:panic", format!("panic at {loc}: {msg}")),
        }
    }
    ctx.nontrivial(c);
    ctx.sample("roundtrip", c);
    Ok(())
}

// ---------------------------------------------------------------------------
// unix-stream
// ---------------------------------------------------------------------------

#[derive(Debug, Clone, Serialize, Deserialize, Hash)]
pub struct UnixCase {
    body: RawCase,
    /// None: the frame declares exactly the body length.
    declared: Option<u32>,
}

fn unix_case() -> impl Strategy<Value = UnixCase> {
    (
        raw_case(),
        prop_oneof![
            4 => Just(None),
            2 => (0u32..64).prop_map(Some),
            1 => prop::sample::select(vec![0u32, 1, 4, 5, 255, 4096, 65536, 1 << 20]).prop_map(Some),
        ],
    )
        .prop_map(|(body, declared)| UnixCase { body, declared })
}

fn check_unix(ctx: &Ctx, c: &UnixCase) -> CaseResult {
    let body = render(&c.body.tokens);
    let declared = c.declared.unwrap_or(body.len() as u32).min(1 << 20);
    let mut frame = declared.to_be_bytes().to_vec();
    frame.extend_from_slice(&body);
    // Each client gets its own socket pair with the agent's frame already queued
    // and the agent's write side closed; the agent ends stay open until the end.
    let agents: std::cell::RefCell<Vec<UnixStream>> = Default::default();
    let mk = || {
        let (ours, mut agent) = UnixStream::pair().expect("socketpair");
        agent.write_all(&frame).expect("queue reply");
        agent.shutdown(std::net::Shutdown::Write).expect("shutdown");
        agents.borrow_mut().push(agent);
        AgentClient::connect(ours)
    };
    let (pk, sk) = keypair([7; 32]);
    let o = all_operations("reply over UnixStream", &frame, &mk, &pk, &sk)?;
    let d = declared as usize;
    ctx.count(if d == body.len() {
        if d == 0 {
            "unix:frame-exact,zero-length"
        } else {
            "unix:frame-exact"
        }
    } else if d < body.len() {
        "unix:declared-shorter"
    } else {
        "unix:declared-longer(eof)"
    });
    if d <= body.len() {
        // Same body through the mock: the transport must not matter (recorded, not asserted).
        let m = via_mock("reply over mock", &body[..d])?;
        let agree = match (&o.identities, &m.identities) {
            (Ok(a), Ok(b)) => a == b,
            (Err(a), Err(b)) => err_class(a) == err_class(b),
            _ => false,
        } && match (&o.sign, &m.sign) {
            (Ok(a), Ok(b)) => a == b,
            (Err(a), Err(b)) => err_class(a) == err_class(b),
            _ => false,
        };
        ctx.count(if agree { "unix:same-outcome-as-mock" } else { "unix:OUTCOME-DIFFERS-FROM-MOCK" });
    } else {
        ctx.count(match &o.identities {
            Err(Error::Io(_)) => "unix:declared-longer=err-io",
            _ => "unix:declared-longer=other",
        });
    }
    if d > 0 {
        ctx.nontrivial(c);
        ctx.sample("unix-stream", c);
    }
    Ok(())
}

// ---------------------------------------------------------------------------

/// Small explicit space: every message-type byte alone, followed by every prefix of a
/// valid answer / response (all truncation points), and the empty reply.
fn prefixes() -> impl Iterator<Item = RawCase> {
    let (pk, _) = keypair([1; 32]);
    let mut ident: Vec<u8> = vec![IDENTITIES_ANSWER];
    ident.extend_u32(2);
    pk.write(&mut ident);
    ident.extend_ssh_string(b"a");
    PublicKey::from([9; 32]).write(&mut ident);
    ident.extend_ssh_string(b"");
    let mut sign: Vec<u8> = vec![SIGN_RESPONSE];
    Signature::from([3; 64]).write(&mut sign);
    let mut all: Vec<Vec<u8>> = vec![vec![]];
    all.extend((0..=255u8).map(|b| vec![b]));
    for full in [ident, sign] {
        all.extend((2..=full.len()).map(|n| full[..n].to_vec()));
    }
    all.into_iter().map(|bytes| RawCase { tokens: bytes.into_iter().map(Token::Byte).collect() })
}

fn run(ctx: &Ctx) {
    ctx.enumerate("reply-prefixes", prefixes(), true, |c: &RawCase| check_raw(ctx, "reply-prefixes", c));
    ctx.run("reply-raw", raw_case(), ctx.cases(40_000, 1_200_000), |c: &RawCase| check_raw(ctx, "reply-raw", c));
    ctx.run("identities", ident_case(), ctx.cases(40_000, 1_200_000), |c: &IdentCase| check_ident(ctx, c));
    ctx.run("sign", sign_case(), ctx.cases(24_000, 600_000), |c: &SignCase| check_sign(ctx, c));
    ctx.run("roundtrip", rt_case(), ctx.cases(8_000, 200_000), |c: &RtCase| check_rt(ctx, c));
    ctx.run("unix-stream", unix_case(), ctx.cases(8_000, 200_000), |c: &UnixCase| check_unix(ctx, c));
}

// ---------------------------------------------------------------------------
// Entry point for the coverage-guided target (/verif/harness/fuzz, target `agent_reply`)
// ---------------------------------------------------------------------------

thread_local! {
    static FUZZ_CTX: Ctx = Ctx::new("C27", Tier::Thorough, 0, 0, 1);
}

/// One libFuzzer iteration: arbitrary bytes as the agent's reply to request_identities / sign / the other
/// client calls. Errors are fine, panics are not (libFuzzer's panic hook aborts, which saves the input).
pub fn fuzz_agent_reply(data: &[u8]) {
    let c = RawCase { tokens: data.iter().map(|b| Token::Byte(*b)).collect() };
    FUZZ_CTX.with(|ctx| {
        if let Err(f) = check_raw(ctx, "fuzz", &c) {
            if !ctx.is_known(&f.sig) {
                panic!("VIOLATION property=C27 signature={} {}", f.sig, f.msg);
            }
        }
    });
}
