//! C20 — Signed refs text round-trips and signatures bind exactly what is accepted.
//!
//! Sub-checks
//! * `roundtrip`   ref sets of 0..200 names from git's ref grammar (near its edges) with non-zero
//!   oids: `from_canonical(canonical(r)) == r`.
//! * `tamper-mock` a signed triple (refs, key, signature) and ~20 mutations of it (struct level and
//!   blob-text level, signature bits, key bits, other keys, replayed signatures), verified against
//!   a `MockRepository` (matching / foreign identity for a listed `refs/rad/root`).
//! * `tamper-git`  the same against a real repository, blob-level mutations going through
//!   `SignedRefs::load_at` (refs + signature blobs in a commit); `refs/rad/root` pointing at the
//!   real root, a foreign document, a commit without document, an invalid document, nothing.
use std::collections::BTreeMap;
use std::sync::OnceLock;

use proptest::prelude::*;
use proptest::sample::select;
use radicle::crypto::test::signer::MockSigner;
use radicle::crypto::{PublicKey, Signature, Signer as _};
use radicle::git::raw as git2;
use radicle::git::{Oid, RefString};
use radicle::identity::doc::{Doc, Visibility};
use radicle::identity::project::{Project, ProjectName};
use radicle::identity::{Did, RepoId};
use radicle::node::device::Device;
use radicle::storage::git::Repository;
use radicle::storage::refs::{Refs, SignedRefs};
use radicle::storage::ReadRepository;
use radicle::test::storage::MockRepository;
use radicle::Storage;
use serde::{Deserialize, Serialize};

use crate::core::*;
use crate::ensure;

pub const PROP: Prop = Prop {
    id: "C20",
    shards: (4, 16),
    level: "exploration",
    rule: "Ref names are built from a component vocabulary that covers git's ref grammar and its edges \
           (punctuation, '.lock'/'..'/'@{' neighbours, non-ASCII incl. U+0085/U+2028/NBSP, 250-byte components, \
           40-level nesting; RefString::try_from is the validity filter and rejected names are counted), oids \
           are non-zero with leading/trailing zero bytes over-represented. A tamper case signs a set with a \
           seeded key and applies ~20 mutations (change/rename/insert/remove a ref; flip a blob byte, swap, \
           duplicate, drop, zero-oid, override, CRLF, no final newline, shortened/upper-case oid, truncate; \
           flip a signature or key bit, other key, signature replayed from another set / another key, honest \
           re-signing by another key). Oracle: verification may succeed only if (claimed key, parsed refs, \
           signature) is one of the honest signing events of the case and a listed refs/rad/root resolves to \
           a document whose blob is this repository's id; the accepted SignedRefs carries exactly these \
           values. Non-trivial: a mutation whose blob still parses (or a struct-level mutation) on a set \
           with >= 1 ref. Distinct = hash of the whole case.",
    assumptions: &[
        "valid reference names are those accepted by git::RefString::try_from",
        "a single bit flip of an ed25519 signature or key never yields another valid pair (negligible probability)",
        "acceptance of the honest, unmodified triple is counted (honest-accepted), not demanded",
    ],
    run,
    budget_s: (900, 7200),
};

type Oid20 = [u8; 20];

fn oid(b: &Oid20) -> Oid {
    git2::Oid::from_bytes(b).expect("20 bytes").into()
}

const NKEYS: usize = 12;

fn signers() -> &'static Vec<MockSigner> {
    static K: OnceLock<Vec<MockSigner>> = OnceLock::new();
    K.get_or_init(|| {
        (0..NKEYS)
            .map(|i| {
                let mut seed = [0u8; 32];
                seed[..8].copy_from_slice(&mix(0xC20 + i as u64).to_le_bytes());
                MockSigner::from_seed(seed)
            })
            .collect()
    })
}

const ROOT: &str = "refs/rad/root";

// ---------------------------------------------------------------------------
// Cases
// ---------------------------------------------------------------------------

#[derive(Debug, Clone, Serialize, Deserialize, Hash)]
pub struct RoundCase {
    refs: Vec<(String, Oid20)>,
}

#[derive(Debug, Clone, Serialize, Deserialize, Hash)]
pub enum Mut {
    Identity,
    // struct level
    SetOid { idx: u16, byte: u8, bit: u8 },
    Rename { idx: u16, name: String },
    Insert { name: String, oid: Oid20 },
    Remove { idx: u16 },
    // blob-text level
    BlobFlip { pos: u16, bit: u8 },
    BlobSwapLines { i: u16, j: u16 },
    BlobDupLine { i: u16 },
    BlobDropLine { i: u16 },
    BlobZeroLine { name: String },
    BlobZeroOid { i: u16 },
    BlobAppendLine { name: String, oid: Oid20 },
    BlobOverrideLine { i: u16, byte: u8, bit: u8 },
    BlobCrlf,
    BlobNoFinalNewline,
    BlobShortOid { i: u16, strip: u8 },
    BlobUpperHex { i: u16 },
    BlobTruncate { pos: u16 },
    // signature
    SigFlip { bit: u16 },
    SigZero,
    /// the same key's honest signature over another set (idx's oid changed), replayed on this set
    SigReplayOtherSet { idx: u16 },
    /// the other set together with its own honest signature (legitimate)
    OtherSetWithItsSig { idx: u16 },
    /// another key's honest signature over this set, presented under the original key
    SigByOtherKey { key: u8 },
    // key
    KeyFlip { bit: u8 },
    KeyOther { key: u8 },
    /// honest re-signing: other key signs this set and claims it (legitimate)
    Resign { key: u8 },
}

impl Mut {
    fn kind(&self) -> &'static str {
        match self {
            Mut::Identity => "identity",
            Mut::SetOid { .. } => "set-oid",
            Mut::Rename { .. } => "rename",
            Mut::Insert { .. } => "insert",
            Mut::Remove { .. } => "remove",
            Mut::BlobFlip { .. } => "blob-flip",
            Mut::BlobSwapLines { .. } => "blob-swap-lines",
            Mut::BlobDupLine { .. } => "blob-dup-line",
            Mut::BlobDropLine { .. } => "blob-drop-line",
            Mut::BlobZeroLine { .. } => "blob-zero-line",
            Mut::BlobZeroOid { .. } => "blob-zero-oid",
            Mut::BlobAppendLine { .. } => "blob-append-line",
            Mut::BlobOverrideLine { .. } => "blob-override-line",
            Mut::BlobCrlf => "blob-crlf",
            Mut::BlobNoFinalNewline => "blob-no-final-newline",
            Mut::BlobShortOid { .. } => "blob-short-oid",
            Mut::BlobUpperHex { .. } => "blob-upper-hex",
            Mut::BlobTruncate { .. } => "blob-truncate",
            Mut::SigFlip { .. } => "sig-flip",
            Mut::SigZero => "sig-zero",
            Mut::SigReplayOtherSet { .. } => "sig-replay-other-set",
            Mut::OtherSetWithItsSig { .. } => "other-set-with-its-sig",
            Mut::SigByOtherKey { .. } => "sig-by-other-key",
            Mut::KeyFlip { .. } => "key-flip",
            Mut::KeyOther { .. } => "key-other",
            Mut::Resign { .. } => "resign",
        }
    }
}

#[derive(Debug, Clone, Copy, Serialize, Deserialize, Hash, PartialEq, Eq)]
pub enum RootMode {
    /// refs/rad/root not listed
    NotListed,
    /// listed, and it resolves to this repository's identity
    Matching,
    /// listed, and it resolves to another repository's identity document
    Foreign,
    /// (git only) listed, pointing at an object that does not exist
    MissingObject,
    /// (git only) listed, pointing at a commit without identity document
    NoDocument,
    /// (git only) listed, pointing at a commit whose document is invalid (threshold 0)
    InvalidDocument,
}

#[derive(Debug, Clone, Serialize, Deserialize, Hash)]
pub struct TamperCase {
    refs: Vec<(String, Oid20)>,
    key: u8,
    root: RootMode,
    muts: Vec<Mut>,
}

// ---------------------------------------------------------------------------
// Helpers
// ---------------------------------------------------------------------------

type Map = BTreeMap<RefString, Oid>;

/// Build the map from the case (invalid names are dropped and counted).
fn build_map(ctx: &Ctx, refs: &[(String, Oid20)]) -> Map {
    let mut m = Map::new();
    for (name, o) in refs {
        match RefString::try_from(name.as_str()) {
            Ok(r) => {
                ctx.count("name:valid");
                if o == &[0u8; 20] {
                    ctx.count("oid:zero(skipped)");
                    continue;
                }
                m.insert(r, oid(o));
            }
            Err(_) => ctx.count("name:rejected-by-RefString"),
        }
    }
    m
}

fn name_classes(ctx: &Ctx, m: &Map) {
    for (n, o) in m {
        let s = n.as_str();
        if !s.is_ascii() {
            ctx.count("name:non-ascii");
        }
        if s.len() > 200 {
            ctx.count("name:>200-bytes");
        }
        if s.matches('/').count() >= 20 {
            ctx.count("name:>=20-levels");
        }
        if s.chars().any(|c| "@{}!\"#$%&'()+,;<=>|`".contains(c)) {
            ctx.count("name:punctuation");
        }
        if !s.contains('/') {
            ctx.count("name:one-level");
        }
        let b = o.as_bytes();
        if b[0] == 0 {
            ctx.count("oid:leading-zero-byte");
        }
        if b[19] == 0 {
            ctx.count("oid:trailing-zero-byte");
        }
    }
}

fn check_round(ctx: &Ctx, c: &RoundCase) -> CaseResult {
    let m = build_map(ctx, &c.refs);
    name_classes(ctx, &m);
    ctx.count(match m.len() {
        0 => "set:empty",
        1 => "set:1",
        2..=9 => "set:2..9",
        10..=99 => "set:10..99",
        _ => "set:>=100",
    });
    let refs = Refs::from(m.clone());
    let text = refs.canonical();
    match Refs::from_canonical(&text) {
        Ok(parsed) => {
            let got: Map = parsed.clone().into();
            ensure!(
                got == m,
                "roundtrip:differs",
                "from_canonical(canonical(r)) has {} refs, r has {}; first difference: {:?}",
                got.len(),
                m.len(),
                m.iter().find(|(k, v)| got.get(*k) != Some(v)).or_else(|| got.iter().find(|(k, v)| m.get(*k) != Some(v)))
            );
            ensure!(parsed == refs, "roundtrip:differs", "Refs values differ although the maps are equal");
        }
        Err(e) => return fail("roundtrip:parse-error", format!("from_canonical(canonical(r)): {e}; text {:?}", String::from_utf8_lossy(&text).chars().take(300).collect::<String>())),
    }
    if m.len() >= 2 && m.keys().any(|k| !k.as_str().is_ascii() || k.as_str().len() > 100 || k.as_str().chars().any(|c| "@{}!\"#$%&'()+,;<=>|`".contains(c))) {
        ctx.nontrivial(c);
        ctx.sample("roundtrip", c);
    }
    Ok(())
}

/// What verification is run against.
enum Lab<'a> {
    Mock { matching: &'a MockRepository, foreign: &'a MockRepository },
    Git(&'a GitLab),
}

struct GitLab {
    _tmp: tempfile::TempDir,
    repo: Repository,
    root_ok: Oid,
    foreign: Oid,
    nodoc: Oid,
    invalid: Oid,
    missing: Oid,
}

/// One honest signing event.
struct Event {
    key: PublicKey,
    refs: Map,
    sig: [u8; 64],
}

fn sig_bytes(s: &Signature) -> [u8; 64] {
    let mut b = [0u8; 64];
    b.copy_from_slice(s.as_ref());
    b
}

fn lines_of(text: &[u8]) -> Vec<Vec<u8>> {
    // canonical text: every line ends in '\n'
    text.split_inclusive(|b| *b == b'\n').map(|l| l.to_vec()).collect()
}

enum Presented {
    /// refs given as a value
    Struct(Map),
    /// refs given as blob text (goes through from_canonical / load_at)
    Blob(Vec<u8>),
}

fn check_tamper(ctx: &Ctx, lab: &Lab, c: &TamperCase) -> CaseResult {
    let ks = signers();
    let signer = &ks[c.key as usize % NKEYS];
    let key = *signer.public_key();
    let mut base = build_map(ctx, &c.refs);
    base.remove(&RefString::try_from(ROOT).unwrap());

    // Root mode: which oid is listed for refs/rad/root.
    let root_oid: Option<Oid> = match (lab, c.root) {
        (_, RootMode::NotListed) => None,
        (Lab::Mock { matching, .. }, RootMode::Matching) => Some(matching.doc.commit),
        (Lab::Mock { foreign, .. }, _) => Some(foreign.doc.commit),
        (Lab::Git(g), RootMode::Matching) => Some(g.root_ok),
        (Lab::Git(g), RootMode::Foreign) => Some(g.foreign),
        (Lab::Git(g), RootMode::MissingObject) => Some(g.missing),
        (Lab::Git(g), RootMode::NoDocument) => Some(g.nodoc),
        (Lab::Git(g), RootMode::InvalidDocument) => Some(g.invalid),
    };
    if let Some(o) = root_oid {
        base.insert(RefString::try_from(ROOT).unwrap(), o);
    }
    ctx.count(&format!("root:{:?}", c.root));
    let root_key = RefString::try_from(ROOT).unwrap();

    let refs = Refs::from(base.clone());
    let text = refs.canonical();
    let signed = refs.clone().signed(&Device::from(signer.clone())).map_err(|e| Fail { sig: "harness:sign".into(), msg: e.to_string() })?;
    let sig0 = sig_bytes(&signed.signature);
    let mut events = vec![Event { key, refs: base.clone(), sig: sig0 }];

    // Observation: `verify` and `verified` (Ok if either accepts; the value if `verified` accepts).
    let verify = |refs: Refs, k: PublicKey, s: [u8; 64]| -> Result<Option<SignedRefs<radicle::crypto::Verified>>, String> {
        let sr = SignedRefs::new(refs, k, Signature::from(s));
        let (a, b) = match lab {
            Lab::Mock { matching, foreign } => {
                let repo = if c.root == RootMode::Matching || c.root == RootMode::NotListed { matching } else { foreign };
                (sr.verify(*repo).is_ok(), sr.verified(*repo))
            }
            Lab::Git(g) => (sr.verify(&g.repo).is_ok(), sr.verified(&g.repo)),
        };
        if a != b.is_ok() {
            ctx.count("verify-and-verified-disagree");
        }
        match (a, b) {
            (_, Ok(v)) => Ok(Some(v)),
            (true, Err(_)) => Ok(None),
            (false, Err(e)) => Err(e.to_string()),
        }
    };

    let keys_of_base: Vec<RefString> = base.keys().cloned().collect();
    let idx = |i: u16, len: usize| -> usize { pick(i, len) };
    let mut any_parseable_mutation = false;

    for m in &c.muts {
        let kind = m.kind();
        let mut pk = key;
        let mut sg = sig0;
        let mut presented = Presented::Struct(base.clone());
        let ls = lines_of(&text);
        match m {
            Mut::Identity => {}
            Mut::SetOid { idx: i, byte, bit } => {
                if keys_of_base.is_empty() {
                    continue;
                }
                let k = &keys_of_base[idx(*i, keys_of_base.len())];
                let mut b = [0u8; 20];
                b.copy_from_slice(base[k].as_bytes());
                b[*byte as usize % 20] ^= 1 << (bit % 8);
                let mut r = base.clone();
                r.insert(k.clone(), oid(&b));
                presented = Presented::Struct(r);
            }
            Mut::Rename { idx: i, name } => {
                if keys_of_base.is_empty() {
                    continue;
                }
                let Ok(new) = RefString::try_from(name.as_str()) else { continue };
                let k = &keys_of_base[idx(*i, keys_of_base.len())];
                let mut r = base.clone();
                let o = r.remove(k).unwrap();
                r.insert(new, o);
                presented = Presented::Struct(r);
            }
            Mut::Insert { name, oid: o } => {
                let Ok(new) = RefString::try_from(name.as_str()) else { continue };
                let mut r = base.clone();
                r.insert(new, oid(o));
                presented = Presented::Struct(r);
            }
            Mut::Remove { idx: i } => {
                if keys_of_base.is_empty() {
                    continue;
                }
                let k = &keys_of_base[idx(*i, keys_of_base.len())];
                let mut r = base.clone();
                r.remove(k);
                presented = Presented::Struct(r);
            }
            Mut::BlobFlip { pos, bit } => {
                if text.is_empty() {
                    continue;
                }
                let mut t = text.clone();
                let p = idx(*pos, t.len());
                t[p] ^= 1 << (bit % 8);
                presented = Presented::Blob(t);
            }
            Mut::BlobSwapLines { i, j } => {
                if ls.len() < 2 {
                    continue;
                }
                let mut l = ls.clone();
                let (a, b) = (idx(*i, l.len()), idx(*j, l.len()));
                l.swap(a, b);
                presented = Presented::Blob(l.concat());
            }
            Mut::BlobDupLine { i } => {
                if ls.is_empty() {
                    continue;
                }
                let mut l = ls.clone();
                let a = idx(*i, l.len());
                l.push(l[a].clone());
                presented = Presented::Blob(l.concat());
            }
            Mut::BlobDropLine { i } => {
                if ls.is_empty() {
                    continue;
                }
                let mut l = ls.clone();
                l.remove(idx(*i, l.len()));
                presented = Presented::Blob(l.concat());
            }
            Mut::BlobZeroLine { name } => {
                let mut t = text.clone();
                t.extend_from_slice(format!("{} {}\n", "0".repeat(40), name).as_bytes());
                presented = Presented::Blob(t);
            }
            Mut::BlobZeroOid { i } => {
                if ls.is_empty() {
                    continue;
                }
                let mut l = ls.clone();
                let a = idx(*i, l.len());
                for b in l[a].iter_mut().take(40) {
                    *b = b'0';
                }
                presented = Presented::Blob(l.concat());
            }
            Mut::BlobAppendLine { name, oid: o } => {
                let mut t = text.clone();
                t.extend_from_slice(format!("{} {}\n", oid(o), name).as_bytes());
                presented = Presented::Blob(t);
            }
            Mut::BlobOverrideLine { i, byte, bit } => {
                if ls.is_empty() {
                    continue;
                }
                let a = idx(*i, ls.len());
                let mut line = ls[a].clone();
                // flip one hex digit of the oid of the repeated line
                let p = (*byte as usize) % 40;
                let d = (line[p] as char).to_digit(16).unwrap_or(0) ^ (1 << (bit % 4));
                line[p] = std::char::from_digit(d, 16).unwrap() as u8;
                let mut l = ls.clone();
                l.push(line);
                presented = Presented::Blob(l.concat());
            }
            Mut::BlobCrlf => {
                let t: Vec<u8> = text.iter().flat_map(|b| if *b == b'\n' { vec![b'\r', b'\n'] } else { vec![*b] }).collect();
                presented = Presented::Blob(t);
            }
            Mut::BlobNoFinalNewline => {
                let mut t = text.clone();
                t.pop();
                presented = Presented::Blob(t);
            }
            Mut::BlobShortOid { i, strip } => {
                if ls.is_empty() {
                    continue;
                }
                let mut l = ls.clone();
                let a = idx(*i, l.len());
                let n = 1 + (*strip as usize % 39);
                l[a].drain(40 - n..40);
                presented = Presented::Blob(l.concat());
            }
            Mut::BlobUpperHex { i } => {
                if ls.is_empty() {
                    continue;
                }
                let mut l = ls.clone();
                let a = idx(*i, l.len());
                for b in l[a].iter_mut().take(40) {
                    *b = b.to_ascii_uppercase();
                }
                presented = Presented::Blob(l.concat());
            }
            Mut::BlobTruncate { pos } => {
                if text.is_empty() {
                    continue;
                }
                let mut t = text.clone();
                t.truncate(idx(*pos, t.len()));
                presented = Presented::Blob(t);
            }
            Mut::SigFlip { bit } => sg[(*bit as usize % 512) / 8] ^= 1 << (bit % 8),
            Mut::SigZero => sg = [0u8; 64],
            Mut::SigReplayOtherSet { idx: i } | Mut::OtherSetWithItsSig { idx: i } => {
                // the owner honestly signed another set at some point
                let mut other = base.clone();
                if keys_of_base.is_empty() {
                    other.insert(RefString::try_from("refs/heads/replayed").unwrap(), oid(&[7u8; 20]));
                } else {
                    let k = &keys_of_base[idx(*i, keys_of_base.len())];
                    if k == &root_key {
                        other.insert(RefString::try_from("refs/heads/replayed").unwrap(), oid(&[7u8; 20]));
                    } else {
                        let mut b = [0u8; 20];
                        b.copy_from_slice(other[k].as_bytes());
                        b[19] ^= 1;
                        if b == [0u8; 20] {
                            b[0] = 1;
                        }
                        other.insert(k.clone(), oid(&b));
                    }
                }
                let s2 = sig_bytes(&signer.sign(&Refs::from(other.clone()).canonical()));
                events.push(Event { key, refs: other.clone(), sig: s2 });
                sg = s2;
                if matches!(m, Mut::OtherSetWithItsSig { .. }) {
                    presented = Presented::Struct(other);
                }
            }
            Mut::SigByOtherKey { key: k2 } => {
                let other = &ks[*k2 as usize % NKEYS];
                if *other.public_key() == key {
                    continue;
                }
                let s2 = sig_bytes(&other.sign(&text));
                events.push(Event { key: *other.public_key(), refs: base.clone(), sig: s2 });
                sg = s2;
            }
            Mut::KeyFlip { bit } => {
                let mut b: [u8; 32] = **key;
                b[*bit as usize / 8] ^= 1 << (bit % 8);
                pk = PublicKey::from(b);
            }
            Mut::KeyOther { key: k2 } => {
                let other = &ks[*k2 as usize % NKEYS];
                if *other.public_key() == key {
                    continue;
                }
                pk = *other.public_key();
            }
            Mut::Resign { key: k2 } => {
                let other = &ks[*k2 as usize % NKEYS];
                let s2 = sig_bytes(&other.sign(&text));
                events.push(Event { key: *other.public_key(), refs: base.clone(), sig: s2 });
                pk = *other.public_key();
                sg = s2;
            }
        }

        // Run it.
        let (parsed, result): (Map, Result<Option<SignedRefs<radicle::crypto::Verified>>, String>) = match &presented {
            Presented::Struct(r) => (r.clone(), verify(Refs::from(r.clone()), pk, sg)),
            Presented::Blob(t) => {
                let parsed = match Refs::from_canonical(t) {
                    Ok(p) => p,
                    Err(_) => {
                        ctx.count(&format!("mut:{kind}:unparseable"));
                        if let Lab::Git(g) = lab {
                            // if it is loadable nevertheless, what is accepted must have been signed
                            let at = g.commit_sigrefs(t, &sg);
                            if let Ok(v) = SignedRefs::load_at(at, pk, &g.repo) {
                                let got: Map = v.refs.clone().into();
                                ensure!(
                                    events.iter().any(|e| e.key == v.id && e.sig == sig_bytes(&v.signature) && e.refs == got) && v.id == pk,
                                    format!("verify:accepted-unsigned:{kind}"),
                                    "load_at accepted refs that were never signed (blob not parseable by from_canonical)"
                                );
                                ctx.count(&format!("mut:{kind}:unparseable-but-loaded"));
                            }
                        }
                        continue;
                    }
                };
                let map: Map = parsed.clone().into();
                match lab {
                    Lab::Git(g) => {
                        let at = g.commit_sigrefs(t, &sg);
                        let r = SignedRefs::load_at(at, pk, &g.repo).map(Some).map_err(|e| e.to_string());
                        // the direct entry point is observed as well
                        let direct = verify(parsed, pk, sg);
                        if r.is_ok() != direct.is_ok() {
                            ctx.count("load_at-and-verified-disagree");
                        }
                        let r = match (r, direct) {
                            (Ok(v), _) => Ok(v),
                            (Err(_), Ok(v)) => Ok(v),
                            (Err(e), Err(_)) => Err(e),
                        };
                        (map, r)
                    }
                    _ => (map, verify(parsed, pk, sg)),
                }
            }
        };
        any_parseable_mutation |= !matches!(m, Mut::Identity);

        let lists_root = parsed.contains_key(&root_key);
        let root_fine = if lists_root {
            match lab {
                // MockRepository resolves every oid to its one document: what matters is
                // whether that document is the identity of the repository verified against.
                Lab::Mock { .. } => c.root == RootMode::Matching || c.root == RootMode::NotListed,
                // the only commit in the lab whose document hashes to the repository id
                Lab::Git(g) => parsed.get(&root_key) == Some(&g.root_ok),
            }
        } else {
            true
        };
        let signed_event = events.iter().any(|e| e.key == pk && e.sig == sg && e.refs == parsed);
        let allowed = signed_event && root_fine;

        match result {
            Ok(v) => {
                ensure!(
                    signed_event,
                    format!("verify:accepted-unsigned:{kind}"),
                    "verification succeeded although (key, refs, signature) was never honestly signed; mutation {m:?}"
                );
                ensure!(
                    root_fine,
                    format!("verify:accepted-foreign-root:{kind}"),
                    "verification succeeded although the listed {ROOT} does not resolve to this repository's identity ({:?})",
                    c.root
                );
                if let Some(v) = v {
                    let got: Map = v.refs.clone().into();
                    ensure!(got == parsed, format!("verified:carries-other-refs:{kind}"), "accepted refs differ from the presented ones");
                    ensure!(v.id == pk, format!("verified:carries-other-key:{kind}"), "accepted key differs");
                    ensure!(sig_bytes(&v.signature) == sg, format!("verified:carries-other-signature:{kind}"), "accepted signature differs");
                }
                ctx.count(&format!("mut:{kind}:accepted(allowed)"));
                if matches!(m, Mut::Identity) {
                    ctx.count("honest-accepted");
                }
            }
            Err(_) => {
                if allowed {
                    ctx.count(&format!("mut:{kind}:rejected-though-allowed"));
                    if matches!(m, Mut::Identity) {
                        ctx.count("honest-rejected");
                    }
                } else {
                    ctx.count(&format!("mut:{kind}:rejected"));
                }
            }
        }
    }
    if !base.is_empty() && any_parseable_mutation {
        ctx.nontrivial(c);
        ctx.sample(if matches!(lab, Lab::Git(_)) { "tamper-git" } else { "tamper-mock" }, c);
    }
    Ok(())
}

impl GitLab {
    /// A commit with `refs` and `signature` blobs, as `rad/sigrefs` has.
    fn commit_sigrefs(&self, refs: &[u8], sig: &[u8; 64]) -> Oid {
        let raw = &self.repo.backend;
        let r = raw.blob(refs).expect("blob");
        let s = raw.blob(sig).expect("blob");
        let mut tb = raw.treebuilder(None).expect("treebuilder");
        tb.insert("refs", r, 0o100_644).expect("insert");
        tb.insert("signature", s, 0o100_644).expect("insert");
        let tree = raw.find_tree(tb.write().expect("tree")).expect("tree");
        let who = git2::Signature::new("verif", "verif@localhost", &git2::Time::new(1_700_000_000, 0)).expect("sig");
        raw.commit(None, &who, &who, "sigrefs", &tree, &[]).expect("commit").into()
    }

    fn commit_doc(raw: &git2::Repository, doc: Option<&[u8]>) -> Oid {
        let mut top = raw.treebuilder(None).expect("treebuilder");
        if let Some(bytes) = doc {
            let blob = raw.blob(bytes).expect("blob");
            let mut embeds = raw.treebuilder(None).expect("treebuilder");
            embeds.insert("radicle.json", blob, 0o100_644).expect("insert");
            top.insert("embeds", embeds.write().expect("tree"), 0o040_000).expect("insert");
        } else {
            let blob = raw.blob(b"nothing").expect("blob");
            top.insert("README", blob, 0o100_644).expect("insert");
        }
        let tree = raw.find_tree(top.write().expect("tree")).expect("tree");
        let who = git2::Signature::new("verif", "verif@localhost", &git2::Time::new(1_700_000_000, 0)).expect("sig");
        raw.commit(None, &who, &who, "doc", &tree, &[]).expect("commit").into()
    }

    fn new() -> Self {
        let ks = signers();
        let tmp = tempfile::tempdir().expect("tempdir");
        let user = radicle::git::UserInfo { alias: radicle::node::Alias::new("verif"), key: *ks[0].public_key() };
        let storage = Storage::open(tmp.path().join("storage"), user).expect("storage");
        let doc = fixed_doc(0);
        let other = fixed_doc(1);
        let (repo, root_ok) = Repository::init(&doc, &storage, &Device::from(ks[0].clone())).expect("init");
        let (_, other_bytes) = other.encode().expect("encode");
        let foreign = Self::commit_doc(&repo.backend, Some(&other_bytes));
        let nodoc = Self::commit_doc(&repo.backend, None);
        let (_, own) = doc.encode().expect("encode");
        let invalid_text = String::from_utf8(own).unwrap().replace("\"threshold\":1", "\"threshold\":0");
        assert!(invalid_text.contains("\"threshold\":0"));
        let invalid = Self::commit_doc(&repo.backend, Some(invalid_text.as_bytes()));
        let missing = oid(&[0xee; 20]);
        // sanity of the lab itself (harness knowledge used by the oracle)
        assert_eq!(*Doc::load_at(root_ok, &repo).expect("root doc").blob, **repo.id());
        assert_ne!(*Doc::load_at(foreign, &repo).expect("foreign doc").blob, **repo.id());
        assert!(Doc::load_at(nodoc, &repo).is_err());
        assert!(Doc::load_at(invalid, &repo).is_err());
        assert!(Doc::load_at(missing, &repo).is_err());
        GitLab { _tmp: tmp, repo, root_ok, foreign, nodoc, invalid, missing }
    }
}

fn fixed_doc(i: usize) -> Doc {
    let ks = signers();
    let project = Project::new(
        ProjectName::try_from(format!("verif{i}")).unwrap(),
        "signed refs lab".to_string(),
        RefString::try_from("master").unwrap(),
    )
    .unwrap();
    Doc::initial(project, Did::from(*ks[0].public_key()), Visibility::Public)
}

// ---------------------------------------------------------------------------
// Generators
// ---------------------------------------------------------------------------

const VALID_COMPS: &[&str] = &[
    // common
    "refs", "heads", "tags", "rad", "cobs", "notes", "namespaces", "remotes", "master", "main", "id", "sigrefs", "root",
    "xyz.radicle.issue", "xyz.radicle.patch", "a", "A", "0", "feature", "v1.0", "z6MknSLrJoTcukLrE435hVNQT4JUhbvWLX4kUzqkEStBU8Vi",
    "d96f425412c9f8ad5d9a9a05c9831d0728e2338d",
    // edges of the grammar that are still valid
    "-x", "x-", "a.b", "a.lockx", "lock", "a.lock.b", "@@", "a@b", "@a", "a@", "{", "}", "a{", "{a}", "!", "\"", "#", "$", "%",
    "&", "'", "(", ")", "+", ",", ";", "<", "=", ">", "|", "`", "a,b;c", "\u{e9}", "e\u{301}", "\u{65e5}\u{672c}", "\u{1f600}", "\u{a0}",
    "\u{2028}", "\u{85}", "\u{feff}", "\u{3000}", "\u{10ffff}", "0000000000000000000000000000000000000000",
];

/// Components that git's grammar forbids (RefString must filter these; counted).
const INVALID_COMPS: &[&str] = &[
    "a..b", ".a", "a.", "a.lock", "@", "a@{b", "a b", "a~", "a^", "a:", "a?", "a*", "a[", "a\\", "\u{7f}", "a\tb", "a\rb", "a\nb", "",
];

fn comp() -> impl Strategy<Value = String> {
    prop_oneof![
        40 => select(VALID_COMPS).prop_map(|s| s.to_string()),
        // concatenations: may form '..', '@{', '.lock' by accident, which is the point
        6 => (select(VALID_COMPS), select(VALID_COMPS)).prop_map(|(a, b)| format!("{a}{b}")),
        2 => (select(&["x", "\u{e9}", "ab", "\u{1f600}"][..]), 30usize..130).prop_map(|(s, n)| s.repeat(n)),
        4 => (any::<u32>()).prop_map(|n| format!("b{n:x}")),
        1 => select(INVALID_COMPS).prop_map(|s| s.to_string()),
    ]
}

fn valid_comp() -> impl Strategy<Value = String> {
    prop_oneof![
        10 => select(VALID_COMPS).prop_map(|s| s.to_string()),
        1 => (any::<u32>()).prop_map(|n| format!("b{n:x}")),
    ]
}

fn name() -> impl Strategy<Value = String> {
    prop_oneof![
        10 => (select(&["refs/heads", "refs/tags", "refs/cobs", "refs/notes", "refs/rad", "refs"][..]), proptest::collection::vec(comp(), 1..4))
            .prop_map(|(p, c)| format!("{p}/{}", c.join("/"))),
        3 => proptest::collection::vec(comp(), 1..6).prop_map(|c| c.join("/")),
        1 => proptest::collection::vec(valid_comp(), 20..40).prop_map(|c| format!("refs/{}", c.join("/"))),
        2 => select(&["refs/rad/id", "refs/rad/sigrefs", "refs/heads/master", "refs/heads/main", "HEAD", "refs/rad/root"][..]).prop_map(|s| s.to_string()),
    ]
}

fn oid20() -> impl Strategy<Value = Oid20> {
    prop_oneof![
        8 => any::<[u8; 20]>(),
        2 => any::<[u8; 20]>().prop_map(|mut b| { b[0] = 0; b[1] &= 0x0f; b }),
        3 => (any::<[u8; 20]>(), 1usize..19).prop_map(|(mut b, n)| { for x in b.iter_mut().skip(20 - n) { *x = 0; } b }),
        1 => Just([0xff; 20]),
        1 => Just({ let mut b = [0u8; 20]; b[19] = 1; b }),
        1 => Just({ let mut b = [0u8; 20]; b[0] = 0x10; b }),
    ]
    .prop_map(|mut b| {
        if b == [0u8; 20] {
            b[19] = 1;
        }
        b
    })
}

fn ref_set(max_big: usize) -> BoxedStrategy<Vec<(String, Oid20)>> {
    let entry = || (name(), oid20());
    prop_oneof![
        1 => Just(vec![]),
        2 => proptest::collection::vec(entry(), 1..2),
        8 => proptest::collection::vec(entry(), 2..10),
        2 => proptest::collection::vec(entry(), 10..40),
        1 => proptest::collection::vec(entry(), max_big / 2..=max_big),
    ]
    .boxed()
}

fn mutation() -> impl Strategy<Value = Mut> {
    prop_oneof![
        1 => Just(Mut::Identity),
        3 => (any::<u16>(), any::<u8>(), any::<u8>()).prop_map(|(idx, byte, bit)| Mut::SetOid { idx, byte, bit }),
        2 => (any::<u16>(), name()).prop_map(|(idx, name)| Mut::Rename { idx, name }),
        2 => (name(), oid20()).prop_map(|(name, oid)| Mut::Insert { name, oid }),
        2 => any::<u16>().prop_map(|idx| Mut::Remove { idx }),
        4 => (any::<u16>(), any::<u8>()).prop_map(|(pos, bit)| Mut::BlobFlip { pos, bit }),
        1 => (any::<u16>(), any::<u16>()).prop_map(|(i, j)| Mut::BlobSwapLines { i, j }),
        1 => any::<u16>().prop_map(|i| Mut::BlobDupLine { i }),
        2 => any::<u16>().prop_map(|i| Mut::BlobDropLine { i }),
        1 => name().prop_map(|name| Mut::BlobZeroLine { name }),
        1 => any::<u16>().prop_map(|i| Mut::BlobZeroOid { i }),
        2 => (name(), oid20()).prop_map(|(name, oid)| Mut::BlobAppendLine { name, oid }),
        2 => (any::<u16>(), any::<u8>(), any::<u8>()).prop_map(|(i, byte, bit)| Mut::BlobOverrideLine { i, byte, bit }),
        1 => Just(Mut::BlobCrlf),
        1 => Just(Mut::BlobNoFinalNewline),
        2 => (any::<u16>(), any::<u8>()).prop_map(|(i, strip)| Mut::BlobShortOid { i, strip }),
        1 => any::<u16>().prop_map(|i| Mut::BlobUpperHex { i }),
        1 => any::<u16>().prop_map(|pos| Mut::BlobTruncate { pos }),
        4 => any::<u16>().prop_map(|bit| Mut::SigFlip { bit }),
        1 => Just(Mut::SigZero),
        2 => any::<u16>().prop_map(|idx| Mut::SigReplayOtherSet { idx }),
        1 => any::<u16>().prop_map(|idx| Mut::OtherSetWithItsSig { idx }),
        2 => any::<u8>().prop_map(|key| Mut::SigByOtherKey { key }),
        4 => any::<u8>().prop_map(|bit| Mut::KeyFlip { bit }),
        2 => any::<u8>().prop_map(|key| Mut::KeyOther { key }),
        1 => any::<u8>().prop_map(|key| Mut::Resign { key }),
    ]
}

fn tamper_case(git: bool, nmut: usize) -> impl Strategy<Value = TamperCase> {
    let root = if git {
        prop_oneof![
            3 => Just(RootMode::NotListed),
            3 => Just(RootMode::Matching),
            2 => Just(RootMode::Foreign),
            1 => Just(RootMode::MissingObject),
            1 => Just(RootMode::NoDocument),
            1 => Just(RootMode::InvalidDocument),
        ]
        .boxed()
    } else {
        prop_oneof![3 => Just(RootMode::NotListed), 3 => Just(RootMode::Matching), 2 => Just(RootMode::Foreign)].boxed()
    };
    (ref_set(60), any::<u8>(), root, proptest::collection::vec(mutation(), nmut..=nmut))
        .prop_map(|(refs, key, root, muts)| TamperCase { refs, key, root, muts })
}

fn run(ctx: &Ctx) {
    let _ = signers();
    std::env::set_var("GIT_COMMITTER_DATE", "1700000000");

    ctx.run("roundtrip", ref_set(200).prop_map(|refs| RoundCase { refs }), ctx.cases(5_000, 200_000), |c: &RoundCase| check_round(ctx, c));

    {
        let doc = fixed_doc(0);
        let (blob, _) = doc.encode().expect("encode");
        let matching = MockRepository::new(RepoId::from(blob), doc.clone());
        let foreign = MockRepository::new(RepoId::from(oid(&[0x42; 20])), doc);
        let lab = Lab::Mock { matching: &matching, foreign: &foreign };
        ctx.run("tamper-mock", tamper_case(false, 20), ctx.cases(5_000, 200_000), |c: &TamperCase| check_tamper(ctx, &lab, c));
    }
    {
        let g = GitLab::new();
        let lab = Lab::Git(&g);
        ctx.run("tamper-git", tamper_case(true, 12), ctx.cases(400, 12_000), |c: &TamperCase| check_tamper(ctx, &lab, c));
    }
}
