//! C03 — Canonical branch head is backed by the delegate threshold.
//!
//! Commit DAGs are created with raw git2 in a scratch bare repository; every
//! delegate's tip is installed as `refs/namespaces/<nid>/refs/heads/<branch>`
//! and read back through the same path the real callers use:
//! `Canonical::reference(..)` (+ `modify_vote`, as the push helper does) and
//! `quorum(..)`; a second sub-check goes through a real storage repository
//! with an identity document: `Repository::canonical_head` / `set_head` and the
//! resulting `HEAD`. The verdict is compared with a model that computes
//! ancestry from the generator's own parent lists (never from git).
use std::cell::RefCell;
use std::collections::{BTreeMap, BTreeSet};

use proptest::collection::vec;
use proptest::prelude::*;
use radicle::git::canonical::{Canonical, QuorumError};
use radicle::git::raw as git2;
use radicle::identity::doc::Delegates;
use radicle::identity::{Did, RawDoc, Visibility};
use radicle::node::device::Device;
use radicle::storage::git::{Repository, Storage};
use radicle::storage::{ReadRepository, RepositoryError, WriteRepository};
use serde::{Deserialize, Serialize};

use crate::core::*;
use crate::ensure;

pub const PROP: Prop = Prop {
    id: "C03",
    shards: (4, 16),
    level: "exploration",
    rule: "A case is (commit DAG as parent lists over <= 10 commits, salt that changes all object ids, 1..6 \
           delegates each with a tip or no ref, threshold 1..n, branch name, a non-delegate ref, a decoy ref \
           on another branch, an optional push-style vote modification). Random cases draw the tips from a pool \
           of <= 4 commits; the exhaustive sub-checks enumerate every tip assignment (each delegate: no ref or \
           any commit) and every threshold for 1..4 delegates (quick: 1..3) over 8 fixed DAGs (linear, fork, \
           trident, diamond, merge+side branch, criss-cross, double merge, two roots) x several salts. \
           Non-trivial: >= 2 delegates share a tip that has a strict descendant among the tips, or >= 2 tips \
           have support >= threshold. Distinct = hash of the whole case.",
    assumptions: &[
        "threshold is in 1..=#delegates and delegates are distinct (enforced by identity::Doc)",
        "every delegate tip is a commit that exists in the repository the quorum is computed in",
        "a spurious error while a unique maximal supported tip exists is counted, not failed (the statement does not forbid it)",
    ],
    run,
    budget_s: (900, 7200),
};

const MAX_DELEGATES: usize = 6;
const STRANGER: usize = 6;
const BRANCHES: [&str; 3] = ["master", "main", "release/1.x"];
/// Scratch repositories are thrown away after this many cases (bounds the
/// number of loose objects on tmpfs).
const RECYCLE: usize = 400;

#[derive(Debug, Clone, Serialize, Deserialize, Hash, PartialEq, Eq)]
pub struct Case {
    /// commit i has parents `parents[i]` (all < i); empty = root commit
    parents: Vec<Vec<u8>>,
    /// mixed into every commit message: changes all object ids and hence their order
    salt: u8,
    /// tips[d] = commit index of delegate d's branch, or None when it has no ref; len = #delegates
    tips: Vec<Option<u8>>,
    threshold: u8,
    /// index into BRANCHES (reference sub-checks; the storage sub-check uses the default branch)
    branch: u8,
    /// a non-delegate's ref on the same branch
    stranger: Option<u8>,
    /// delegate 0's ref on another branch
    decoy: Option<u8>,
    /// `modify_vote(delegate, commit)` after the refs were read (reference sub-checks only)
    modify: Option<(u8, u8)>,
    /// value of HEAD / default branch before `set_head` (storage sub-check only)
    prev_head: Option<u8>,
}

// ---------------------------------------------------------------------------
// Model
// ---------------------------------------------------------------------------

struct Model {
    /// anc[i] = bitmask of ancestors of i, including i
    anc: Vec<u16>,
}

impl Model {
    fn new(parents: &[Vec<u8>]) -> Self {
        let mut anc = vec![0u16; parents.len()];
        for (i, ps) in parents.iter().enumerate() {
            let mut m = 1u16 << i;
            for p in ps {
                assert!((*p as usize) < i, "parent index must be smaller than the child's");
                m |= anc[*p as usize];
            }
            anc[i] = m;
        }
        Model { anc }
    }
    /// x is y or a descendant of y
    fn descends(&self, x: usize, y: usize) -> bool {
        self.anc[x] >> y & 1 == 1
    }
}

struct Expect {
    /// distinct tips
    tips: BTreeSet<usize>,
    /// support per distinct tip: number of distinct delegates whose tip is it or a descendant
    support: BTreeMap<usize, usize>,
    /// tips with support >= threshold
    supported: BTreeSet<usize>,
    /// the element of `supported` that descends from (or equals) all of them, if any
    top: Option<usize>,
}

fn expect(m: &Model, tips: &[Option<usize>], threshold: usize) -> Expect {
    let distinct: BTreeSet<usize> = tips.iter().flatten().copied().collect();
    let mut support = BTreeMap::new();
    for c in &distinct {
        // one per delegate: `tips` has one entry per distinct delegate
        let s = tips.iter().flatten().filter(|t| m.descends(**t, *c)).count();
        support.insert(*c, s);
    }
    let supported: BTreeSet<usize> = distinct.iter().copied().filter(|c| support[c] >= threshold).collect();
    let top = supported.iter().copied().find(|x| supported.iter().all(|s| m.descends(*x, *s)));
    Expect { tips: distinct, support, supported, top }
}

#[derive(Debug, Clone, PartialEq)]
enum Outcome {
    /// commit index, or the raw id when it is not one of the DAG's commits
    Head(Result<usize, String>),
    Diverging,
    NoCandidates,
    Git(String),
    Other(String),
}

fn outcome_of(r: Result<radicle::git::Oid, QuorumError>, oids: &[git2::Oid]) -> Outcome {
    match r {
        Ok(h) => Outcome::Head(oids.iter().position(|o| *o == *h).ok_or_else(|| h.to_string())),
        Err(QuorumError::Diverging(_)) => Outcome::Diverging,
        Err(QuorumError::NoCandidates(_)) => Outcome::NoCandidates,
        Err(QuorumError::Git(e)) => Outcome::Git(e.to_string()),
    }
}

/// The oracle. `what` names the observation point (stable, part of the signature).
fn judge(ctx: &Ctx, what: &str, c: &Case, m: &Model, e: &Expect, threshold: usize, out: &Outcome) -> CaseResult {
    match out {
        Outcome::Head(h) => {
            ctx.count(&format!("{what}:result=head"));
            let h = match h {
                Ok(h) => *h,
                Err(raw) => {
                    return fail(format!("{what}:head-not-a-tip"), format!("head {raw} is not a commit of the DAG; {c:?}"))
                }
            };
            ensure!(
                e.tips.contains(&h),
                format!("{what}:head-not-a-tip"),
                "head c{h} is not the tip of any delegate (tips {:?}); {c:?}",
                e.tips
            );
            ensure!(
                !e.supported.is_empty(),
                format!("{what}:head-with-no-supported-tip"),
                "head c{h} returned although no tip has {threshold} distinct supporters (support {:?}); {c:?}",
                e.support
            );
            ensure!(
                e.support[&h] >= threshold,
                format!("{what}:head-support-below-threshold"),
                "head c{h} is backed by {} distinct delegates, threshold {threshold} (support {:?}); {c:?}",
                e.support[&h],
                e.support
            );
            ensure!(
                e.top.is_some(),
                format!("{what}:head-despite-divergent-supported-tips"),
                "head c{h} returned although the supported tips {:?} are divergent with none descending from all; {c:?}",
                e.supported
            );
            for s in &e.supported {
                ensure!(
                    !(*s != h && m.descends(*s, h)),
                    format!("{what}:head-not-maximal"),
                    "head c{h} but supported tip c{s} strictly descends from it (supported {:?}); {c:?}",
                    e.supported
                );
            }
        }
        err => {
            let kind = match err {
                Outcome::Diverging => "diverging",
                Outcome::NoCandidates => "no-candidates",
                Outcome::Git(_) => "git-error",
                _ => "other-error",
            };
            ctx.count(&format!("{what}:result={kind}"));
            if e.top.is_some() {
                // Not forbidden by the statement: counted and sampled.
                ctx.count(&format!("{what}:spurious-error:{kind}"));
                ctx.sample(&format!("{what}:spurious-error:{kind}"), (c, format!("{err:?}"), format!("expected head c{}", e.top.unwrap())));
            } else if e.supported.is_empty() && matches!(err, Outcome::Diverging) {
                ctx.count(&format!("{what}:diverging-reported-but-no-tip-is-supported"));
            } else if !e.supported.is_empty() && matches!(err, Outcome::NoCandidates) {
                ctx.count(&format!("{what}:no-candidates-reported-but-supported-tips-diverge"));
            }
            if let Outcome::Other(msg) = err {
                // canonical_head/set_head failing for a reason other than the quorum: harness trouble.
                panic!("unexpected error from {what}: {msg}");
            }
        }
    }
    Ok(())
}

// ---------------------------------------------------------------------------
// Scratch repositories
// ---------------------------------------------------------------------------

fn keys() -> Vec<Device<radicle::crypto::test::signer::MockSigner>> {
    (0..=STRANGER).map(|i| Device::mock_from_seed([0xC0 + i as u8; 32])).collect()
}

fn branch_ref(did: &Did, branch: &str) -> String {
    // Written out independently of the code under test: refs/namespaces/<nid>/refs/heads/<branch>
    format!("refs/namespaces/{}/refs/heads/{branch}", did.as_key())
}

/// A repository plus the refs we installed in it.
struct Scratch {
    repo: Repository,
    cur: BTreeMap<String, git2::Oid>,
    tree: git2::Oid,
    /// commits already written to this repository, per (parents, salt)
    dags: BTreeMap<(Vec<Vec<u8>>, u8), Vec<git2::Oid>>,
}

impl Scratch {
    fn new(repo: Repository) -> Self {
        let tree = repo.backend.treebuilder(None).unwrap().write().unwrap();
        Scratch { repo, cur: BTreeMap::new(), tree, dags: BTreeMap::new() }
    }

    /// Create the DAG's commits (object ids are a pure function of `parents` and `salt`).
    fn commits(&mut self, parents: &[Vec<u8>], salt: u8) -> Vec<git2::Oid> {
        if let Some(oids) = self.dags.get(&(parents.to_vec(), salt)) {
            return oids.clone();
        }
        let raw = &self.repo.backend;
        let sig = git2::Signature::new("c03", "c03@localhost", &git2::Time::new(1_700_000_000, 0)).unwrap();
        let tree = raw.find_tree(self.tree).unwrap();
        let mut oids: Vec<git2::Oid> = Vec::with_capacity(parents.len());
        for (i, ps) in parents.iter().enumerate() {
            let pcs: Vec<git2::Commit> = ps.iter().map(|p| raw.find_commit(oids[*p as usize]).unwrap()).collect();
            let prefs: Vec<&git2::Commit> = pcs.iter().collect();
            let oid = raw.commit(None, &sig, &sig, &format!("c{i} salt {salt}"), &tree, &prefs).unwrap();
            oids.push(oid);
        }
        // distinct commits must have distinct ids (message carries the index)
        debug_assert_eq!(oids.iter().collect::<BTreeSet<_>>().len(), oids.len());
        self.dags.insert((parents.to_vec(), salt), oids.clone());
        oids
    }

    /// Make the set of refs under our control exactly `want`.
    fn install(&mut self, want: BTreeMap<String, git2::Oid>) {
        let raw = &self.repo.backend;
        for name in self.cur.keys() {
            if !want.contains_key(name) {
                raw.find_reference(name).unwrap().delete().unwrap();
            }
        }
        for (name, oid) in &want {
            if self.cur.get(name) != Some(oid) {
                raw.reference(name, *oid, true, "c03").unwrap();
            }
        }
        self.cur = want;
    }
}

struct StorageLab {
    _tmp: tempfile::TempDir,
    storage: Storage,
    repos: BTreeMap<(usize, usize), Scratch>,
}

struct Lab {
    keys: Vec<Device<radicle::crypto::test::signer::MockSigner>>,
    dids: Vec<Did>,
    plain: Option<(tempfile::TempDir, Scratch)>,
    plain_uses: usize,
    stor: Option<StorageLab>,
    stor_uses: usize,
}

/// Writing a loose object allocates and frees a deflate state of a few hundred KiB; with glibc's
/// default trim threshold every such write grows and shrinks the heap with two `brk` calls, which
/// dominated the run time. Keep freed memory in the process instead.
fn tune_malloc() {
    #[cfg(all(target_os = "linux", target_env = "gnu"))]
    {
        extern "C" {
            fn mallopt(param: i32, value: i32) -> i32;
        }
        const M_TRIM_THRESHOLD: i32 = -1;
        const M_TOP_PAD: i32 = -2;
        unsafe {
            mallopt(M_TRIM_THRESHOLD, 1 << 30);
            mallopt(M_TOP_PAD, 16 << 20);
        }
    }
}

impl Lab {
    fn new() -> Self {
        tune_malloc();
        let keys = keys();
        let dids = keys.iter().map(|k| Did::from(*k.public_key())).collect();
        Lab { keys, dids, plain: None, plain_uses: 0, stor: None, stor_uses: 0 }
    }

    /// A bare repository created with raw git2, wrapped as a storage repository
    /// (only `reference_oid` is used by `Canonical::reference`).
    fn plain(&mut self) -> &mut Scratch {
        if self.plain_uses >= RECYCLE {
            self.plain = None;
            self.plain_uses = 0;
        }
        self.plain_uses += 1;
        if self.plain.is_none() {
            let tmp = crate::lab::tempdir();
            let backend = git2::Repository::init_opts(
                tmp.path().join("plain.git"),
                git2::RepositoryInitOptions::new().bare(true).external_template(false),
            )
            .unwrap();
            // the repository id plays no role in the computation
            let id = radicle::identity::RepoId::from(git2::Oid::from_bytes(&[7u8; 20]).unwrap());
            self.plain = Some((tmp, Scratch::new(Repository { id, backend })));
        }
        &mut self.plain.as_mut().unwrap().1
    }

    /// A real storage repository whose identity document names delegates 0..n with `threshold`.
    fn storage_repo(&mut self, n: usize, threshold: usize) -> &mut Scratch {
        if self.stor_uses >= RECYCLE {
            self.stor = None;
            self.stor_uses = 0;
        }
        self.stor_uses += 1;
        if self.stor.is_none() {
            let tmp = crate::lab::tempdir();
            let storage = Storage::open(
                tmp.path().join("storage"),
                radicle::git::UserInfo { alias: "c03".parse().unwrap(), key: *self.keys[0].public_key() },
            )
            .unwrap();
            self.stor = Some(StorageLab { _tmp: tmp, storage, repos: BTreeMap::new() });
        }
        let dids = &self.dids;
        let keys = &self.keys;
        let lab = self.stor.as_mut().unwrap();
        let storage = &lab.storage;
        lab.repos.entry((n, threshold)).or_insert_with(|| {
            let project = radicle::identity::project::Project::new(
                format!("c03-{n}-{threshold}").try_into().unwrap(),
                "canonical head lab".to_string(),
                radicle::git::RefString::try_from(BRANCHES[0]).unwrap(),
            )
            .unwrap();
            let doc = RawDoc::new(project, dids[..n].to_vec(), threshold, Visibility::Public).verified().unwrap();
            let (repo, commit) = Repository::init(&doc, storage, &keys[0]).unwrap();
            repo.set_identity_head_to(commit).unwrap();
            repo.backend.set_head(&format!("refs/heads/{}", BRANCHES[0])).unwrap();
            Scratch::new(repo)
        })
    }
}

// ---------------------------------------------------------------------------
// Case evaluation
// ---------------------------------------------------------------------------

/// Classification counters; returns whether the case is non-trivial.
fn classify(ctx: &Ctx, c: &Case, m: &Model, tips: &[Option<usize>], e: &Expect, threshold: usize) -> bool {
    let n = c.tips.len();
    ctx.count(&format!("delegates={n}"));
    ctx.count(&format!("commits={}", c.parents.len()));
    ctx.count(&format!("distinct-tips={}", e.tips.len()));
    ctx.count(&format!("supported-tips={}", e.supported.len().min(3)));
    if tips.iter().any(|t| t.is_none()) {
        ctx.count("some-delegate-without-ref");
    }
    if c.parents.iter().any(|p| p.len() >= 2) {
        ctx.count("dag:has-merge");
    }
    let mut kids = vec![0usize; c.parents.len()];
    for ps in &c.parents {
        for p in ps.iter().collect::<BTreeSet<_>>() {
            kids[*p as usize] += 1;
        }
    }
    if kids.iter().any(|k| *k >= 2) {
        ctx.count("dag:has-fork");
    }
    if c.parents.iter().filter(|p| p.is_empty()).count() >= 2 {
        ctx.count("dag:multi-root");
    }
    let merges: Vec<BTreeSet<u8>> =
        c.parents.iter().filter(|p| p.len() >= 2).map(|p| p.iter().copied().collect()).collect();
    if merges.iter().enumerate().any(|(i, a)| merges[i + 1..].contains(a)) {
        ctx.count("dag:criss-cross");
    }
    match (e.supported.is_empty(), e.top) {
        (true, _) => ctx.count("expected:no-supported-tip"),
        (false, Some(_)) => ctx.count("expected:unique-maximal-supported-tip"),
        (false, None) => ctx.count("expected:divergent-supported-tips"),
    }
    // sharing: a tip held by >= 2 delegates that has a strict descendant among the tips
    let mut shared_with_desc = false;
    let mut overcount_exposed = false;
    for t in &e.tips {
        let holders = tips.iter().flatten().filter(|x| *x == t).count();
        let desc = tips.iter().flatten().filter(|x| *x != t && m.descends(**x, *t)).count();
        if holders >= 2 && desc >= 1 {
            shared_with_desc = true;
            // one vote per (holder, descendant) pair would give holders*(1+desc) votes
            if holders * (1 + desc) >= threshold && threshold > holders + desc {
                overcount_exposed = true;
            }
        }
    }
    if shared_with_desc {
        ctx.count("shared-tip-with-descendant-tip");
    }
    if overcount_exposed {
        ctx.count("pair-votes-would-pass-threshold-but-distinct-supporters-do-not");
    }
    let nontrivial = shared_with_desc || e.supported.len() >= 2;
    if nontrivial {
        ctx.nontrivial(c);
    }
    nontrivial
}

fn model_tips(c: &Case) -> Vec<Option<usize>> {
    let nc = c.parents.len();
    assert!((1..=MAX_DELEGATES).contains(&c.tips.len()), "1..=6 delegates");
    assert!((1..=c.tips.len()).contains(&(c.threshold as usize)), "threshold in 1..=n");
    assert!((1..=16).contains(&nc));
    let t: Vec<Option<usize>> = c.tips.iter().map(|t| t.map(|x| x as usize)).collect();
    assert!(t.iter().flatten().all(|x| *x < nc));
    t
}

/// `Canonical::reference` (+ `modify_vote`) + `quorum` on a raw git2 repository.
fn check_reference(ctx: &Ctx, lab: &RefCell<Lab>, c: &Case) -> CaseResult {
    let mut lab = lab.borrow_mut();
    let dids = lab.dids.clone();
    let n = c.tips.len();
    let threshold = c.threshold as usize;
    let m = Model::new(&c.parents);
    let mut tips = model_tips(c);
    let nc = c.parents.len();
    let branch = BRANCHES[c.branch as usize % BRANCHES.len()];
    let other = BRANCHES[(c.branch as usize + 1) % BRANCHES.len()];

    let scratch = lab.plain();
    let oids = scratch.commits(&c.parents, c.salt);
    let mut want = BTreeMap::new();
    for (d, t) in tips.iter().enumerate() {
        if let Some(t) = t {
            want.insert(branch_ref(&dids[d], branch), oids[*t]);
        }
    }
    if let Some(s) = c.stranger {
        want.insert(branch_ref(&dids[STRANGER], branch), oids[s as usize % nc]);
        ctx.count("stranger-ref-present");
    }
    if let Some(s) = c.decoy {
        want.insert(branch_ref(&dids[0], other), oids[s as usize % nc]);
        ctx.count("decoy-ref-present");
    }
    scratch.install(want);

    let delegates = Delegates::new(dids[..n].iter().copied()).unwrap();
    let refname = radicle::git::refs::branch(&radicle::git::RefString::try_from(branch).unwrap());
    let mut canonical = Canonical::reference(&scratch.repo, &refname, delegates.as_ref(), threshold)
        .expect("Canonical::reference on existing refs");
    {
        let read: BTreeMap<Did, git2::Oid> = canonical.tips().map(|(d, o)| (*d, **o)).collect();
        let installed: BTreeMap<Did, git2::Oid> =
            tips.iter().enumerate().filter_map(|(d, t)| t.map(|t| (dids[d], oids[t]))).collect();
        if read != installed {
            ctx.count("reference:tips-differ-from-installed-refs");
        }
        if canonical.is_empty() != installed.is_empty() {
            ctx.count("reference:is_empty-disagrees");
        }
    }
    if let Some((d, t)) = c.modify {
        let (d, t) = (d as usize % n, t as usize % nc);
        canonical.modify_vote(dids[d], oids[t].into());
        tips[d] = Some(t);
        ctx.count("vote-modified");
    }
    let e = expect(&m, &tips, threshold);
    let nontrivial = classify(ctx, c, &m, &tips, &e, threshold);
    let out = outcome_of(canonical.quorum(&scratch.repo.backend), &oids);
    if nontrivial && c.tips.len() >= 4 {
        ctx.sample("reference", (c, format!("{out:?}")));
    }
    judge(ctx, "quorum", c, &m, &e, threshold, &out)
}

fn outcome_of_repo<T>(r: Result<T, RepositoryError>, oid: impl Fn(&T) -> radicle::git::Oid, oids: &[git2::Oid]) -> Outcome {
    match r {
        Ok(v) => outcome_of(Ok(oid(&v)), oids),
        Err(RepositoryError::Quorum(q)) => outcome_of(Err(q), oids),
        Err(e) => Outcome::Other(e.to_string()),
    }
}

/// `Repository::canonical_head` / `set_head` / `HEAD` on a storage repository
/// with an identity document (delegates 0..n, threshold).
fn check_storage(ctx: &Ctx, lab: &RefCell<Lab>, c: &Case) -> CaseResult {
    let mut lab = lab.borrow_mut();
    let dids = lab.dids.clone();
    let n = c.tips.len();
    let threshold = c.threshold as usize;
    let m = Model::new(&c.parents);
    let tips = model_tips(c);
    let nc = c.parents.len();
    let branch = BRANCHES[0];

    let scratch = lab.storage_repo(n, threshold);
    let oids = scratch.commits(&c.parents, c.salt);
    let mut want = BTreeMap::new();
    for (d, t) in tips.iter().enumerate() {
        if let Some(t) = t {
            want.insert(branch_ref(&dids[d], branch), oids[*t]);
        }
    }
    if let Some(s) = c.stranger {
        want.insert(branch_ref(&dids[STRANGER], branch), oids[s as usize % nc]);
    }
    if let Some(s) = c.decoy {
        want.insert(branch_ref(&dids[0], BRANCHES[1]), oids[s as usize % nc]);
    }
    // HEAD is symbolic to refs/heads/<default>; give it the case's previous value (or leave it unborn)
    let head_ref = format!("refs/heads/{branch}");
    if let Some(p) = c.prev_head {
        want.insert(head_ref.clone(), oids[p as usize % nc]);
        ctx.count("previous-head-present");
    }
    scratch.install(want);
    let repo = &scratch.repo;
    let head_before = repo.backend.refname_to_id("HEAD").ok();

    let e = expect(&m, &tips, threshold);
    let nontrivial = classify(ctx, c, &m, &tips, &e, threshold);

    let out = outcome_of_repo(repo.canonical_head(), |(_, oid)| *oid, &oids);
    if nontrivial && c.tips.len() >= 3 {
        ctx.sample("storage", (c, format!("{out:?}")));
    }
    judge(ctx, "canonical_head", c, &m, &e, threshold, &out)?;

    let out = outcome_of_repo(repo.set_head(), |sh| sh.new, &oids);
    let r = judge(ctx, "set_head", c, &m, &e, threshold, &out);
    let head_after = repo.backend.refname_to_id("HEAD").ok();
    // set_head may have written refs/heads/<default>: keep our book-keeping in sync
    match head_after {
        Some(h) => {
            scratch.cur.insert(head_ref, h);
        }
        None => {
            scratch.cur.remove(&head_ref);
        }
    }
    r?;
    if matches!(out, Outcome::Head(_)) || head_after != head_before {
        if head_after != head_before {
            ctx.count("HEAD:moved");
        }
        let seen = match head_after {
            Some(h) => Outcome::Head(oids.iter().position(|o| *o == h).ok_or_else(|| h.to_string())),
            None => Outcome::Other("HEAD became unborn".into()),
        };
        judge(ctx, "HEAD", c, &m, &e, threshold, &seen)?;
        if let (Outcome::Head(a), Outcome::Head(b)) = (&out, &seen) {
            if a != b {
                ctx.count("HEAD:differs-from-set_head-result");
            }
        }
    }
    Ok(())
}

// ---------------------------------------------------------------------------
// Generators
// ---------------------------------------------------------------------------

const MAX_COMMITS: usize = 10;

fn dag(spec: &[&[u8]]) -> Vec<Vec<u8>> {
    spec.iter().map(|p| p.to_vec()).collect()
}

fn dag_strategy() -> impl Strategy<Value = Vec<Vec<u8>>> {
    let template = prop_oneof![
        4 => Just(dag(&[&[]])),
        2 => Just(dag(&[&[], &[0], &[0], &[1, 2], &[2, 1]])), // criss-cross
        2 => Just(dag(&[&[], &[0], &[0], &[1, 2]])),          // diamond
        2 => Just(dag(&[&[], &[0], &[0]])),                   // fork
        1 => Just(dag(&[&[], &[]])),                          // unrelated histories
    ];
    (template, 0..=MAX_COMMITS, 0u8..3, vec((0u8..10, any::<u16>(), any::<u16>()), MAX_COMMITS)).prop_map(
        |(mut parents, extra, window, steps): (Vec<Vec<u8>>, usize, u8, Vec<(u8, u16, u16)>)| {
            let multi_root = parents.iter().filter(|p| p.is_empty()).count() >= 2;
            for (kind, a, b) in steps.into_iter().take(extra) {
                let i = parents.len();
                if i >= MAX_COMMITS {
                    break;
                }
                // candidates: all earlier commits, or only the most recent ones (deeper histories)
                let w = match window {
                    0 => i,
                    1 => i.min(2),
                    _ => i.min(4),
                };
                let p1 = i - w + pick(a, w);
                let p2 = i - w + pick(b, w);
                let ps = match kind {
                    0..=5 => vec![p1 as u8],
                    6..=8 if p1 != p2 => vec![p1 as u8, p2 as u8],
                    9 if multi_root => vec![],
                    _ => vec![p1 as u8],
                };
                parents.push(ps);
            }
            parents
        },
    )
}

fn random_case() -> impl Strategy<Value = Case> {
    (dag_strategy(), 0u8..8, 1..=MAX_DELEGATES).prop_flat_map(|(parents, salt, n)| {
        (
            Just(parents),
            Just(salt),
            // pool of <= 4 commits the tips are drawn from
            vec(any::<u16>(), 1..=4),
            // per delegate: (no ref when 0, pool index)
            vec((0u8..7, any::<u16>()), n),
            // threshold: uniform over 1..=n, or one of the two largest values
            (any::<bool>(), any::<u16>()),
            0u8..3,
            proptest::option::weighted(0.5, any::<u16>()),
            proptest::option::weighted(0.5, any::<u16>()),
            proptest::option::weighted(0.25, (any::<u16>(), any::<u16>())),
            proptest::option::weighted(0.6, any::<u16>()),
        )
            .prop_map(|(parents, salt, pool, picks, thr, branch, stranger, decoy, modify, prev)| {
                let nc = parents.len();
                let n = picks.len();
                let pool: Vec<u8> = pool.iter().map(|p| pick(*p, nc) as u8).collect();
                let tips =
                    picks.iter().map(|(none, p)| if *none == 0 { None } else { Some(pool[pick(*p, pool.len())]) }).collect();
                Case {
                    parents,
                    salt,
                    tips,
                    threshold: if thr.0 { 1 + pick(thr.1, n) as u8 } else { (n - pick(thr.1, 2.min(n))) as u8 },
                    branch,
                    stranger: stranger.map(|s| pick(s, nc) as u8),
                    decoy: decoy.map(|s| pick(s, nc) as u8),
                    modify: modify.map(|(d, t)| (pick(d, n) as u8, pick(t, nc) as u8)),
                    prev_head: prev.map(|s| pick(s, nc) as u8),
                }
            })
    })
}

/// The fixed family for exhaustive enumeration.
fn family() -> Vec<(&'static str, Vec<Vec<u8>>)> {
    vec![
        ("linear", dag(&[&[], &[0], &[1], &[2], &[3]])),
        ("fork", dag(&[&[], &[0], &[0], &[1], &[2]])),
        ("trident", dag(&[&[], &[0], &[1], &[1], &[1]])),
        ("diamond", dag(&[&[], &[0], &[0], &[1, 2], &[3]])),
        ("merge-and-side", dag(&[&[], &[0], &[0], &[1, 2], &[1]])),
        ("criss-cross", dag(&[&[], &[0], &[0], &[1, 2], &[2, 1]])),
        ("double-merge", dag(&[&[], &[0], &[0], &[0], &[1, 2], &[2, 3]])),
        ("two-roots", dag(&[&[], &[0], &[], &[2], &[1, 3]])),
    ]
}

/// Every tip assignment (each delegate: no ref or any commit) and threshold for 1..=max_n delegates.
fn exhaustive(parents: Vec<Vec<u8>>, salts: u8, max_n: usize) -> impl Iterator<Item = Case> {
    let nc = parents.len();
    (0..salts).flat_map(move |salt| {
        let parents = parents.clone();
        (1..=max_n).flat_map(move |n| {
            let parents = parents.clone();
            let base = nc as u64 + 1;
            (0..base.pow(n as u32)).flat_map(move |code| {
                let parents = parents.clone();
                (1..=n).map(move |threshold| {
                    let mut tips = Vec::with_capacity(n);
                    let mut x = code;
                    for _ in 0..n {
                        let digit = (x % base) as u8;
                        x /= base;
                        tips.push(if digit == 0 { None } else { Some(digit - 1) });
                    }
                    Case {
                        parents: parents.clone(),
                        salt,
                        tips,
                        threshold: threshold as u8,
                        branch: 0,
                        // fixed distractors: a non-delegate on the newest commit, a decoy on the root
                        stranger: Some(nc as u8 - 1),
                        decoy: Some(0),
                        modify: None,
                        prev_head: if code % 2 == 0 { None } else { Some((code % nc as u64) as u8) },
                    }
                })
            })
        })
    })
}

fn run(ctx: &Ctx) {
    let lab = RefCell::new(Lab::new());
    let reference = |c: &Case| check_reference(ctx, &lab, c);
    let storage = |c: &Case| check_storage(ctx, &lab, c);

    let (salts, max_n) = if ctx.quick() { (2, 3) } else { (4, 4) };
    for (name, parents) in family() {
        ctx.enumerate(&format!("exhaustive-{name}"), exhaustive(parents, salts, max_n), true, reference);
    }
    // the same family through canonical_head/set_head, fewer delegates and one salt
    let max_n_storage = if ctx.quick() { 2 } else { 3 };
    for (name, parents) in family() {
        ctx.enumerate(&format!("storage-exhaustive-{name}"), exhaustive(parents, 1, max_n_storage), true, storage);
    }
    ctx.run("random-reference", random_case(), ctx.cases(3_000, 400_000), reference);
    ctx.run("random-storage", random_case(), ctx.cases(800, 60_000), storage);
}
