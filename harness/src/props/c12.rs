//! C12 — Repository data is served only to peers allowed to see it.
//!
//! Three layers:
//!  (a) `Doc::is_visible_to` against the set definition (public ∨ delegate ∨ allow-listed);
//!  (b) the git request header parser (`worker::verif::git_request`): whenever it accepts, the
//!      repository it names is the one the path text denotes (independent multibase reference);
//!  (c) end-to-end: real nodes, one serving node, three requesters, every (requester, repository)
//!      fetch is served iff seeded ∧ visible.
use std::collections::BTreeSet;
use std::io::Cursor;
use std::str::FromStr;

use proptest::prelude::*;
use radicle::crypto::test::signer::MockSigner;
use radicle::crypto::{PublicKey, Signer as _};
use radicle::identity::doc::Doc;
use radicle::identity::{Did, RepoId, Visibility};
use radicle_node::worker::verif::git_request;
use serde::{Deserialize, Serialize};
use serde_json::json;

use crate::core::*;
use crate::ensure;

pub const PROP: Prop = Prop {
    id: "C12",
    shards: (4, 8),
    level: "exploration",
    rule: "(a) visibility: identity documents with 1..4 delegates (duplicates allowed) from a pool of 8 keys, public or \
           private with an allow list (any subset of the pool), built three ways (Doc::with_edits, JSON round trip, \
           hand-written JSON); every pool key is probed and compared with public ∨ delegate ∨ allow-listed; the 5-key \
           sub-space is enumerated exhaustively. Non-trivial: private document for which at least one probe is visible \
           and one is not. (b) header: git-upload-pack pkt-lines built from (id spelling x rad:-prefix variant x path \
           shape x host/extra tail x command x length framing x trailing stream bytes), plus byte-level mutations of \
           valid headers, plus every ASCII multibase code letter exhaustively; the oracle re-parses the bytes with an \
           independent pkt-line/multibase reference (own base58/base36/base10/base2^n codecs): accepted ⇒ parsed repo == \
           the 20 bytes the path text encodes, canonical `/[rad:]z<base58>` requests with a well-formed tail must be \
           accepted, never a panic. Non-trivial: framing and command well-formed so that the verdict hinged on the \
           path. (c) e2e: matrices of repositories {explicit allow, no policy, explicit block} x {public, private with \
           generated allow/delegate subsets, visibility changed by a later identity revision} on one serving node \
           (default policy block or allow), three requester nodes; every cell is fetched over real connections; \
           in a second phase (always in quick, generated in thorough) a served private repository loses one \
           allow-listed requester through an identity revision made while the nodes run and every cell is fetched \
           again (serving node with a single worker in quick, generated in thorough), so that anything a worker \
           remembers from the first phase would show. \
           Non-trivial: a matrix containing a refused cell and an allowed private cell. Distinct = hash of the case.",
    assumptions: &[
        "(b) a request is 'canonical' when its path is `/` + optional single `rad:` + `z` + base58btc of exactly 20 bytes and \
         its tail follows the git daemon grammar (NUL, optional host=NAME[:PORT] NUL, optional NUL + key[=value] NUL ...)",
        "(b) a path 'denotes' an id when, after the leading `/`, an optional single `rad:` and an optional trailing `.git`, \
         the rest is a multibase text (any registered base; case-insensitive where the alphabet has one case; padding and \
         trailing partial bit groups ignored) of exactly 20 bytes; `//x`, `/./x`, `/a/../x`, `x/`, percent-encoding etc. denote \
         nothing, and accepting such a path is reported (the current parser rejects them all)",
        "(b) length prefixes that are not four hex digits (e.g. `+0ff`) are outside the reference; if the parser accepts one, \
         the bytes it consumed are taken as the pkt-line and the repository check still applies",
        "(c) 'no data sent' is observed as: no UploadPack event for the pair on the serving node, repository absent from \
         the requester's storage; 'refused' as the serving node's log line `<nid> is not authorized to fetch <rid>`",
        "(c) fetch failures without that log line (timeouts, transport trouble) are inconclusive, never violations; more \
         than a third inconclusive cells aborts the shard (exit 2)",
    ],
    run,
    budget_s: (1500, 7200),
};

// =====================================================================================
// Independent multibase reference
// =====================================================================================

const B58BTC: &str = "123456789ABCDEFGHJKLMNPQRSTUVWXYZabcdefghijkmnopqrstuvwxyz";
const B58FLICKR: &str = "123456789abcdefghijkmnopqrstuvwxyzABCDEFGHJKLMNPQRSTUVWXYZ";
const B36L: &str = "0123456789abcdefghijklmnopqrstuvwxyz";
const B36U: &str = "0123456789ABCDEFGHIJKLMNOPQRSTUVWXYZ";
const B10: &str = "0123456789";
const B2: &str = "01";
const B8: &str = "01234567";
const B16L: &str = "0123456789abcdef";
const B16U: &str = "0123456789ABCDEF";
const B32L: &str = "abcdefghijklmnopqrstuvwxyz234567";
const B32U: &str = "ABCDEFGHIJKLMNOPQRSTUVWXYZ234567";
const B32HL: &str = "0123456789abcdefghijklmnopqrstuv";
const B32HU: &str = "0123456789ABCDEFGHIJKLMNOPQRSTUV";
const B32Z: &str = "ybndrfg8ejkmcpqxot1uwisza345h769";
const B64: &str = "ABCDEFGHIJKLMNOPQRSTUVWXYZabcdefghijklmnopqrstuvwxyz0123456789+/";
const B64URL: &str = "ABCDEFGHIJKLMNOPQRSTUVWXYZabcdefghijklmnopqrstuvwxyz0123456789-_";

#[derive(Clone, Copy, PartialEq)]
enum Scheme {
    /// big-number positional encoding (leading zero bytes ↔ leading first-symbol characters)
    Radix,
    /// fixed bit groups, most significant bit first
    Bits(u32),
}

#[derive(Clone, Copy)]
struct BaseDef {
    code: char,
    alphabet: &'static str,
    scheme: Scheme,
    /// decoding ignores ASCII case (alphabet has letters of one case only)
    fold: bool,
    /// encoder emits `=` padding
    pad: bool,
}

const BASES: &[BaseDef] = &[
    BaseDef { code: '0', alphabet: B2, scheme: Scheme::Bits(1), fold: false, pad: false },
    BaseDef { code: '7', alphabet: B8, scheme: Scheme::Bits(3), fold: false, pad: false },
    BaseDef { code: '9', alphabet: B10, scheme: Scheme::Radix, fold: false, pad: false },
    BaseDef { code: 'f', alphabet: B16L, scheme: Scheme::Bits(4), fold: true, pad: false },
    BaseDef { code: 'F', alphabet: B16U, scheme: Scheme::Bits(4), fold: true, pad: false },
    BaseDef { code: 'b', alphabet: B32L, scheme: Scheme::Bits(5), fold: true, pad: false },
    BaseDef { code: 'B', alphabet: B32U, scheme: Scheme::Bits(5), fold: true, pad: false },
    BaseDef { code: 'c', alphabet: B32L, scheme: Scheme::Bits(5), fold: true, pad: true },
    BaseDef { code: 'C', alphabet: B32U, scheme: Scheme::Bits(5), fold: true, pad: true },
    BaseDef { code: 'v', alphabet: B32HL, scheme: Scheme::Bits(5), fold: true, pad: false },
    BaseDef { code: 'V', alphabet: B32HU, scheme: Scheme::Bits(5), fold: true, pad: false },
    BaseDef { code: 't', alphabet: B32HL, scheme: Scheme::Bits(5), fold: true, pad: true },
    BaseDef { code: 'T', alphabet: B32HU, scheme: Scheme::Bits(5), fold: true, pad: true },
    BaseDef { code: 'h', alphabet: B32Z, scheme: Scheme::Bits(5), fold: true, pad: false },
    BaseDef { code: 'k', alphabet: B36L, scheme: Scheme::Radix, fold: true, pad: false },
    BaseDef { code: 'K', alphabet: B36U, scheme: Scheme::Radix, fold: true, pad: false },
    BaseDef { code: 'Z', alphabet: B58FLICKR, scheme: Scheme::Radix, fold: false, pad: false },
    BaseDef { code: 'z', alphabet: B58BTC, scheme: Scheme::Radix, fold: false, pad: false },
    BaseDef { code: 'm', alphabet: B64, scheme: Scheme::Bits(6), fold: false, pad: false },
    BaseDef { code: 'M', alphabet: B64, scheme: Scheme::Bits(6), fold: false, pad: true },
    BaseDef { code: 'u', alphabet: B64URL, scheme: Scheme::Bits(6), fold: false, pad: false },
    BaseDef { code: 'U', alphabet: B64URL, scheme: Scheme::Bits(6), fold: false, pad: true },
];

fn base_def(code: char) -> Option<&'static BaseDef> {
    BASES.iter().find(|b| b.code == code)
}

fn symbol_value(def: &BaseDef, c: char) -> Option<u32> {
    if !c.is_ascii() {
        return None;
    }
    if let Some(i) = def.alphabet.chars().position(|a| a == c) {
        return Some(i as u32);
    }
    if def.fold {
        let l = c.to_ascii_lowercase();
        let u = c.to_ascii_uppercase();
        return def.alphabet.chars().position(|a| a == l || a == u).map(|i| i as u32);
    }
    None
}

fn radix_encode(alphabet: &str, bytes: &[u8]) -> String {
    let alpha: Vec<char> = alphabet.chars().collect();
    let base = alpha.len() as u32;
    let zeros = bytes.iter().take_while(|b| **b == 0).count();
    // little-endian digits
    let mut digits: Vec<u32> = vec![];
    for &b in &bytes[zeros..] {
        let mut carry = b as u32;
        for d in digits.iter_mut() {
            carry += *d << 8;
            *d = carry % base;
            carry /= base;
        }
        while carry > 0 {
            digits.push(carry % base);
            carry /= base;
        }
    }
    let mut s = String::new();
    for _ in 0..zeros {
        s.push(alpha[0]);
    }
    for d in digits.iter().rev() {
        s.push(alpha[*d as usize]);
    }
    s
}

fn radix_decode(def: &BaseDef, s: &str) -> Option<Vec<u8>> {
    let base = def.alphabet.chars().count() as u32;
    let mut leaders = 0usize;
    let mut leading = true;
    // little-endian bytes
    let mut out: Vec<u32> = vec![];
    for c in s.chars() {
        let v = symbol_value(def, c)?;
        if leading && v == 0 {
            leaders += 1;
        } else {
            leading = false;
        }
        let mut carry = v;
        for b in out.iter_mut() {
            carry += *b * base;
            *b = carry & 0xff;
            carry >>= 8;
        }
        while carry > 0 {
            out.push(carry & 0xff);
            carry >>= 8;
        }
    }
    let mut bytes = vec![0u8; leaders];
    bytes.extend(out.iter().rev().map(|b| *b as u8));
    Some(bytes)
}

fn bits_encode(def: &BaseDef, bits: u32, bytes: &[u8]) -> String {
    let alpha: Vec<char> = def.alphabet.chars().collect();
    let mut s = String::new();
    let mut acc: u32 = 0;
    let mut n: u32 = 0;
    for &b in bytes {
        acc = (acc << 8) | b as u32;
        n += 8;
        while n >= bits {
            n -= bits;
            s.push(alpha[((acc >> n) & ((1 << bits) - 1)) as usize]);
        }
        acc &= (1 << n) - 1;
    }
    if n > 0 {
        s.push(alpha[((acc << (bits - n)) & ((1 << bits) - 1)) as usize]);
    }
    if def.pad {
        // block = lcm(bits, 8) / bits characters
        let block = match bits {
            5 => 8,
            6 => 4,
            3 => 8,
            _ => 1,
        };
        while s.len() % block != 0 {
            s.push('=');
        }
    }
    s
}

fn bits_decode(def: &BaseDef, bits: u32, s: &str) -> Option<Vec<u8>> {
    let s = s.trim_end_matches('=');
    let mut out = vec![];
    let mut acc: u32 = 0;
    let mut n: u32 = 0;
    for c in s.chars() {
        let v = symbol_value(def, c)?;
        acc = (acc << bits) | v;
        n += bits;
        if n >= 8 {
            n -= 8;
            out.push((acc >> n) as u8);
            acc &= (1 << n) - 1;
        }
    }
    Some(out)
}

fn mb_encode(def: &BaseDef, bytes: &[u8]) -> String {
    let body = match def.scheme {
        Scheme::Radix => radix_encode(def.alphabet, bytes),
        Scheme::Bits(b) => bits_encode(def, b, bytes),
    };
    format!("{}{}", def.code, body)
}

/// Lenient reference decoder: the bytes a multibase text denotes, if any.
/// Lenient = case-insensitive for single-case alphabets, optional padding, trailing
/// partial bit groups ignored. It never decides acceptance, only *which bytes*.
fn mb_decode(text: &str) -> Option<Vec<u8>> {
    let code = text.chars().next()?;
    let rest = &text[code.len_utf8()..];
    if code == '\0' {
        return Some(rest.as_bytes().to_vec());
    }
    let def = base_def(code)?;
    match def.scheme {
        Scheme::Radix => radix_decode(def, rest),
        Scheme::Bits(b) => bits_decode(def, b, rest),
    }
}

fn b58(bytes: &[u8]) -> String {
    radix_encode(B58BTC, bytes)
}

/// The 20 id bytes denoted by a repository id text (`[rad:]<multibase>`), if any.
fn ref_id_bytes(text: &str) -> Option<[u8; 20]> {
    let t = text.strip_prefix("rad:").unwrap_or(text);
    let bytes = mb_decode(t)?;
    <[u8; 20]>::try_from(bytes.as_slice()).ok()
}

/// Is `text` the canonical spelling (`[rad:]z<base58btc>`) of the bytes it denotes?
fn is_canonical_id(text: &str) -> bool {
    let t = text.strip_prefix("rad:").unwrap_or(text);
    match ref_id_bytes(text) {
        Some(b) => t == format!("z{}", b58(&b)),
        None => false,
    }
}

fn rid_bytes(rid: &RepoId) -> [u8; 20] {
    let mut out = [0u8; 20];
    out.copy_from_slice(rid.as_bytes());
    out
}

fn hexs(b: &[u8]) -> String {
    b.iter().map(|x| format!("{x:02x}")).collect()
}

// =====================================================================================
// (a) visibility
// =====================================================================================

const POOL: usize = 8;

fn pool() -> Vec<PublicKey> {
    (0..POOL).map(|i| *MockSigner::from_seed([i as u8 + 0x11; 32]).public_key()).collect()
}

#[derive(Debug, Clone, Serialize, Deserialize, Hash)]
pub struct VisCase {
    /// indices into the key pool, 1..=4 entries, duplicates allowed (the document de-duplicates)
    delegates: Vec<u8>,
    /// 1..=number of distinct delegates (mapped monotonically)
    threshold: u8,
    private: bool,
    /// allow list as a bit mask over the pool (only meaningful when private)
    allow: u8,
    /// 0 = Doc::with_edits, 1 = serialize + deserialize, 2 = hand-written JSON visibility/delegates
    via: u8,
}

fn base_doc(first: Did, vis: Visibility) -> Doc {
    let project = radicle::identity::project::Project::new(
        "acme".to_string().try_into().unwrap(),
        "visibility".to_string().try_into().unwrap(),
        radicle::git::RefString::try_from("master").unwrap(),
    )
    .unwrap();
    Doc::initial(project, first, vis)
}

fn check_vis(ctx: &Ctx, keys: &[PublicKey], c: &VisCase) -> CaseResult {
    let n = keys.len();
    let dids: Vec<Did> = keys.iter().map(|k| Did::from(*k)).collect();
    let delegates: Vec<usize> = c.delegates.iter().map(|i| *i as usize % n).collect();
    let dset: BTreeSet<usize> = delegates.iter().copied().collect();
    let allow: BTreeSet<usize> = (0..n).filter(|i| c.allow >> i & 1 == 1).collect();
    let threshold = 1 + (c.threshold as usize) % dset.len();
    let vis = if c.private {
        Visibility::private(allow.iter().map(|i| dids[*i]))
    } else {
        Visibility::Public
    };
    let built = base_doc(dids[delegates[0]], vis.clone())
        .with_edits(|raw| {
            raw.delegates = delegates.iter().map(|i| dids[*i]).collect();
            raw.threshold = threshold;
        })
        .map_err(|e| Fail { sig: "harness:doc-build".into(), msg: format!("with_edits failed: {e}") });
    let built = match built {
        Ok(d) => d,
        Err(f) => panic!("harness: cannot build document: {}", f.msg),
    };
    let doc: Doc = match c.via % 3 {
        0 => built,
        1 => {
            let text = serde_json::to_string(&built).expect("doc serializes");
            serde_json::from_str(&text).expect("serialized doc parses")
        }
        _ => {
            let mut v = serde_json::to_value(&built).expect("doc serializes");
            v["delegates"] = json!(delegates.iter().map(|i| dids[*i].to_string()).collect::<Vec<_>>());
            v["threshold"] = json!(threshold);
            v["visibility"] = if c.private {
                if allow.is_empty() {
                    json!({"type": "private"})
                } else {
                    json!({"type": "private", "allow": allow.iter().map(|i| dids[*i].to_string()).collect::<Vec<_>>()})
                }
            } else {
                json!({"type": "public"})
            };
            serde_json::from_value(v).expect("hand-written doc parses")
        }
    };
    ensure!(doc.is_private() == c.private, "visible:privacy-flag", "is_private {} for case {c:?}", doc.is_private());
    let mut seen = 0;
    let mut hidden = 0;
    for (i, did) in dids.iter().enumerate() {
        let is_delegate = dset.contains(&i);
        let allowed = allow.contains(&i);
        let expect = !c.private || is_delegate || allowed;
        let got = doc.is_visible_to(did);
        ensure!(
            doc.is_delegate(did) == is_delegate,
            "visible:is-delegate",
            "is_delegate(pool[{i}]) = {} but delegates are {dset:?}",
            doc.is_delegate(did)
        );
        if got != expect {
            let sig = if got {
                "visible:stranger-sees-private"
            } else if !c.private {
                "visible:public-hidden"
            } else if is_delegate {
                "visible:delegate-hidden"
            } else {
                "visible:allowed-hidden"
            };
            return fail(
                sig,
                format!(
                    "is_visible_to(pool[{i}]) = {got}, expected {expect} (private={}, delegates={dset:?}, allow={allow:?})",
                    c.private
                ),
            );
        }
        if got {
            seen += 1;
        } else {
            hidden += 1;
        }
    }
    ctx.count(if c.private { "vis:private" } else { "vis:public" });
    ctx.count(&format!("vis:delegates={}", dset.len()));
    ctx.count(&format!("vis:via={}", c.via % 3));
    if c.private {
        ctx.count(&format!("vis:allow-size={}", allow.len()));
        if allow.iter().any(|i| dset.contains(i)) {
            ctx.count("vis:allow-overlaps-delegates");
        }
        if seen > 0 && hidden > 0 {
            ctx.nontrivial(&("vis", c));
            ctx.sample("visibility", c);
        }
    }
    Ok(())
}

fn vis_strategy() -> impl Strategy<Value = VisCase> {
    (
        proptest::collection::vec(0u8..POOL as u8, 1..=4),
        any::<u8>(),
        prop_oneof![1 => Just(false), 4 => Just(true)],
        prop_oneof![1 => Just(0u8), 1 => Just(0xffu8), 6 => any::<u8>()],
        0u8..3,
    )
        .prop_map(|(delegates, threshold, private, allow, via)| VisCase { delegates, threshold, private, allow, via })
}

/// All documents over a 5-key pool: every non-empty delegate set of size <= 4 (ascending order),
/// public + every allow mask, three construction routes.
fn vis_exhaustive() -> impl Iterator<Item = VisCase> {
    (1u8..32).filter(|m| m.count_ones() <= 4).flat_map(|dm| {
        (0u8..33).flat_map(move |a| {
            (0u8..3).map(move |via| VisCase {
                delegates: (0..5).filter(|i| dm >> i & 1 == 1).collect(),
                threshold: a,
                private: a < 32,
                allow: if a < 32 { a } else { 0 },
                via,
            })
        })
    })
}

// =====================================================================================
// (b) request header
// =====================================================================================

#[derive(Debug, Clone, Serialize, Deserialize, Hash)]
pub struct HeaderCase {
    /// the requested id (20 bytes)
    rid: Vec<u8>,
    /// another (existing) repository id used in confusion attempts
    other: Vec<u8>,
    spelling: u8,
    base: u8,
    prefix: u8,
    shape: u8,
    tail: u8,
    host: u8,
    port: u32,
    command: u8,
    framing: u8,
    cut: u16,
    /// bytes following the pkt-line on the stream
    trailing: Vec<u8>,
}

const SPELLINGS: usize = 20;
const PREFIXES: &[&str] = &["rad:", "", "RAD:", "rad:rad:", "rad://", "rad:/", " rad:", "Rad:", "rad::", "rad"];
const SHAPES: usize = 26;
const TAILS: usize = 17;
const COMMANDS: &[&str] = &[
    "git-upload-pack ",
    "git-upload-pack\t",
    "git-receive-pack ",
    "git-upload-archive ",
    "GIT-UPLOAD-PACK ",
    "git-upload-pack  ",
    "",
    "git-upload-pack",
    " git-upload-pack ",
];
const FRAMINGS: usize = 15;
const HOSTS: &[&str] = &["seed.example", "localhost", "127.0.0.1", "[::1]", "h", "seed.radicle.example.com"];
const ODD_CHARS: &[&str] = &["0", "O", "I", "l", "+", "/", "=", ".", "-", "_", " ", "\u{e9}", "%", "\\", ":"];

fn swapcase(s: &str) -> String {
    s.chars()
        .map(|c| if c.is_ascii_lowercase() { c.to_ascii_uppercase() } else { c.to_ascii_lowercase() })
        .collect()
}

fn char_cut(s: &str, cut: u16) -> usize {
    // a char boundary index in 0..=len, monotone in `cut`
    let idx: Vec<usize> = s.char_indices().map(|(i, _)| i).chain(std::iter::once(s.len())).collect();
    idx[pick(cut, idx.len())]
}

fn id_text(c: &HeaderCase) -> (String, &'static str) {
    let canon = format!("z{}", b58(&c.rid));
    match c.spelling as usize % SPELLINGS {
        0 => (canon, "canonical"),
        1 => {
            let def = &BASES[c.base as usize % BASES.len()];
            (mb_encode(def, &c.rid), "other-base")
        }
        2 => (swapcase(&canon), "swapcase"),
        3 => (canon.to_ascii_uppercase(), "uppercase"),
        4 => (canon.to_ascii_lowercase(), "lowercase"),
        5 => {
            let k = char_cut(&canon, c.cut).min(canon.len() - 1);
            let mut s = canon.clone();
            let flipped = swapcase(&canon[k..k + 1]);
            s.replace_range(k..k + 1, &flipped);
            (s, "flip-one-case")
        }
        6 => (b58(&c.rid), "no-base-code"),
        7 => (format!("z{}", b58(&c.rid[..19])), "short-19"),
        8 => {
            let mut b = c.rid.clone();
            b.push(c.cut as u8);
            (format!("z{}", b58(&b)), "long-21")
        }
        9 => (format!("z1{}", b58(&c.rid)), "extra-leading-zero"),
        10 => (hexs(&c.rid), "bare-hex40"),
        11 => (format!("f{}", hexs(&c.rid)), "hex"),
        12 => (String::new(), "empty"),
        13 => ("z".to_string(), "code-only"),
        14 => (format!("z{canon}"), "double-code"),
        15 => (canon[..char_cut(&canon, c.cut)].to_string(), "truncated"),
        16 => {
            let k = char_cut(&canon, c.cut).min(canon.len() - 1);
            let mut s = canon.clone();
            s.replace_range(k..k + 1, ODD_CHARS[c.base as usize % ODD_CHARS.len()]);
            (s, "odd-char")
        }
        17 => (format!("z{}", b58(&c.other)), "other-canonical"),
        18 => {
            // multibase identity base: NUL code followed by the raw (here: ASCII) bytes
            let raw: String = c.rid.iter().map(|b| (b & 0x7f) as char).collect();
            (format!("\0{raw}"), "identity-base")
        }
        _ => {
            let code = (c.cut % 128) as u8 as char;
            (format!("{code}{}", b58(&c.rid)), "any-code-letter")
        }
    }
}

/// payload (without length prefix) and class labels
fn build_payload(c: &HeaderCase) -> (Vec<u8>, Vec<String>) {
    let (id, id_label) = id_text(c);
    let prefix = PREFIXES[c.prefix as usize % PREFIXES.len()];
    let x = format!("{prefix}{id}");
    let y = format!("rad:z{}", b58(&c.other));
    let shape = c.shape as usize % SHAPES;
    let path: String = match shape {
        0 => format!("/{x}"),
        1 => x.clone(),
        2 => format!("//{x}"),
        3 => format!("/./{x}"),
        4 => format!("/../{x}"),
        5 => format!("/{y}/../{x}"),
        6 => format!("/{x}/../{y}"),
        7 => format!("/{x}.git"),
        8 => format!("/{x}/"),
        9 => format!("/{x} "),
        10 => format!("/{x}\n"),
        11 => format!("/ {x}"),
        12 => format!("/{x}?{y}"),
        13 => format!("/{x}#{y}"),
        14 => format!("/{x}%00"),
        15 => format!("/{}{id}", prefix.replace(':', "%3A")),
        16 => format!("/{x}/{y}"),
        17 => format!("/{y}/{x}"),
        18 => format!("\\{x}"),
        19 => format!("/{x}\t"),
        20 => format!("/{x}.GIT"),
        21 => format!("/{x};{y}"),
        22 => format!("/{x},{y}"),
        23 => format!("/{x} {y}"),
        24 => {
            let k = char_cut(&x, c.cut);
            format!("/{}\0{}", &x[..k], &x[k..])
        }
        _ => format!("/{x}\0{y}"),
    };
    let host = HOSTS[c.host as usize % HOSTS.len()];
    let port = c.port % 65536;
    let tail_ix = c.tail as usize % TAILS;
    let tail: Vec<u8> = match tail_ix {
        0 => vec![],
        1 => b"\0".to_vec(),
        2 => format!("\0host={host}\0").into_bytes(),
        3 => format!("\0host={host}:{port}\0").into_bytes(),
        4 => b"\0\0version=2\0".to_vec(),
        5 => format!("\0host={host}\0\0version=2\0").into_bytes(),
        6 => format!("\0host={host}:{port}\0\0version=2\0object-format=sha1\0").into_bytes(),
        7 => b"\0\0\0\0version=2\0\0".to_vec(),
        8 => b"\0version=2\0".to_vec(),
        9 => format!("\0host={host}:notaport\0").into_bytes(),
        10 => format!("\0host={host}:{}\0", 65536 + port).into_bytes(),
        11 => b"\0host=\0".to_vec(),
        12 => format!("\0host={host}\0\0repo={y}\0").into_bytes(),
        13 => format!("\0host=/{y}\0").into_bytes(),
        14 => format!("\0\0git-upload-pack /{y}\0").into_bytes(),
        15 => b"\0host=h\0\0\xff\xfe=1\0".to_vec(),
        _ => format!(" host={host}").into_bytes(),
    };
    let command = COMMANDS[c.command as usize % COMMANDS.len()];
    let mut p = command.as_bytes().to_vec();
    p.extend_from_slice(path.as_bytes());
    p.extend_from_slice(&tail);
    let labels = vec![
        format!("id:{id_label}"),
        format!("prefix:{:?}", prefix),
        format!("shape:{shape}"),
        format!("tail:{tail_ix}"),
        format!("command:{}", c.command as usize % COMMANDS.len()),
    ];
    (p, labels)
}

fn build_stream(c: &HeaderCase) -> (Vec<u8>, Vec<String>) {
    let (mut payload, mut labels) = build_payload(c);
    let framing = c.framing as usize % FRAMINGS;
    if framing == 13 || framing == 14 {
        // pad with an extra parameter to exactly 1024 / 1025 bytes in total
        let target = if framing == 13 { 1024 } else { 1025 };
        let (id, _) = id_text(c);
        let mut p = format!("git-upload-pack /{}{id}\0\0x=", PREFIXES[c.prefix as usize % PREFIXES.len()]).into_bytes();
        while p.len() + 4 + 1 < target {
            p.push(b'a');
        }
        p.push(0);
        payload = p;
    }
    let len = payload.len() + 4;
    let mut stream: Vec<u8> = vec![];
    let head: Vec<u8> = match framing {
        0 | 13 | 14 => format!("{len:04x}").into_bytes(),
        1 => format!("{len:04X}").into_bytes(),
        2 => format!("{:04x}", len - 1).into_bytes(),
        3 => format!("{:04x}", len + 1).into_bytes(),
        4 => b"0004".to_vec(),
        5 => format!("{:04x}", c.cut % 4).into_bytes(),
        6 => b"ffff".to_vec(),
        7 => format!("+{:03x}", len.min(0xfff)).into_bytes(),
        8 => b"zzzz".to_vec(),
        9 => format!("{len:04x}").into_bytes(),
        10 => {
            // declared length covers only command + path
            let nul = payload.iter().position(|b| *b == 0).unwrap_or(payload.len());
            format!("{:04x}", nul + 4).into_bytes()
        }
        11 => format!("{:04x}", (len + c.trailing.len()).min(0xffff)).into_bytes(),
        _ => format!("0x{:02x}", len.min(0xff)).into_bytes(),
    };
    stream.extend_from_slice(&head);
    stream.extend_from_slice(&payload);
    stream.extend_from_slice(&c.trailing);
    if framing == 9 {
        let k = pick(c.cut, stream.len());
        stream.truncate(k);
    }
    labels.push(format!("framing:{framing}"));
    (stream, labels)
}

#[derive(Debug, Clone, Copy, PartialEq)]
enum Frame<'a> {
    /// four hex digits and the declared line lies within the stream
    Line(&'a [u8]),
    /// four hex digits but declared length < 4 or beyond the stream
    Bad,
    /// length prefix is not four hex digits / stream shorter than 4 bytes
    NonStandard,
}

fn ref_frame(input: &[u8]) -> Frame<'_> {
    if input.len() < 4 {
        return Frame::NonStandard;
    }
    if !input[..4].iter().all(|b| b.is_ascii_hexdigit()) {
        return Frame::NonStandard;
    }
    let n = usize::from_str_radix(std::str::from_utf8(&input[..4]).unwrap(), 16).unwrap();
    if n < 4 || n > input.len() {
        return Frame::Bad;
    }
    Frame::Line(&input[4..n])
}

/// `tail` = the bytes after the path. Git daemon grammar with a single optional host slot.
fn tail_well_formed(tail: &[u8]) -> bool {
    let Ok(t) = std::str::from_utf8(tail) else { return false };
    if t.is_empty() {
        return true;
    }
    let Some(t) = t.strip_prefix('\0') else { return false };
    if t.is_empty() {
        return true;
    }
    // host slot
    let Some((host, rest)) = t.split_once('\0') else { return false };
    if !host.is_empty() {
        let Some(h) = host.strip_prefix("host=") else { return false };
        let (name, port) = match h.rsplit_once(':') {
            Some((n, p)) if !n.contains(':') => (n, Some(p)),
            Some(_) => return false, // more than one colon: outside the reference grammar
            None => (h, None),
        };
        if name.is_empty() || !name.chars().all(|c| c.is_ascii_alphanumeric() || c == '.' || c == '-') {
            return false;
        }
        if let Some(p) = port {
            if p.is_empty() || p.len() > 5 || !p.chars().all(|c| c.is_ascii_digit()) || p.parse::<u32>().unwrap() > 65535 {
                return false;
            }
            if p.len() > 1 && p.starts_with('0') {
                return false;
            }
        }
    }
    if rest.is_empty() {
        return true;
    }
    // extra parameters: NUL (key[=value] NUL)+
    let Some(extras) = rest.strip_prefix('\0') else { return false };
    if extras.is_empty() || !extras.ends_with('\0') {
        return false;
    }
    extras[..extras.len() - 1].split('\0').all(|kv| {
        let (k, v) = kv.split_once('=').unwrap_or((kv, ""));
        !k.is_empty()
            && k.chars().all(|c| c.is_ascii_alphanumeric() || c == '-')
            && v.chars().all(|c| c.is_ascii_alphanumeric() || c == '-' || c == '.')
    })
}

const COMMAND: &[u8] = b"git-upload-pack ";

/// The oracle for one byte stream.
fn check_stream(ctx: &Ctx, input: &[u8], labels: &[String]) -> Result<bool, Fail> {
    let mut cur = Cursor::new(input);
    let res = git_request(&mut cur);
    let consumed = cur.position() as usize;
    let frame = ref_frame(input);
    for l in labels {
        ctx.count(&format!("hdr:{l}"));
    }
    let accepted = match &res {
        Ok(_) => true,
        Err(_) => false,
    };
    ctx.count(if accepted { "hdr:accepted" } else { "hdr:rejected" });
    let payload: &[u8] = match frame {
        Frame::Line(p) => p,
        Frame::Bad => {
            ctx.count("hdr:frame-bad");
            ensure!(
                !accepted,
                "header:accepted-bad-framing",
                "declared pkt-line length {:?} is < 4 or beyond the {} stream bytes, yet the request was accepted: {res:?}",
                String::from_utf8_lossy(&input[..4]),
                input.len()
            );
            return Ok(false);
        }
        Frame::NonStandard => {
            ctx.count("hdr:frame-nonstandard");
            if !accepted {
                return Ok(false);
            }
            ctx.count("hdr:accepted-nonstandard-length-prefix");
            if consumed < 4 || consumed > input.len() {
                return Ok(false);
            }
            &input[4..consumed]
        }
    };
    let hinged_on_path = payload.starts_with(COMMAND);
    if !hinged_on_path {
        ctx.count("hdr:nonstandard-command");
        if accepted {
            ctx.count("hdr:accepted-nonstandard-command");
        }
        return Ok(false);
    }
    let rest = &payload[COMMAND.len()..];
    let nul = rest.iter().position(|b| *b == 0).unwrap_or(rest.len());
    let (path_b, tail) = rest.split_at(nul);
    let path = std::str::from_utf8(path_b).ok();
    let raw_id = path.and_then(|p| p.strip_prefix('/'));
    // One trailing `.git` is tolerated by the reference (the parser's own documentation shows such a
    // path); it is never *required* to be accepted.
    let id_text = raw_id.map(|t| t.strip_suffix(".git").unwrap_or(t));
    let want = id_text.and_then(ref_id_bytes);
    let canonical = raw_id.map(is_canonical_id).unwrap_or(false);
    if want.is_some() {
        ctx.count(if canonical { "hdr:path-denotes-id-canonically" } else { "hdr:path-denotes-id-noncanonically" });
    } else {
        ctx.count("hdr:path-denotes-no-id");
    }
    match &res {
        Ok(req) => {
            let got = rid_bytes(&req.repo);
            match want {
                None => {
                    return fail(
                        "header:accepted-undecodable-id",
                        format!(
                            "request accepted as {} but its path {:?} does not denote a 20-byte repository id",
                            req.repo,
                            String::from_utf8_lossy(path_b)
                        ),
                    )
                }
                Some(w) => {
                    ensure!(
                        got == w,
                        "header:wrong-repository",
                        "path {:?} denotes id bytes {} but the parser selected {} ({})",
                        String::from_utf8_lossy(path_b),
                        hexs(&w),
                        req.repo,
                        hexs(&got)
                    );
                    // the canonical text of the selected repository, independently encoded
                    ensure!(
                        req.repo.to_string() == format!("rad:z{}", b58(&w)),
                        "header:canonical-text",
                        "selected repository prints as {} but base58btc of its bytes is rad:z{}",
                        req.repo,
                        b58(&w)
                    );
                }
            }
            ctx.count(if canonical { "hdr:accepted-canonical" } else { "hdr:accepted-noncanonical-same-bytes" });
        }
        Err(e) => {
            if canonical && tail_well_formed(tail) && payload.len() + 4 <= 1024 && matches!(frame, Frame::Line(_)) {
                return fail(
                    "header:canonical-rejected",
                    format!(
                        "canonical request {:?} was rejected: {e}",
                        String::from_utf8_lossy(payload)
                    ),
                );
            }
            ctx.count(if want.is_some() { "hdr:rejected-though-id-decodable" } else { "hdr:rejected-undecodable" });
        }
    }
    Ok(true)
}

fn check_header(ctx: &Ctx, c: &HeaderCase) -> CaseResult {
    assert!(c.rid.len() == 20 && c.other.len() == 20, "harness: ids are 20 bytes");
    let (stream, labels) = build_stream(c);
    let hinged = check_stream(ctx, &stream, &labels)?;
    if hinged {
        ctx.nontrivial(&("hdr", c));
        if c.spelling != 0 || c.shape != 0 {
            ctx.sample("header", json!({"case": c, "stream": String::from_utf8_lossy(&stream)}));
        }
    }
    Ok(())
}

fn id_bytes_strategy() -> impl Strategy<Value = Vec<u8>> {
    prop_oneof![
        6 => proptest::collection::vec(any::<u8>(), 20),
        // leading zero bytes (leading '1' characters in base58)
        2 => (1usize..=20, proptest::collection::vec(any::<u8>(), 20)).prop_map(|(z, mut v)| {
            for b in v.iter_mut().take(z) {
                *b = 0;
            }
            v
        }),
        1 => Just(vec![0xffu8; 20]),
        1 => proptest::collection::vec(prop_oneof![Just(0u8), Just(0xffu8), Just(0x80u8)], 20),
    ]
}

fn dim(n: usize, canon_weight: u32) -> impl Strategy<Value = u8> {
    prop_oneof![canon_weight => Just(0u8), 2 => 0u8..n as u8]
}

fn header_strategy() -> impl Strategy<Value = HeaderCase> {
    (
        (id_bytes_strategy(), id_bytes_strategy()),
        (dim(SPELLINGS, 2), 0u8..BASES.len() as u8, dim(PREFIXES.len(), 4)),
        (dim(SHAPES, 3), dim(TAILS, 1), 0u8..HOSTS.len() as u8, prop_oneof![Just(0u32), Just(9418u32), Just(65535u32), any::<u32>()]),
        (dim(COMMANDS.len(), 8), dim(FRAMINGS, 6)),
        any::<u16>(),
        prop_oneof![
            3 => Just(vec![]),
            1 => Just(b"0014command=ls-refs\n0000".to_vec()),
            1 => proptest::collection::vec(any::<u8>(), 0..12),
        ],
    )
        .prop_map(|((rid, other), (spelling, base, prefix), (shape, tail, host, port), (command, framing), cut, trailing)| {
            HeaderCase { rid, other, spelling, base, prefix, shape, tail, host, port, command, framing, cut, trailing }
        })
}

// ----- byte-level mutations of valid headers

#[derive(Debug, Clone, Serialize, Deserialize, Hash)]
pub struct MutCase {
    rid: Vec<u8>,
    tail: u8,
    /// (position, operation, value)
    edits: Vec<(u16, u8, u8)>,
    /// recompute the length prefix after editing
    refix: bool,
}

fn check_mut(ctx: &Ctx, c: &MutCase) -> CaseResult {
    let base = HeaderCase {
        rid: c.rid.clone(),
        other: vec![7u8; 20],
        spelling: 0,
        base: 0,
        prefix: 0,
        shape: 0,
        tail: c.tail % 8,
        host: 0,
        port: 8776,
        command: 0,
        framing: 0,
        cut: 0,
        trailing: vec![],
    };
    let (mut payload, _) = build_payload(&base);
    let mut touched_path = false;
    let path_end = payload.iter().position(|b| *b == 0).unwrap_or(payload.len());
    for (pos, op, val) in &c.edits {
        if payload.is_empty() {
            break;
        }
        let k = pick(*pos, payload.len());
        if k >= COMMAND.len() && k <= path_end {
            touched_path = true;
        }
        match op % 7 {
            0 => payload[k] = *val,
            1 => payload.insert(k, *val),
            2 => {
                payload.remove(k);
            }
            3 => payload[k] ^= 0x20,
            4 => payload[k] = 0,
            5 => payload.insert(k, b'/'),
            _ => {
                let ch = [b'.', b'1', b'z', b':', b'%', b' ', b'='][*val as usize % 7];
                payload.insert(k, ch);
            }
        }
    }
    let mut stream = if c.refix {
        format!("{:04x}", payload.len() + 4).into_bytes()
    } else {
        let (orig, _) = build_payload(&base);
        format!("{:04x}", orig.len() + 4).into_bytes()
    };
    stream.extend_from_slice(&payload);
    let labels = vec![format!("mutated:edits={}", c.edits.len())];
    let hinged = check_stream(ctx, &stream, &labels)?;
    if hinged && touched_path {
        ctx.nontrivial(&("mut", c));
        ctx.sample("header-mutated", json!({"case": c, "stream": String::from_utf8_lossy(&stream)}));
    }
    Ok(())
}

fn mut_strategy() -> impl Strategy<Value = MutCase> {
    (
        id_bytes_strategy(),
        0u8..8,
        proptest::collection::vec((any::<u16>(), 0u8..7, any::<u8>()), 1..4),
        prop_oneof![4 => Just(true), 1 => Just(false)],
    )
        .prop_map(|(rid, tail, edits, refix)| MutCase { rid, tail, edits, refix })
}

// ----- every multibase code letter, exhaustively

#[derive(Debug, Clone, Serialize, Deserialize, Hash)]
pub struct CodeCase {
    code: u8,
    rid_ix: u8,
    with_rad: bool,
    /// 0 = body is the base58btc text, 1 = body is encoded in the base the code letter names (if known)
    body: u8,
}

fn fixed_ids() -> Vec<Vec<u8>> {
    vec![
        vec![0u8; 20],
        {
            let mut v: Vec<u8> = (1..=20).collect();
            v[0] = 0;
            v[1] = 0;
            v
        },
        (0..20).map(|i| (i * 37 + 201) as u8).collect(),
    ]
}

fn check_code(ctx: &Ctx, c: &CodeCase) -> CaseResult {
    let ids = fixed_ids();
    let rid = &ids[c.rid_ix as usize % ids.len()];
    let code = (c.code % 128) as char;
    let body = match (c.body, base_def(code)) {
        (1, Some(def)) => mb_encode(def, rid)[1..].to_string(),
        _ => b58(rid),
    };
    let text = format!("{}{code}{body}", if c.with_rad { "rad:" } else { "" });
    // through the header parser
    let payload = format!("git-upload-pack /{text}\0\0version=2\0");
    let mut stream = format!("{:04x}", payload.len() + 4).into_bytes();
    stream.extend_from_slice(payload.as_bytes());
    let labels = vec![format!("code-letter:{}", if base_def(code).is_some() { "known-base" } else { "unknown" })];
    check_stream(ctx, &stream, &labels)?;
    // and directly through the id parser (covers texts that cannot appear in a path, e.g. NUL)
    check_id_text(ctx, &text)?;
    ctx.nontrivial(&("code", c));
    Ok(())
}

/// `RepoId::from_str` against the reference.
fn check_id_text(ctx: &Ctx, text: &str) -> CaseResult {
    let want = ref_id_bytes(text);
    match RepoId::from_str(text) {
        Ok(rid) => {
            let got = rid_bytes(&rid);
            ctx.count("idtext:accepted");
            match want {
                None => fail(
                    "idtext:accepted-undecodable",
                    format!("RepoId::from_str({text:?}) = {rid} but the text denotes no 20-byte id"),
                ),
                Some(w) => {
                    ensure!(
                        got == w,
                        "idtext:wrong-bytes",
                        "RepoId::from_str({text:?}) = {} but the text denotes {}",
                        hexs(&got),
                        hexs(&w)
                    );
                    let printed = rid.to_string();
                    ensure!(
                        printed == format!("rad:z{}", b58(&w)),
                        "idtext:display",
                        "{} prints as {printed}, expected rad:z{}",
                        hexs(&w),
                        b58(&w)
                    );
                    let back = RepoId::from_str(&printed);
                    ensure!(
                        matches!(&back, Ok(r) if *r == rid),
                        "idtext:round-trip",
                        "{printed} parses back as {back:?}"
                    );
                    Ok(())
                }
            }
        }
        Err(e) => {
            ctx.count("idtext:rejected");
            ensure!(
                !is_canonical_id(text),
                "idtext:canonical-rejected",
                "canonical id text {text:?} rejected: {e}"
            );
            Ok(())
        }
    }
}

fn check_id_case(ctx: &Ctx, c: &HeaderCase) -> CaseResult {
    let (id, label) = id_text(c);
    let prefix = PREFIXES[c.prefix as usize % PREFIXES.len()];
    let text = format!("{prefix}{id}");
    ctx.count(&format!("idtext:{label}"));
    check_id_text(ctx, &text)?;
    ctx.nontrivial(&("idtext", &text));
    Ok(())
}

fn code_exhaustive() -> impl Iterator<Item = CodeCase> {
    (0u8..128).flat_map(|code| {
        (0u8..3).flat_map(move |rid_ix| {
            [false, true]
                .into_iter()
                .flat_map(move |with_rad| (0u8..2).map(move |body| CodeCase { code, rid_ix, with_rad, body }))
        })
    })
}

// =====================================================================================

fn run(ctx: &Ctx) {
    let keys = pool();
    ctx.enumerate("visibility-exhaustive-5", vis_exhaustive(), true, |c: &VisCase| check_vis(ctx, &keys[..5], c));
    ctx.run("visibility", vis_strategy(), ctx.cases(8_000, 200_000), |c: &VisCase| check_vis(ctx, &keys, c));
    ctx.enumerate("header-code-letters", code_exhaustive(), true, |c: &CodeCase| check_code(ctx, c));
    ctx.run("header", header_strategy(), ctx.cases(40_000, 1_000_000), |c: &HeaderCase| check_header(ctx, c));
    ctx.run("id-text", header_strategy(), ctx.cases(20_000, 400_000), |c: &HeaderCase| check_id_case(ctx, c));
    ctx.run("header-mutated", mut_strategy(), ctx.cases(20_000, 500_000), |c: &MutCase| check_mut(ctx, c));
    e2e::run(ctx);
}


// =====================================================================================
// (c) end-to-end with real nodes
// =====================================================================================

mod e2e {
    use std::cell::{Cell, RefCell};
    use std::collections::BTreeSet;
    use std::sync::{Condvar, Mutex, Once};
    use std::time::{Duration, Instant};

    use proptest::prelude::*;
    use radicle::cob::identity::Identity;
    use radicle::crypto::ssh::keystore::MemorySigner;
    use radicle::git;
    use radicle::identity::{Did, RepoId, Visibility};
    use radicle::node::config::DefaultSeedingPolicy;
    use radicle::node::events::UploadPack;
    use radicle::node::policy::{Policy, Scope};
    use radicle::node::{Alias, Config, ConnectOptions, ConnectResult, Event, FetchResult, Handle as _, NodeId};
    use radicle::storage::git::transport;
    use radicle::storage::{ReadRepository as _, ReadStorage as _, SignRepository as _, WriteRepository as _};
    use radicle::test::fixtures;
    use radicle_node::test::environment::{Environment, Node, NodeHandle};
    use serde::{Deserialize, Serialize};

    use crate::core::*;

    const REQUESTERS: usize = 3;
    /// generous: the machine may be heavily loaded; hitting it is counted as inconclusive
    const FETCH_TIMEOUT: Duration = Duration::from_secs(90);
    const LOG_WAIT: Duration = Duration::from_secs(20);
    /// fetch attempts per cell while the outcome is undecided
    const MAX_ATTEMPTS: u32 = 4;

    #[derive(Debug, Clone, Serialize, Deserialize, Hash)]
    pub struct RepoSpec {
        /// serving node's policy for the repository: 0 = explicit allow, 1 = no entry (default applies), 2 = explicit block
        seeding: u8,
        private: bool,
        /// allow list: bit mask over the requesters
        allow: u8,
        /// additional delegates: bit mask over the requesters (the serving node is always a delegate)
        delegates: u8,
        /// the repository was created with the opposite visibility and changed by a later identity revision
        flipped: bool,
    }

    #[derive(Debug, Clone, Serialize, Deserialize, Hash)]
    pub struct Matrix {
        /// serving node's default seeding policy is `allow` (otherwise `block`)
        default_allow: bool,
        repos: Vec<RepoSpec>,
        /// seed of the cell order
        order: u16,
        /// second phase: while the nodes run, every private repository whose only delegate is the serving node
        /// and whose allow list is non-empty loses its lowest allow-listed requester (identity revision on the
        /// serving node); then every cell is fetched again
        #[serde(default)]
        revoke: bool,
        /// the serving node runs a single worker (both phases of a pair are then handled by the same worker)
        #[serde(default)]
        single_worker: bool,
    }

    // ---- capture of the serving side's log

    struct Capture;
    static LINES: Mutex<Vec<String>> = Mutex::new(Vec::new());
    static CV: Condvar = Condvar::new();
    static LOGGER: Capture = Capture;

    impl log::Log for Capture {
        fn enabled(&self, m: &log::Metadata) -> bool {
            m.target() == "wire" && m.level() <= log::Level::Info
        }
        fn log(&self, r: &log::Record) {
            if self.enabled(r.metadata()) {
                let s = r.args().to_string();
                if s.contains("from us") {
                    LINES.lock().unwrap().push(s);
                    CV.notify_all();
                }
            }
        }
        fn flush(&self) {}
    }

    fn install_logger() {
        static ONCE: Once = Once::new();
        ONCE.call_once(|| {
            log::set_logger(&LOGGER).expect("harness: no other logger may be installed");
            log::set_max_level(log::LevelFilter::Info);
        });
    }

    fn wait_for_line(needle: &str, timeout: Duration) -> bool {
        let start = Instant::now();
        let mut lines = LINES.lock().unwrap();
        loop {
            if lines.iter().any(|l| l.contains(needle)) {
                return true;
            }
            let Some(left) = timeout.checked_sub(start.elapsed()) else { return false };
            lines = CV.wait_timeout(lines, left).unwrap().0;
        }
    }

    fn has_line(needle: &str) -> bool {
        LINES.lock().unwrap().iter().any(|l| l.contains(needle))
    }

    // ---- world construction

    fn make_repo(node: &mut Node<MemorySigner>, name: &str, visibility: Visibility) -> RepoId {
        transport::local::register(node.storage.clone());
        let tmp = tempfile::tempdir().unwrap();
        let (repo, _) = fixtures::repository(tmp.path());
        let branch = git::RefString::try_from("master").unwrap();
        let (id, _, _) = radicle::rad::init(
            &repo,
            name.to_string().try_into().unwrap(),
            "c12",
            branch.clone(),
            visibility,
            &node.signer,
            &node.storage,
        )
        .unwrap();
        let mut refs = Vec::<(git::Qualified, git::Qualified)>::new();
        for b in repo.branches(Some(git::raw::BranchType::Local)).unwrap() {
            let (b, _) = b.unwrap();
            let name = git::RefString::try_from(b.name().unwrap().unwrap()).unwrap();
            refs.push((git::lit::refs_heads(&name).into(), git::lit::refs_heads(&name).into()));
        }
        git::push(&repo, "rad", refs.iter().map(|(a, b)| (a, b))).unwrap();
        node.storage.repository(id).unwrap().sign_refs(&node.signer).unwrap();
        id
    }

    struct Stats {
        cells: Cell<u64>,
        inconclusive: Cell<u64>,
        trouble: RefCell<Vec<String>>,
    }

    fn shuffle<T>(v: &mut [T], seed: u64) {
        let mut s = seed;
        for i in (1..v.len()).rev() {
            s = mix(s);
            v.swap(i, (s % (i as u64 + 1)) as usize);
        }
    }

    fn exec(ctx: &Ctx, m: &Matrix, st: &Stats) -> CaseResult {
        install_logger();
        if std::env::var_os("C12_SELFTEST_ENV_PANIC").is_some() {
            // lets one check by hand that environment trouble ends as exit 2, not as a verdict
            panic!("C12 self-test: simulated environment failure");
        }
        // node keys and repository ids repeat from matrix to matrix: forget the previous matrix' lines
        LINES.lock().unwrap().clear();
        // declared first = dropped last (after all nodes have shut down)
        let mut env = Environment::new();
        let mut cfg = Config::test(Alias::new("server"));
        if m.single_worker {
            cfg.workers = 1;
        }
        if m.default_allow {
            cfg.seeding_policy = DefaultSeedingPolicy::permissive();
        }
        let mut server = env.node(cfg);
        let reqs: Vec<Node<MemorySigner>> =
            (0..REQUESTERS).map(|i| env.node(Config::test(Alias::new(format!("req{i}"))))).collect();
        let req_ids: Vec<NodeId> = reqs.iter().map(|n| n.id).collect();
        let server_did = Did::from(server.id);

        let mut rids: Vec<RepoId> = vec![];
        for (i, spec) in m.repos.iter().enumerate() {
            let allow: Vec<Did> =
                (0..REQUESTERS).filter(|j| spec.allow >> j & 1 == 1).map(|j| Did::from(req_ids[j])).collect();
            let extra: Vec<Did> =
                (0..REQUESTERS).filter(|j| spec.delegates >> j & 1 == 1).map(|j| Did::from(req_ids[j])).collect();
            let final_vis = if spec.private { Visibility::private(allow.clone()) } else { Visibility::Public };
            let initial_vis = if !spec.flipped {
                final_vis.clone()
            } else if spec.private {
                Visibility::Public
            } else {
                Visibility::private([])
            };
            let rid = make_repo(&mut server, &format!("c12-{i}"), initial_vis);
            if spec.flipped || !extra.is_empty() {
                let repo = server.storage.repository(rid).unwrap();
                let mut identity = Identity::load_mut(&repo).unwrap();
                let doc = identity
                    .doc()
                    .clone()
                    .with_edits(|raw| {
                        for d in &extra {
                            raw.delegate(*d);
                        }
                        raw.visibility = final_vis.clone();
                    })
                    .unwrap();
                let rev = identity.update("c12", "delegates and visibility", &doc, &server.signer).unwrap();
                assert!(identity.revision(&rev).unwrap().is_accepted(), "harness: identity revision accepted");
                repo.set_identity_head_to(rev).unwrap();
                repo.sign_refs(&server.signer).unwrap();
            }
            match spec.seeding % 3 {
                0 => {
                    assert!(server.policies.seed(&rid, Scope::All).unwrap());
                }
                1 => {}
                _ => {
                    assert!(server.policies.set_seed_policy(&rid, Policy::Block).unwrap());
                }
            }
            // harness sanity: the stored, current document is the intended one
            let doc = server.storage.repository(rid).unwrap().identity_doc().unwrap().doc;
            assert_eq!(doc.is_private(), spec.private, "harness: stored visibility");
            let dset: BTreeSet<Did> = doc.delegates().iter().copied().collect();
            let want: BTreeSet<Did> = extra.iter().copied().chain([server_did]).collect();
            assert_eq!(dset, want, "harness: stored delegates");
            if let Visibility::Private { allow: a } = doc.visibility() {
                assert_eq!(a, &allow.iter().copied().collect::<BTreeSet<_>>(), "harness: stored allow list");
            }
            rids.push(rid);
        }

        let server = server.spawn();
        let mut handles: Vec<NodeHandle<MemorySigner>> = reqs.into_iter().map(|n| n.spawn()).collect();
        for h in handles.iter_mut() {
            h.connect(&server);
        }
        let s_events = server.handle.events();

        let mut cells: Vec<(usize, usize)> =
            (0..REQUESTERS).flat_map(|r| (0..rids.len()).map(move |p| (r, p))).collect();
        shuffle(&mut cells, m.order as u64 + 1);

        let mut upload_events: BTreeSet<(RepoId, NodeId)> = BTreeSet::new();
        let mut refused_cells = 0;
        let mut allowed_private_cells = 0;
        let mut verdict: CaseResult = Ok(());
        let mut specs: Vec<RepoSpec> = m.repos.clone();
        let phases = if m.revoke { 2 } else { 1 };

        'phases: for phase in 0..phases {
        if phase == 1 {
            // ---- revocation while everything is running
            let mut revoked = 0;
            for (p, spec) in specs.iter_mut().enumerate() {
                if !(spec.private && spec.allow != 0 && spec.delegates == 0) {
                    continue;
                }
                let gone = spec.allow.trailing_zeros() as usize;
                spec.allow &= !(1u8 << gone);
                let allow: Vec<Did> = (0..REQUESTERS).filter(|j| spec.allow >> j & 1 == 1).map(|j| Did::from(req_ids[j])).collect();
                let repo = server.storage.repository(rids[p]).unwrap();
                let mut identity = Identity::load_mut(&repo).unwrap();
                let doc = identity.doc().clone().with_edits(|raw| raw.visibility = Visibility::private(allow.clone())).unwrap();
                let rev = identity.update("c12", "revoke", &doc, &server.signer).unwrap();
                assert!(identity.revision(&rev).unwrap().is_accepted(), "harness: revoking revision accepted");
                repo.set_identity_head_to(rev).unwrap();
                repo.sign_refs(&server.signer).unwrap();
                let stored = server.storage.repository(rids[p]).unwrap().identity_doc().unwrap().doc;
                assert!(!stored.is_visible_to(&Did::from(req_ids[gone])), "harness: revoked requester no longer visible");
                revoked += 1;
            }
            if revoked == 0 {
                break 'phases;
            }
            ctx.count_n("e2e:phase2:repositories-with-revocation", revoked);
            // the lines and upload events of the first phase name the same (requester, repository) pairs
            LINES.lock().unwrap().clear();
            upload_events.clear();
            for _ in s_events.try_iter() {}
            shuffle(&mut cells, m.order as u64 + 77);
        }
        for (r, p) in cells.clone() {
            let spec = &specs[p];
            let rid = rids[p];
            let nid = req_ids[r];
            let seeded = match spec.seeding % 3 {
                0 => true,
                1 => m.default_allow,
                _ => false,
            };
            let visible = !spec.private || spec.allow >> r & 1 == 1 || spec.delegates >> r & 1 == 1;
            let expect = seeded && visible;
            let role = if spec.delegates >> r & 1 == 1 {
                "delegate"
            } else if spec.allow >> r & 1 == 1 {
                "allow-listed"
            } else {
                "stranger"
            };
            let class = format!(
                "e2e:{}/{}/{}",
                ["seeded", if m.default_allow { "default-allow" } else { "default-block" }, "blocked"]
                    [(spec.seeding % 3) as usize],
                if spec.private { "private" } else { "public" },
                role
            );
            st.cells.set(st.cells.get() + 1);
            ctx.count(&class);
            ctx.count(if expect { "e2e:expect-served" } else { "e2e:expect-refused" });

            let h = &mut handles[r];
            let unauthorized = format!("{nid} is not authorized to fetch {rid}");
            let served_line = format!("Peer {nid} fetched {rid} from us successfully");
            // A fetch that fails without the serving side reporting a refusal (the responder's fixed 3 s
            // channel timeout under load, transport hiccups) decides nothing: it is repeated a few times.
            let mut attempt = 0;
            let (describe, success, refused_logged, data_sent, in_storage) = loop {
                attempt += 1;
                // make sure the session to the serving node is up (a timed-out fetch disconnects)
                let connected = h
                    .handle
                    .sessions()
                    .map(|ss| ss.iter().any(|s| s.nid == server.id && s.is_connected()))
                    .unwrap_or(false);
                let mut connect_trouble = None;
                if !connected {
                    ctx.count("e2e:reconnect");
                    let opts = ConnectOptions { persistent: false, timeout: Duration::from_secs(60) };
                    match h.handle.connect(server.id, server.addr.into(), opts) {
                        Ok(ConnectResult::Connected) => {}
                        other => connect_trouble = Some(format!("{other:?}")),
                    }
                }
                let result = match connect_trouble {
                    Some(t) => Ok(FetchResult::Failed { reason: format!("harness: cannot connect to the serving node: {t}") }),
                    None => {
                        h.handle.seed(rid, Scope::All).expect("harness: requester seeds");
                        h.handle.fetch(rid, server.id, FETCH_TIMEOUT)
                    }
                };
                let success = matches!(&result, Ok(FetchResult::Success { .. }));
                let refused_logged = if success {
                    has_line(&unauthorized)
                } else {
                    wait_for_line(&unauthorized, if expect { Duration::from_secs(2) } else { LOG_WAIT })
                };
                for e in s_events.try_iter() {
                    if let Event::UploadPack(up) = e {
                        match up {
                            UploadPack::Done { rid, remote, .. }
                            | UploadPack::Write { rid, remote, .. }
                            | UploadPack::PackProgress { rid, remote, .. } => {
                                upload_events.insert((rid, remote));
                            }
                            UploadPack::Error { .. } => {}
                        }
                    }
                }
                let data_sent = upload_events.contains(&(rid, nid));
                let in_storage = h.storage.contains(&rid).expect("harness: requester storage readable");
                let shown = match &result {
                    Ok(FetchResult::Success { updated, clone, .. }) => {
                        format!("Success({} refs, clone={clone})", updated.len())
                    }
                    other => format!("{other:?}"),
                };
                let describe = format!(
                    "requester req{r} ({role}) fetching repo #{p} {spec:?} from the serving node (default policy {}), attempt {attempt}: \
                     fetch result {shown}, 'not authorized' logged: {refused_logged}, upload-pack events for the pair: {data_sent}, \
                     repository in requester storage: {in_storage}",
                    if m.default_allow { "allow" } else { "block" }
                );
                let decided = success
                    || refused_logged
                    || has_line(&served_line)
                    || (!expect && (data_sent || (in_storage && phase == 0)));
                if decided || attempt >= MAX_ATTEMPTS {
                    break (describe, success, refused_logged, data_sent, in_storage);
                }
                ctx.count("e2e:retry-after-undecided-failure");
                eprintln!("HARNESS: C12 e2e retry: {describe}");
            };

            if !expect {
                let sig_kind = if !seeded { "unseeded" } else { "invisible" };
                let sig_kind = if phase == 1 && sig_kind == "invisible" && (m.repos[p].allow >> r & 1 == 1) { "revoked" } else { sig_kind };
                if success || has_line(&served_line) {
                    verdict = fail(format!("e2e:served-{sig_kind}"), describe);
                    break 'phases;
                }
                if data_sent {
                    verdict = fail(format!("e2e:data-sent-{sig_kind}"), describe);
                    break 'phases;
                }
                if in_storage && phase == 0 {
                    verdict = fail(format!("e2e:repository-arrived-{sig_kind}"), describe);
                    break 'phases;
                }
                if refused_logged {
                    refused_cells += 1;
                    ctx.count("e2e:refused-as-expected");
                } else {
                    ctx.count("e2e:inconclusive:failed-without-unauthorized");
                    st.inconclusive.set(st.inconclusive.get() + 1);
                    eprintln!("HARNESS: C12 e2e inconclusive: {describe}");
                }
            } else {
                if refused_logged {
                    verdict = fail("e2e:authorized-peer-refused", describe);
                    break 'phases;
                }
                if success {
                    ctx.count("e2e:served-as-expected");
                    if !in_storage {
                        ctx.count("e2e:served-but-not-in-storage");
                    }
                    if data_sent {
                        ctx.count("e2e:served-with-upload-events");
                    }
                    if spec.private {
                        allowed_private_cells += 1;
                    }
                } else {
                    ctx.count("e2e:inconclusive:authorized-fetch-failed");
                    st.inconclusive.set(st.inconclusive.get() + 1);
                    eprintln!("HARNESS: C12 e2e inconclusive: {describe}");
                }
            }
        }

        }
        if verdict.is_ok() && refused_cells > 0 && allowed_private_cells > 0 {
            ctx.nontrivial(&("e2e", m));
            ctx.sample("e2e", m);
        }
        drop(handles);
        drop(server);
        verdict
    }

    fn check_matrix(ctx: &Ctx, m: &Matrix, st: &Stats) -> CaseResult {
        match catch(|| exec(ctx, m, st)) {
            Ok(r) => r,
            Err((loc, msg)) => {
                // a panic here is in the test environment / harness, not a verdict
                st.trouble.borrow_mut().push(format!("{loc}: {msg}"));
                Ok(())
            }
        }
    }

    fn spec_strategy() -> impl Strategy<Value = RepoSpec> {
        (0u8..3, prop_oneof![1 => Just(false), 3 => Just(true)], 0u8..8, prop_oneof![3 => Just(0u8), 2 => 0u8..8], prop_oneof![3 => Just(false), 1 => Just(true)])
            .prop_map(|(seeding, private, allow, delegates, flipped)| RepoSpec {
                seeding,
                private,
                allow: if private { allow } else { 0 },
                delegates,
                flipped,
            })
    }

    /// Quick: four repositories — a seeded private one with at least one visible requester and one
    /// stranger; one without policy entry and one explicitly blocked (one of them public, the other
    /// private with a non-empty allow list, so that only the seeding policy stands between the data and
    /// a requester who may see it); a seeded public or all-allowed one (possibly with flipped visibility).
    fn quick_strategy() -> impl Strategy<Value = Matrix> {
        (0usize..REQUESTERS, 1u8..4, 0u8..4, any::<bool>(), 1u8..8, any::<bool>(), any::<bool>(), any::<u16>()).prop_map(
            |(stranger, a, d, nopolicy_private, unserved_allow, last_private, flipped, order)| {
                // spread the 2-bit masks `a`, `d` over the two non-stranger requesters
                let others: Vec<usize> = (0..REQUESTERS).filter(|i| *i != stranger).collect();
                let spread = |m: u8| -> u8 { (0..2).filter(|k| m >> k & 1 == 1).map(|k| 1u8 << others[k]).sum() };
                let (allow, delegates) = (spread(a), spread(d));
                // make sure the second phase has a served repository to revoke a requester from
                let last_private = last_private || d != 0;
                let unserved = |seeding: u8, private: bool| RepoSpec {
                    seeding,
                    private,
                    allow: if private { unserved_allow } else { 0 },
                    delegates: 0,
                    flipped: false,
                };
                Matrix {
                    default_allow: false,
                    repos: vec![
                        RepoSpec { seeding: 0, private: true, allow, delegates, flipped: false },
                        unserved(1, nopolicy_private),
                        unserved(2, !nopolicy_private),
                        RepoSpec { seeding: 0, private: last_private, allow: if last_private { 7 } else { 0 }, delegates: 0, flipped },
                    ],
                    order,
                    revoke: true,
                    single_worker: true,
                }
            },
        )
    }

    fn thorough_strategy() -> impl Strategy<Value = Matrix> {
        (any::<bool>(), proptest::collection::vec(spec_strategy(), 6..=9), any::<u16>(), any::<bool>(), any::<bool>())
            .prop_map(|(default_allow, repos, order, revoke, single_worker)| Matrix { default_allow, repos, order, revoke, single_worker })
    }

    pub fn run(ctx: &Ctx) {
        let st = Stats { cells: Cell::new(0), inconclusive: Cell::new(0), trouble: RefCell::new(vec![]) };
        let n = ctx.cases(1, 32);
        if ctx.quick() {
            ctx.run("e2e", quick_strategy(), n, |m: &Matrix| check_matrix(ctx, m, &st));
        } else {
            ctx.run("e2e", thorough_strategy(), n, |m: &Matrix| check_matrix(ctx, m, &st));
        }
        let trouble = st.trouble.borrow();
        if !trouble.is_empty() {
            panic!("HARNESS: C12 e2e environment trouble (not a verdict): {}", trouble.join(" | "));
        }
        let (cells, inc) = (st.cells.get(), st.inconclusive.get());
        if inc * 3 > cells {
            panic!("HARNESS: C12 e2e: {inc} of {cells} cells inconclusive (timeouts / transport trouble), not a verdict");
        }
    }
}
