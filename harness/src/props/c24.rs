//! C24 — Node databases behave like their simple models.
//!
//! Five stateful model-based sub-checks, one per store (routing table, repo
//! sync status, refs cache, policy store, gossip announcements). Each case is
//! an operation sequence over a tiny key space; after every operation the
//! return value and the whole query surface are compared with an in-memory
//! map that implements only what the property statement says.
use std::collections::{BTreeMap, BTreeSet};
use std::str::FromStr;
use std::sync::OnceLock;

use proptest::prelude::*;
use radicle::git::{Oid, Qualified, RefString};
use radicle::identity::RepoId;
use radicle::node::address::Store as AddressStore;
use radicle::node::device::Device;
use radicle::node::policy::store::{Store as PolicyStore, Write};
use radicle::node::policy::{Policy, Scope, SeedingPolicy};
use radicle::node::refs::Store as RefsStore;
use radicle::node::routing::{InsertResult, Store as RoutingStore};
use radicle::node::seed::Store as SeedStore;
use radicle::node::{Alias, AliasStore, Database, Features, NodeId, Timestamp, UserAgent, PROTOCOL_VERSION};
use radicle::storage::refs::RefsAt;
use radicle_crypto::test::signer::MockSigner;
use radicle_node::bounded::BoundedVec;
use radicle_node::service::filter::Filter;
use radicle_node::service::gossip::{RelayStatus, Store as GossipStore};
use radicle_node::service::message::{
    Announcement, AnnouncementMessage, InventoryAnnouncement, NodeAnnouncement, RefsAnnouncement,
};
use radicle_node::LocalTime;
use serde::{Deserialize, Serialize};

use crate::core::*;
use crate::ensure;

pub const PROP: Prop = Prop {
    id: "C24",
    shards: (8, 16),
    level: "exploration",
    rule: "Per store, a sequence of 0..40 operations over 3 nodes x 3 repositories x 4 timestamps (plus 3 object ids, \
           2 ref names, 3 aliases, 3 payload variants) is run against a fresh in-memory sqlite database and against \
           an in-memory map; return values and the full query surface are compared after every step. Non-trivial: \
           the sequence contains an update attempt on an existing entry with an equal or older timestamp (or an \
           equal value), a prune that meets entries of the ignored node, or a policy write on a blocked entry. \
           Distinct = hash of the whole operation sequence.",
    assumptions: &[
        "routing and sync-status rows reference known nodes (foreign key): the three pool nodes are inserted into the \
         address book first, as the service does before it records inventories or sync statuses",
        "gossip timestamps are non-zero (zero is rejected by an assert and belongs to C13); filtered() is called with from <= to",
        "Store::announced is called with the announcement's own node id, as the service does",
        "routing prune with a limit may pick any old entries: the model only requires removed ⊆ {older than cutoff, not the \
         ignored node}, count <= limit, the returned count to be exact, and (when the ignored node has no old entries) \
         count == min(limit, eligible)",
        "the relay status of an announcement after it was replaced by a newer one, and the scope of a seeding entry created \
         through set_seed_policy, are unspecified: the model learns them from the first observation",
        "result order of set-valued queries is not compared (except relays(), documented to be in insertion order)",
    ],
    run,
    budget_s: (600, 7200),
};

// ---------------------------------------------------------------------------
// World: fixed pools
// ---------------------------------------------------------------------------

const N: usize = 3;
const TS: [u64; 4] = [0, 1000, 2000, 3000];
/// cut-off values for prune: below, between, equal, above
const CUTS: [u64; 9] = [0, 500, 1000, 1001, 2000, 2500, 3000, 3001, 4000];

struct World {
    nodes: Vec<NodeId>,
    devices: Vec<Device<MockSigner>>,
    repos: Vec<RepoId>,
    oids: Vec<Oid>,
    refnames: Vec<Qualified<'static>>,
    aliases: Vec<Alias>,
}

fn world() -> &'static World {
    static W: OnceLock<World> = OnceLock::new();
    W.get_or_init(|| {
        let devices: Vec<Device<MockSigner>> = (0..N)
            .map(|i| {
                let mut seed = [0u8; 32];
                seed[0] = 0xC2;
                seed[1] = 0x40 + i as u8;
                Device::mock_from_seed(seed)
            })
            .collect();
        let nodes = devices.iter().map(|d| *d.node_id()).collect();
        let hex = |c: char| -> Oid { Oid::from_str(&std::iter::repeat(c).take(40).collect::<String>()).expect("oid") };
        let repos = ['1', '2', '3'].into_iter().map(|c| RepoId::from(hex(c))).collect();
        let oids = ['a', 'b', 'c'].into_iter().map(hex).collect();
        let refnames = ["refs/heads/main", "refs/rad/sigrefs"]
            .into_iter()
            .map(|s| Qualified::from_refstr(RefString::try_from(s).expect("refstr")).expect("qualified").to_owned())
            .collect();
        // "eve" is a case-insensitive substring of "Steve"
        let aliases = ["eve", "Steve", "bob"].into_iter().map(Alias::new).collect();
        World { nodes, devices, repos, oids, refnames, aliases }
    })
}

fn ts(i: u8) -> u64 {
    TS[i as usize % TS.len()]
}

fn timestamp(ms: u64) -> Timestamp {
    Timestamp::try_from(ms).expect("timestamp in range")
}

fn store_err<T, E: std::fmt::Display>(what: &str, r: Result<T, E>) -> Result<T, Fail> {
    r.map_err(|e| Fail { sig: format!("{what}:store-error"), msg: format!("{what}: unexpected store error: {e}") })
}

/// Fresh node database with the pool nodes known to the address book.
fn fresh_db(w: &World) -> Result<Database, Fail> {
    let mut db = store_err("db:memory", Database::memory())?;
    for n in &w.nodes {
        insert_node(&mut db, n)?;
    }
    Ok(db)
}

fn insert_node(db: &mut Database, n: &NodeId) -> Result<(), Fail> {
    store_err(
        "db:insert-node",
        AddressStore::insert(
            db,
            n,
            PROTOCOL_VERSION,
            Features::SEED,
            &Alias::new("pool"),
            0,
            &UserAgent::default(),
            timestamp(1),
            [],
        ),
    )?;
    Ok(())
}

// ---------------------------------------------------------------------------
// Routing table
// ---------------------------------------------------------------------------

#[derive(Debug, Clone, Serialize, Deserialize, Hash)]
pub enum RoutingOp {
    /// add_inventory(repos (in order, duplicates allowed), node, ts)
    Add { repos: Vec<u8>, node: u8, t: u8 },
    Remove { repo: u8, node: u8 },
    RemoveMany { repos: Vec<u8>, node: u8 },
    /// prune(CUTS[oldest], limit, ignore)
    Prune { oldest: u8, limit: Option<u8>, ignore: u8 },
}

#[derive(Debug, Clone, Serialize, Deserialize, Hash)]
pub struct RoutingCase {
    ops: Vec<RoutingOp>,
}

type RoutingModel = BTreeMap<(usize, usize), u64>; // (repo, node) -> timestamp

fn routing_scan(w: &World, db: &Database) -> Result<RoutingModel, Fail> {
    let mut out = BTreeMap::new();
    for r in 0..N {
        for n in 0..N {
            if let Some(t) = store_err("routing:entry", RoutingStore::entry(db, &w.repos[r], &w.nodes[n]))? {
                out.insert((r, n), *t);
            }
        }
    }
    Ok(out)
}

fn routing_surface(w: &World, db: &Database, m: &RoutingModel) -> CaseResult {
    let seen = routing_scan(w, db)?;
    ensure!(&seen == m, "routing:entry", "entries (repo,node)->ts are {seen:?}, model {m:?}");
    for r in 0..N {
        let got: BTreeSet<NodeId> = store_err("routing:get", RoutingStore::get(db, &w.repos[r]))?.into_iter().collect();
        let exp: BTreeSet<NodeId> = m.keys().filter(|(rr, _)| *rr == r).map(|(_, n)| w.nodes[*n]).collect();
        ensure!(got == exp, "routing:get", "get(repo {r}) = {got:?}, model {exp:?}");
        let cnt = store_err("routing:count", RoutingStore::count(db, &w.repos[r]))?;
        ensure!(cnt == exp.len(), "routing:count", "count(repo {r}) = {cnt}, model {}", exp.len());
    }
    for n in 0..N {
        let got: BTreeSet<RepoId> = store_err("routing:get_inventory", RoutingStore::get_inventory(db, &w.nodes[n]))?.into_iter().collect();
        let exp: BTreeSet<RepoId> = m.keys().filter(|(_, nn)| *nn == n).map(|(r, _)| w.repos[*r]).collect();
        ensure!(got == exp, "routing:get_inventory", "get_inventory(node {n}) = {got:?}, model {exp:?}");
    }
    let len = store_err("routing:len", RoutingStore::len(db))?;
    ensure!(len == m.len(), "routing:len", "len() = {len}, model {}", m.len());
    let empty = store_err("routing:is_empty", RoutingStore::is_empty(db))?;
    ensure!(empty == m.is_empty(), "routing:is_empty", "is_empty() = {empty}, model has {} entries", m.len());
    let entries: Vec<(RepoId, NodeId)> = store_err("routing:entries", RoutingStore::entries(db))?.collect();
    let got: BTreeSet<(RepoId, NodeId)> = entries.iter().copied().collect();
    let exp: BTreeSet<(RepoId, NodeId)> = m.keys().map(|(r, n)| (w.repos[*r], w.nodes[*n])).collect();
    ensure!(
        got == exp && entries.len() == exp.len(),
        "routing:entries",
        "entries() = {entries:?}, model {exp:?}"
    );
    Ok(())
}

fn check_routing(ctx: &Ctx, c: &RoutingCase) -> CaseResult {
    let w = world();
    let mut db = fresh_db(w)?;
    let mut m: RoutingModel = BTreeMap::new();
    let mut nontrivial = false;
    routing_surface(w, &db, &m)?;
    for (step, op) in c.ops.iter().enumerate() {
        // a wrong return value is reported only if the state agrees with the model (the state clause is the primary one)
        let mut ret_fail: Option<Fail> = None;
        match op {
            RoutingOp::Add { repos, node, t } => {
                let n = *node as usize % N;
                let t = ts(*t);
                let rs: Vec<usize> = repos.iter().map(|r| *r as usize % N).collect();
                let ids: Vec<RepoId> = rs.iter().map(|r| w.repos[*r]).collect();
                let mut exp = vec![];
                for r in &rs {
                    let res = match m.get(&(*r, n)).copied() {
                        None => {
                            m.insert((*r, n), t);
                            ctx.count("routing:add=SeedAdded");
                            InsertResult::SeedAdded
                        }
                        Some(old) if old < t => {
                            m.insert((*r, n), t);
                            ctx.count("routing:add=TimeUpdated");
                            InsertResult::TimeUpdated
                        }
                        Some(old) => {
                            nontrivial = true;
                            ctx.count(if old == t { "routing:add-equal-timestamp" } else { "routing:add-older-timestamp" });
                            InsertResult::NotUpdated
                        }
                    };
                    exp.push((w.repos[*r], res));
                }
                let got = store_err("routing:add_inventory", RoutingStore::add_inventory(&mut db, ids.iter(), w.nodes[n], timestamp(t)))?;
                if got != exp {
                    ret_fail.get_or_insert(Fail { sig: "routing:add_inventory:return".to_string(), msg: format!("step {step}: add_inventory({rs:?}, node {n}, {t}) = {got:?}, model {exp:?}") });
                }
            }
            RoutingOp::Remove { repo, node } => {
                let (r, n) = (*repo as usize % N, *node as usize % N);
                let exp = m.remove(&(r, n)).is_some();
                ctx.count(if exp { "routing:remove-existing" } else { "routing:remove-missing" });
                let got = store_err("routing:remove_inventory", RoutingStore::remove_inventory(&mut db, &w.repos[r], &w.nodes[n]))?;
                ensure!(
                    got == exp,
                    "routing:remove_inventory:return",
                    "step {step}: remove_inventory(repo {r}, node {n}) = {got}, model {exp}"
                );
            }
            RoutingOp::RemoveMany { repos, node } => {
                let n = *node as usize % N;
                let rs: Vec<usize> = repos.iter().map(|r| *r as usize % N).collect();
                let ids: Vec<RepoId> = rs.iter().map(|r| w.repos[*r]).collect();
                for r in &rs {
                    m.remove(&(*r, n));
                }
                ctx.count("routing:remove_inventories");
                store_err("routing:remove_inventories", RoutingStore::remove_inventories(&mut db, ids.iter(), &w.nodes[n]))?;
            }
            RoutingOp::Prune { oldest, limit, ignore } => {
                let cut = CUTS[*oldest as usize % CUTS.len()];
                let ig = *ignore as usize % N;
                let limit = limit.map(|l| l as usize);
                let eligible: BTreeSet<(usize, usize)> =
                    m.iter().filter(|((_, n), t)| *n != ig && **t < cut).map(|(k, _)| *k).collect();
                let ignored_old = m.iter().filter(|((_, n), t)| *n == ig && **t < cut).count();
                if ignored_old > 0 {
                    nontrivial = true;
                    ctx.count("routing:prune-meets-old-entries-of-ignored-node");
                }
                let got = store_err("routing:prune", RoutingStore::prune(&mut db, timestamp(cut), limit, &w.nodes[ig]))?;
                let after = routing_scan(w, &db)?;
                let removed: BTreeSet<(usize, usize)> = m.keys().filter(|k| !after.contains_key(k)).copied().collect();
                for k in &removed {
                    ensure!(
                        k.1 != ig,
                        "routing:prune:removed-ignored-node-entry",
                        "step {step}: prune(<{cut}, limit {limit:?}, ignore node {ig}) removed {k:?} of the ignored node"
                    );
                    ensure!(
                        eligible.contains(k),
                        "routing:prune:removed-entry-not-older",
                        "step {step}: prune(<{cut}) removed {k:?} with timestamp {}",
                        m[k]
                    );
                }
                for (k, t) in &after {
                    ensure!(
                        m.get(k) == Some(t),
                        "routing:prune:changed-other-entry",
                        "step {step}: prune changed or created {k:?} -> {t}"
                    );
                }
                ensure!(
                    got == removed.len(),
                    "routing:prune:return",
                    "step {step}: prune returned {got} but {} entries disappeared",
                    removed.len()
                );
                match limit {
                    None => {
                        ctx.count("routing:prune-unlimited");
                        ensure!(
                            removed == eligible,
                            "routing:prune:kept-old-entry",
                            "step {step}: prune(<{cut}, no limit, ignore node {ig}) removed {removed:?}, eligible {eligible:?}"
                        );
                    }
                    Some(l) => {
                        ctx.count("routing:prune-limited");
                        ensure!(
                            removed.len() <= l,
                            "routing:prune:over-limit",
                            "step {step}: prune with limit {l} removed {} entries",
                            removed.len()
                        );
                        if ignored_old == 0 {
                            ensure!(
                                removed.len() == l.min(eligible.len()),
                                "routing:prune:limit-count",
                                "step {step}: prune(<{cut}, limit {l}) removed {} of {} eligible entries",
                                removed.len(),
                                eligible.len()
                            );
                        } else if removed.len() < l.min(eligible.len()) {
                            ctx.count("routing:observation:limit-consumed-by-ignored-node-entries");
                        }
                    }
                }
                for k in &removed {
                    m.remove(k);
                }
            }
        }
        routing_surface(w, &db, &m)?;
        if let Some(f) = ret_fail {
            return Err(f);
        }
    }
    if nontrivial {
        ctx.nontrivial(c);
        ctx.sample("routing", c);
    }
    Ok(())
}

// ---------------------------------------------------------------------------
// Repository sync status
// ---------------------------------------------------------------------------

#[derive(Debug, Clone, Serialize, Deserialize, Hash)]
pub enum SeedOp {
    Synced { repo: u8, node: u8, oid: u8, t: u8 },
    /// remove the node from the address book (rows cascade) and insert it again
    ForgetNode { node: u8 },
}

#[derive(Debug, Clone, Serialize, Deserialize, Hash)]
pub struct SeedCase {
    ops: Vec<SeedOp>,
}

fn check_seed(ctx: &Ctx, c: &SeedCase) -> CaseResult {
    let w = world();
    let mut db = fresh_db(w)?;
    let mut m: BTreeMap<(usize, usize), (usize, u64)> = BTreeMap::new(); // (repo,node) -> (oid, ts)
    let mut nontrivial = false;
    for (step, op) in c.ops.iter().enumerate() {
        // a wrong return value is reported only if the state agrees with the model (the state clause is the primary one)
        let mut ret_fail: Option<Fail> = None;
        match op {
            SeedOp::Synced { repo, node, oid, t } => {
                let (r, n, o) = (*repo as usize % N, *node as usize % N, *oid as usize % N);
                let t = ts(*t);
                let exp = match m.get(&(r, n)).copied() {
                    None => {
                        ctx.count("seed:synced-new");
                        true
                    }
                    Some((oo, ot)) => {
                        let newer = ot < t;
                        let differs = oo != o;
                        if !newer || !differs {
                            nontrivial = true;
                        }
                        ctx.count(match (newer, differs) {
                            (true, true) => "seed:synced-newer-different",
                            (true, false) => "seed:synced-newer-same-oid",
                            (false, true) if ot == t => "seed:synced-equal-timestamp-different-oid",
                            (false, true) => "seed:synced-older-different-oid",
                            (false, false) => "seed:synced-not-newer-same-oid",
                        });
                        newer && differs
                    }
                };
                if exp {
                    m.insert((r, n), (o, t));
                }
                let got = store_err("seed:synced", SeedStore::synced(&mut db, &w.repos[r], &w.nodes[n], w.oids[o], timestamp(t)))?;
                if got != exp {
                    ret_fail.get_or_insert(Fail { sig: "seed:synced:return".to_string(), msg: format!("step {step}: synced(repo {r}, node {n}, oid {o}, {t}) = {got}, model {exp}") });
                }
            }
            SeedOp::ForgetNode { node } => {
                let n = *node as usize % N;
                ctx.count("seed:forget-node");
                store_err("seed:remove-node", AddressStore::remove(&mut db, &w.nodes[n]))?;
                insert_node(&mut db, &w.nodes[n])?;
                m.retain(|(_, nn), _| *nn != n);
            }
        }
        // query surface
        for r in 0..N {
            let mut got = BTreeMap::new();
            for s in store_err("seed:seeds_for", SeedStore::seeds_for(&db, &w.repos[r]))? {
                let s = store_err("seed:seeds_for", s)?;
                let prev = got.insert(s.nid, (s.synced_at.oid, s.synced_at.timestamp.as_millis()));
                ensure!(prev.is_none(), "seed:seeds_for:duplicate", "step {step}: seeds_for(repo {r}) lists {} twice", s.nid);
            }
            let exp: BTreeMap<NodeId, (Oid, u64)> =
                m.iter().filter(|((rr, _), _)| *rr == r).map(|((_, n), (o, t))| (w.nodes[*n], (w.oids[*o], *t))).collect();
            ensure!(got == exp, "seed:seeds_for", "step {step}: seeds_for(repo {r}) = {got:?}, model {exp:?}");
        }
        for n in 0..N {
            let mut got = BTreeMap::new();
            for s in store_err("seed:seeded_by", SeedStore::seeded_by(&db, &w.nodes[n]))? {
                let (rid, at) = store_err("seed:seeded_by", s)?;
                let prev = got.insert(rid, (at.oid, at.timestamp.as_millis()));
                ensure!(prev.is_none(), "seed:seeded_by:duplicate", "step {step}: seeded_by(node {n}) lists {rid} twice");
            }
            let exp: BTreeMap<RepoId, (Oid, u64)> =
                m.iter().filter(|((_, nn), _)| *nn == n).map(|((r, _), (o, t))| (w.repos[*r], (w.oids[*o], *t))).collect();
            ensure!(got == exp, "seed:seeded_by", "step {step}: seeded_by(node {n}) = {got:?}, model {exp:?}");
        }
        if let Some(f) = ret_fail {
            return Err(f);
        }
    }
    if nontrivial {
        ctx.nontrivial(c);
        ctx.sample("seed-sync-status", c);
    }
    Ok(())
}

// ---------------------------------------------------------------------------
// Refs cache
// ---------------------------------------------------------------------------

#[derive(Debug, Clone, Serialize, Deserialize, Hash)]
pub enum RefsOp {
    Set { repo: u8, ns: u8, name: u8, oid: u8, t: u8 },
    Delete { repo: u8, ns: u8, name: u8 },
}

#[derive(Debug, Clone, Serialize, Deserialize, Hash)]
pub struct RefsCase {
    ops: Vec<RefsOp>,
}

fn check_refs(ctx: &Ctx, c: &RefsCase) -> CaseResult {
    let w = world();
    // Nb. the refs table has no foreign key; use a database without known nodes.
    let mut db = store_err("db:memory", Database::memory())?;
    let mut m: BTreeMap<(usize, usize, usize), (usize, u64)> = BTreeMap::new();
    let mut nontrivial = false;
    let nnames = w.refnames.len();
    for (step, op) in c.ops.iter().enumerate() {
        // a wrong return value is reported only if the state agrees with the model (the state clause is the primary one)
        let mut ret_fail: Option<Fail> = None;
        match op {
            RefsOp::Set { repo, ns, name, oid, t } => {
                let (r, n, f, o) = (*repo as usize % N, *ns as usize % N, *name as usize % nnames, *oid as usize % N);
                let t = ts(*t);
                let exp = match m.get(&(r, n, f)).copied() {
                    None => {
                        ctx.count("refs:set-new");
                        true
                    }
                    Some((oo, ot)) => {
                        let newer = ot < t;
                        let differs = oo != o;
                        if !newer || !differs {
                            nontrivial = true;
                        }
                        ctx.count(match (newer, differs) {
                            (true, true) => "refs:set-newer-different",
                            (true, false) => "refs:set-newer-same-oid",
                            (false, true) if ot == t => "refs:set-equal-timestamp-different-oid",
                            (false, true) => "refs:set-older-different-oid",
                            (false, false) => "refs:set-not-newer-same-oid",
                        });
                        newer && differs
                    }
                };
                if exp {
                    m.insert((r, n, f), (o, t));
                }
                let got = store_err(
                    "refs:set",
                    RefsStore::set(&mut db, &w.repos[r], &w.nodes[n], &w.refnames[f], w.oids[o], LocalTime::from_millis(t as u128)),
                )?;
                if got != exp {
                    ret_fail.get_or_insert(Fail { sig: "refs:set:return".to_string(), msg: format!("step {step}: set(repo {r}, ns {n}, ref {f}, oid {o}, {t}) = {got}, model {exp}") });
                }
            }
            RefsOp::Delete { repo, ns, name } => {
                let (r, n, f) = (*repo as usize % N, *ns as usize % N, *name as usize % nnames);
                let exp = m.remove(&(r, n, f)).is_some();
                ctx.count(if exp { "refs:delete-existing" } else { "refs:delete-missing" });
                let got = store_err("refs:delete", RefsStore::delete(&mut db, &w.repos[r], &w.nodes[n], &w.refnames[f]))?;
                ensure!(got == exp, "refs:delete:return", "step {step}: delete(repo {r}, ns {n}, ref {f}) = {got}, model {exp}");
            }
        }
        for r in 0..N {
            for n in 0..N {
                for f in 0..nnames {
                    let got = store_err("refs:get", RefsStore::get(&db, &w.repos[r], &w.nodes[n], &w.refnames[f]))?
                        .map(|(o, t)| (o, t.as_millis()));
                    let exp = m.get(&(r, n, f)).map(|(o, t)| (w.oids[*o], *t));
                    ensure!(got == exp, "refs:get", "step {step}: get(repo {r}, ns {n}, ref {f}) = {got:?}, model {exp:?}");
                }
            }
        }
        let cnt = store_err("refs:count", RefsStore::count(&db))?;
        ensure!(cnt == m.len(), "refs:count", "step {step}: count() = {cnt}, model {}", m.len());
        let empty = store_err("refs:is_empty", RefsStore::is_empty(&db))?;
        ensure!(empty == m.is_empty(), "refs:is_empty", "step {step}: is_empty() = {empty}, model {}", m.len());
        if let Some(f) = ret_fail {
            return Err(f);
        }
    }
    if nontrivial {
        ctx.nontrivial(c);
        ctx.sample("refs-cache", c);
    }
    Ok(())
}

// ---------------------------------------------------------------------------
// Policy store
// ---------------------------------------------------------------------------

#[derive(Debug, Clone, Serialize, Deserialize, Hash)]
pub enum PolicyOp {
    Follow { node: u8, alias: Option<u8> },
    SetFollowPolicy { node: u8, block: bool },
    Unfollow { node: u8 },
    UnblockNid { node: u8 },
    Seed { repo: u8, all: bool },
    SetSeedPolicy { repo: u8, block: bool },
    Unseed { repo: u8 },
    UnblockRid { repo: u8 },
}

#[derive(Debug, Clone, Serialize, Deserialize, Hash)]
pub struct PolicyCase {
    ops: Vec<PolicyOp>,
}

fn pol(block: bool) -> Policy {
    if block {
        Policy::Block
    } else {
        Policy::Allow
    }
}

fn check_policy(ctx: &Ctx, c: &PolicyCase) -> CaseResult {
    let w = world();
    let mut db = store_err("policy:memory", PolicyStore::<Write>::memory())?;
    // following: node -> (alias index, policy)
    let mut fol: BTreeMap<usize, (Option<usize>, Policy)> = BTreeMap::new();
    // seeding: repo -> (scope (None = not yet observable), policy)
    let mut sed: BTreeMap<usize, (Option<Scope>, Policy)> = BTreeMap::new();
    let mut nontrivial = false;
    for (step, op) in c.ops.iter().enumerate() {
        // a wrong return value is reported only if the state agrees with the model (the state clause is the primary one)
        let mut ret_fail: Option<Fail> = None;
        match op {
            PolicyOp::Follow { node, alias } => {
                let n = *node as usize % N;
                let a = alias.map(|a| a as usize % w.aliases.len());
                let old = fol.get(&n).copied();
                if matches!(old, Some((_, Policy::Block))) {
                    nontrivial = true;
                    ctx.count("policy:follow-on-blocked-node");
                } else {
                    ctx.count(if old.is_some() { "policy:follow-existing" } else { "policy:follow-new" });
                }
                let new = (a, Policy::Allow);
                fol.insert(n, new);
                let exp = old != Some(new);
                let got = store_err("policy:follow", db.follow(&w.nodes[n], a.map(|a| &w.aliases[a])))?;
                if got != exp {
                    ret_fail.get_or_insert(Fail { sig: "policy:follow:return".to_string(), msg: format!("step {step}: follow(node {n}, alias {a:?}) = {got}, model {exp} (before: {old:?})") });
                }
            }
            PolicyOp::SetFollowPolicy { node, block } => {
                let n = *node as usize % N;
                let p = pol(*block);
                let old = fol.get(&n).copied();
                if matches!(old, Some((_, Policy::Block))) {
                    nontrivial = true;
                    ctx.count("policy:set_follow_policy-on-blocked-node");
                } else {
                    ctx.count("policy:set_follow_policy");
                }
                let new = (old.and_then(|(a, _)| a), p);
                fol.insert(n, new);
                let exp = old != Some(new);
                let got = store_err("policy:set_follow_policy", db.set_follow_policy(&w.nodes[n], p))?;
                if got != exp {
                    ret_fail.get_or_insert(Fail { sig: "policy:set_follow_policy:return".to_string(), msg: format!("step {step}: set_follow_policy(node {n}, {p}) = {got}, model {exp} (before: {old:?})") });
                }
            }
            PolicyOp::Unfollow { node } => {
                let n = *node as usize % N;
                let exp = fol.remove(&n).is_some();
                ctx.count("policy:unfollow");
                let got = store_err("policy:unfollow", db.unfollow(&w.nodes[n]))?;
                if got != exp {
                    ret_fail.get_or_insert(Fail { sig: "policy:unfollow:return".to_string(), msg: format!("step {step}: unfollow(node {n}) = {got}, model {exp}") });
                }
            }
            PolicyOp::UnblockNid { node } => {
                let n = *node as usize % N;
                let exp = matches!(fol.get(&n), Some((_, Policy::Block)));
                if exp {
                    fol.remove(&n);
                }
                ctx.count(if exp { "policy:unblock_nid-blocked" } else { "policy:unblock_nid-not-blocked" });
                let got = store_err("policy:unblock_nid", db.unblock_nid(&w.nodes[n]))?;
                if got != exp {
                    ret_fail.get_or_insert(Fail { sig: "policy:unblock_nid:return".to_string(), msg: format!("step {step}: unblock_nid(node {n}) = {got}, model {exp}") });
                }
            }
            PolicyOp::Seed { repo, all } => {
                let r = *repo as usize % N;
                let scope = if *all { Scope::All } else { Scope::Followed };
                let old = sed.get(&r).copied();
                if matches!(old, Some((_, Policy::Block))) {
                    nontrivial = true;
                    ctx.count("policy:seed-on-blocked-repo");
                } else {
                    ctx.count(if old.is_some() { "policy:seed-existing" } else { "policy:seed-new" });
                }
                let new = (Some(scope), Policy::Allow);
                sed.insert(r, new);
                let exp = old != Some(new);
                let got = store_err("policy:seed", db.seed(&w.repos[r], scope))?;
                if got != exp {
                    ret_fail.get_or_insert(Fail { sig: "policy:seed:return".to_string(), msg: format!("step {step}: seed(repo {r}, {scope}) = {got}, model {exp} (before: {old:?})") });
                }
            }
            PolicyOp::SetSeedPolicy { repo, block } => {
                let r = *repo as usize % N;
                let p = pol(*block);
                let old = sed.get(&r).copied();
                if matches!(old, Some((_, Policy::Block))) {
                    nontrivial = true;
                    ctx.count("policy:set_seed_policy-on-blocked-repo");
                } else {
                    ctx.count("policy:set_seed_policy");
                }
                let new = (old.and_then(|(s, _)| s), p);
                sed.insert(r, new);
                let exp = old.map(|(_, op)| op) != Some(p);
                let got = store_err("policy:set_seed_policy", db.set_seed_policy(&w.repos[r], p))?;
                if got != exp {
                    ret_fail.get_or_insert(Fail { sig: "policy:set_seed_policy:return".to_string(), msg: format!("step {step}: set_seed_policy(repo {r}, {p}) = {got}, model {exp} (before: {old:?})") });
                }
            }
            PolicyOp::Unseed { repo } => {
                let r = *repo as usize % N;
                let exp = sed.remove(&r).is_some();
                ctx.count("policy:unseed");
                let got = store_err("policy:unseed", db.unseed(&w.repos[r]))?;
                if got != exp {
                    ret_fail.get_or_insert(Fail { sig: "policy:unseed:return".to_string(), msg: format!("step {step}: unseed(repo {r}) = {got}, model {exp}") });
                }
            }
            PolicyOp::UnblockRid { repo } => {
                let r = *repo as usize % N;
                let exp = matches!(sed.get(&r), Some((_, Policy::Block)));
                if exp {
                    sed.remove(&r);
                }
                ctx.count(if exp { "policy:unblock_rid-blocked" } else { "policy:unblock_rid-not-blocked" });
                let got = store_err("policy:unblock_rid", db.unblock_rid(&w.repos[r]))?;
                if got != exp {
                    ret_fail.get_or_insert(Fail { sig: "policy:unblock_rid:return".to_string(), msg: format!("step {step}: unblock_rid(repo {r}) = {got}, model {exp}") });
                }
            }
        }
        // --- following surface
        for n in 0..N {
            let got = store_err("policy:follow_policy", db.follow_policy(&w.nodes[n]))?;
            let exp = fol.get(&n).copied();
            let got_v = got.as_ref().map(|f| (f.alias.clone(), f.policy));
            let exp_v = exp.map(|(a, p)| (a.map(|a| w.aliases[a].clone()), p));
            ensure!(
                got_v == exp_v,
                "policy:follow_policy",
                "step {step}: follow_policy(node {n}) = {got_v:?}, last write says {exp_v:?}"
            );
            if let Some(f) = &got {
                ensure!(f.nid == w.nodes[n], "policy:follow_policy:nid", "step {step}: follow_policy(node {n}) names {}", f.nid);
            }
            let isf = store_err("policy:is_following", db.is_following(&w.nodes[n]))?;
            let exp_isf = matches!(exp, Some((_, Policy::Allow)));
            ensure!(isf == exp_isf, "policy:is_following", "step {step}: is_following(node {n}) = {isf}, last write says {exp_isf}");
            let al = db.alias(&w.nodes[n]);
            let exp_al = exp.and_then(|(a, _)| a).map(|a| w.aliases[a].clone());
            ensure!(al == exp_al, "policy:alias", "step {step}: alias(node {n}) = {al:?}, model {exp_al:?}");
        }
        {
            let all: Vec<_> = store_err("policy:follow_policies", db.follow_policies())?.collect();
            let got: BTreeMap<NodeId, (Option<Alias>, Policy)> = all.iter().map(|f| (f.nid, (f.alias.clone(), f.policy))).collect();
            let exp: BTreeMap<NodeId, (Option<Alias>, Policy)> =
                fol.iter().map(|(n, (a, p))| (w.nodes[*n], (a.map(|a| w.aliases[a].clone()), *p))).collect();
            ensure!(
                got == exp && all.len() == exp.len(),
                "policy:follow_policies",
                "step {step}: follow_policies() = {all:?}, model {exp:?}"
            );
        }
        for q in 0..w.aliases.len() {
            let needle = w.aliases[q].as_str().to_uppercase();
            let got = db.reverse_lookup(&w.aliases[q]);
            let mut exp: BTreeMap<Alias, BTreeSet<NodeId>> = BTreeMap::new();
            for (n, (a, _)) in &fol {
                if let Some(a) = a {
                    if w.aliases[*a].as_str().to_uppercase().contains(&needle) {
                        exp.entry(w.aliases[*a].clone()).or_default().insert(w.nodes[*n]);
                    }
                }
            }
            ensure!(got == exp, "policy:reverse_lookup", "step {step}: reverse_lookup({}) = {got:?}, model {exp:?}", w.aliases[q]);
        }
        // --- seeding surface
        let mut seen: BTreeMap<RepoId, SeedingPolicy> = BTreeMap::new();
        {
            let all: Vec<_> = store_err("policy:seed_policies", db.seed_policies())?.collect();
            for s in &all {
                ensure!(
                    seen.insert(s.rid, s.policy).is_none(),
                    "policy:seed_policies:duplicate",
                    "step {step}: seed_policies() lists {} twice",
                    s.rid
                );
            }
        }
        for r in 0..N {
            let got = store_err("policy:seed_policy", db.seed_policy(&w.repos[r]))?;
            if let Some(s) = &got {
                ensure!(s.rid == w.repos[r], "policy:seed_policy:rid", "step {step}: seed_policy(repo {r}) names {}", s.rid);
            }
            let got_p = got.as_ref().map(|s| s.policy);
            ensure!(
                seen.get(&w.repos[r]).copied() == got_p,
                "policy:seed_policies",
                "step {step}: seed_policies() has {:?} for repo {r}, seed_policy() = {got_p:?}",
                seen.get(&w.repos[r])
            );
            // learn a scope that becomes observable for the first time
            if let (Some(SeedingPolicy::Allow { scope }), Some((None, Policy::Allow))) = (got_p, sed.get(&r).copied()) {
                sed.insert(r, (Some(scope), Policy::Allow));
                ctx.count("policy:scope-learned-from-first-observation");
            }
            let exp_p = sed.get(&r).map(|(s, p)| match p {
                Policy::Block => SeedingPolicy::Block,
                Policy::Allow => SeedingPolicy::Allow { scope: s.expect("scope known when allowed") },
            });
            ensure!(
                got_p == exp_p,
                "policy:seed_policy",
                "step {step}: seed_policy(repo {r}) = {got_p:?}, last write says {exp_p:?}"
            );
            let iss = store_err("policy:is_seeding", db.is_seeding(&w.repos[r]))?;
            let exp_iss = matches!(sed.get(&r), Some((_, Policy::Allow)));
            ensure!(iss == exp_iss, "policy:is_seeding", "step {step}: is_seeding(repo {r}) = {iss}, last write says {exp_iss}");
        }
        if let Some(f) = ret_fail {
            return Err(f);
        }
    }
    if nontrivial {
        ctx.nontrivial(c);
        ctx.sample("policy", c);
    }
    Ok(())
}

// ---------------------------------------------------------------------------
// Gossip announcements
// ---------------------------------------------------------------------------

#[derive(Debug, Clone, Copy, Serialize, Deserialize, Hash, PartialEq, Eq, PartialOrd, Ord)]
pub enum Kind {
    Node,
    Inventory,
    Refs(u8),
}

#[derive(Debug, Clone, Serialize, Deserialize, Hash)]
pub enum GossipOp {
    /// announced(node, announcement of `kind` with timestamp GTS[t] and payload variant)
    Announced { node: u8, kind: Kind, t: u8, variant: u8 },
    /// set_relay(id of the slot-th id ever returned (or an unknown id), status)
    SetRelay { slot: u8, status: u8 },
    /// relays(now)
    Relays { now: u8 },
    /// prune(cutoff)
    Prune { cutoff: u8 },
}

#[derive(Debug, Clone, Serialize, Deserialize, Hash)]
pub struct GossipCase {
    ops: Vec<GossipOp>,
}

const GTS: [u64; 4] = [1, 1000, 2000, 3000];
const VARIANTS: usize = 3;

type GKey = (usize, Kind); // node, kind (Refs carries the repo index, normalised)

fn norm_kind(k: Kind) -> Kind {
    match k {
        Kind::Refs(r) => Kind::Refs(r % N as u8),
        k => k,
    }
}

fn make_announcement(w: &World, node: usize, kind: Kind, t: u64, variant: usize) -> Announcement {
    let timestamp = timestamp(t);
    let msg = match kind {
        Kind::Node => AnnouncementMessage::Node(NodeAnnouncement {
            version: PROTOCOL_VERSION,
            features: Features::SEED,
            timestamp,
            alias: Alias::new(format!("node{variant}")),
            addresses: BoundedVec::new(),
            nonce: variant as u64,
            agent: UserAgent::default(),
        }),
        Kind::Inventory => AnnouncementMessage::Inventory(InventoryAnnouncement {
            inventory: BoundedVec::truncate(w.repos[..variant].to_vec()),
            timestamp,
        }),
        Kind::Refs(r) => AnnouncementMessage::Refs(RefsAnnouncement {
            rid: w.repos[r as usize % N],
            refs: BoundedVec::truncate((0..variant).map(|j| RefsAt { remote: w.nodes[j], at: w.oids[j] }).collect()),
            timestamp,
        }),
    };
    msg.signed(&w.devices[node])
}

/// All announcements the generator can name, built (and signed) once.
fn announcements() -> &'static BTreeMap<(usize, Kind, usize, usize), Announcement> {
    static A: OnceLock<BTreeMap<(usize, Kind, usize, usize), Announcement>> = OnceLock::new();
    A.get_or_init(|| {
        let w = world();
        let mut out = BTreeMap::new();
        let kinds = [Kind::Node, Kind::Inventory, Kind::Refs(0), Kind::Refs(1), Kind::Refs(2)];
        for n in 0..N {
            for k in kinds {
                for (ti, t) in GTS.iter().enumerate() {
                    for v in 0..VARIANTS {
                        out.insert((n, k, ti, v), make_announcement(w, n, k, *t, v));
                    }
                }
            }
        }
        out
    })
}

#[derive(Clone)]
struct GEntry {
    ann: Announcement,
    id: u64,
    /// None = unspecified (after a replacement, until set_relay is called)
    relay: Option<RelayStatus>,
}

fn check_gossip(ctx: &Ctx, c: &GossipCase) -> CaseResult {
    let w = world();
    let anns = announcements();
    // Nb. the announcements table has no foreign key.
    let mut db = store_err("db:memory", Database::memory())?;
    let mut m: BTreeMap<GKey, GEntry> = BTreeMap::new();
    let mut ids: Vec<u64> = vec![];
    let mut nontrivial = false;
    let filters = [Filter::default(), Filter::new([w.repos[0]]), Filter::new([w.repos[1], w.repos[2]])];
    let ranges: [(u64, u64); 5] = [(0, u64::MAX >> 1), (1, 1), (1, 1000), (1000, 2001), (2000, 3000)];

    for (step, op) in c.ops.iter().enumerate() {
        match op {
            GossipOp::Announced { node, kind, t, variant } => {
                let n = *node as usize % N;
                let k = norm_kind(*kind);
                let ti = *t as usize % GTS.len();
                let v = *variant as usize % VARIANTS;
                let ann = &anns[&(n, k, ti, v)];
                let t = GTS[ti];
                let old = m.get(&(n, k)).cloned();
                let got = store_err("gossip:announced", GossipStore::announced(&mut db, &ann.node, ann))?;
                match &old {
                    None => {
                        ctx.count("gossip:announced-new");
                        let Some(id) = got else {
                            return fail("gossip:announced:new-not-stored", format!("step {step}: first announcement of {n}/{k:?} returned None"));
                        };
                        ensure!(
                            !m.values().any(|e| e.id == id),
                            "gossip:announced:id-collision",
                            "step {step}: new announcement got id {id} which belongs to a stored announcement"
                        );
                        ids.push(id);
                        m.insert((n, k), GEntry { ann: ann.clone(), id, relay: Some(RelayStatus::DontRelay) });
                    }
                    Some(e) if *e.ann.timestamp() < t => {
                        ctx.count("gossip:announced-newer");
                        let Some(id) = got else {
                            return fail("gossip:announced:newer-not-stored", format!("step {step}: strictly newer announcement of {n}/{k:?} returned None"));
                        };
                        ensure!(
                            !m.iter().any(|(key, e)| e.id == id && *key != (n, k)),
                            "gossip:announced:id-collision",
                            "step {step}: replacement got id {id} which belongs to another stored announcement"
                        );
                        ids.push(id);
                        m.insert((n, k), GEntry { ann: ann.clone(), id, relay: None });
                    }
                    Some(e) => {
                        nontrivial = true;
                        let same = e.ann == *ann;
                        ctx.count(match (*e.ann.timestamp() == t, same) {
                            (true, true) => "gossip:announced-same-again",
                            (true, false) => "gossip:announced-equal-timestamp-different-payload",
                            (false, _) => "gossip:announced-older",
                        });
                        ensure!(
                            got.is_none(),
                            "gossip:announced:not-newer-accepted",
                            "step {step}: announcement of {n}/{k:?} at {t} accepted over stored {}",
                            e.ann.timestamp()
                        );
                    }
                }
            }
            GossipOp::SetRelay { slot, status } => {
                let id = if ids.is_empty() || *slot == 255 { 9_999 } else { ids[pick((*slot as u16) << 8, ids.len())] };
                let st = match status % 3 {
                    0 => RelayStatus::Relay,
                    1 => RelayStatus::DontRelay,
                    _ => RelayStatus::RelayedAt(timestamp(GTS[(*status as usize / 3) % GTS.len()])),
                };
                let live = m.values_mut().find(|e| e.id == id);
                ctx.count(if live.is_some() { "gossip:set_relay-live-id" } else { "gossip:set_relay-dead-id" });
                if let Some(e) = live {
                    e.relay = Some(st);
                }
                store_err("gossip:set_relay", GossipStore::set_relay(&mut db, id, st))?;
            }
            GossipOp::Relays { now } => {
                let now = timestamp(GTS[*now as usize % GTS.len()]);
                let got = store_err("gossip:relays", GossipStore::relays(&mut db, now))?;
                ctx.count(if got.is_empty() { "gossip:relays-empty" } else { "gossip:relays-nonempty" });
                let mut last = None;
                let mut got_ids = BTreeSet::new();
                for (id, ann) in &got {
                    ensure!(last < Some(*id), "gossip:relays:order", "step {step}: relays() ids not strictly increasing: {:?}", got.iter().map(|(i, _)| *i).collect::<Vec<_>>());
                    last = Some(*id);
                    got_ids.insert(*id);
                    let Some(e) = m.values_mut().find(|e| e.id == *id) else {
                        return fail("gossip:relays:unknown-id", format!("step {step}: relays() returned id {id} which is not stored"));
                    };
                    ensure!(&e.ann == ann, "gossip:relays:announcement", "step {step}: relays() id {id} = {ann:?}, stored {:?}", e.ann);
                    ensure!(
                        matches!(e.relay, Some(RelayStatus::Relay) | None),
                        "gossip:relays:not-marked-for-relay",
                        "step {step}: relays() returned id {id} whose relay status is {:?}",
                        e.relay
                    );
                    e.relay = Some(RelayStatus::RelayedAt(now));
                }
                for e in m.values() {
                    ensure!(
                        e.relay != Some(RelayStatus::Relay),
                        "gossip:relays:missing",
                        "step {step}: id {} is marked for relay but was not returned",
                        e.id
                    );
                }
            }
            GossipOp::Prune { cutoff } => {
                let cut = CUTS[*cutoff as usize % CUTS.len()];
                let before = m.len();
                m.retain(|_, e| *e.ann.timestamp() >= cut);
                let exp = before - m.len();
                ctx.count(if exp > 0 { "gossip:prune-removes" } else { "gossip:prune-noop" });
                let got = store_err("gossip:prune", GossipStore::prune(&mut db, timestamp(cut)))?;
                ensure!(got == exp, "gossip:prune:return", "step {step}: prune(<{cut}) = {got}, model {exp}");
            }
        }
        // --- query surface
        let last = store_err("gossip:last", GossipStore::last(&db))?;
        let exp_last = m.values().map(|e| e.ann.timestamp()).max();
        ensure!(last == exp_last, "gossip:last", "step {step}: last() = {last:?}, model {exp_last:?}");
        for (fi, filter) in filters.iter().enumerate() {
            for (from, to) in ranges {
                let got: Vec<Announcement> = {
                    let it = store_err("gossip:filtered", GossipStore::filtered(&db, filter, timestamp(from), timestamp(to)))?;
                    let mut v = vec![];
                    for a in it {
                        v.push(store_err("gossip:filtered", a)?);
                    }
                    v
                };
                let exp: Vec<&Announcement> = m
                    .iter()
                    .filter(|((_, k), e)| {
                        let t = *e.ann.timestamp();
                        t >= from
                            && t < to
                            && match k {
                                Kind::Refs(r) => filter.contains(&w.repos[*r as usize]),
                                _ => true,
                            }
                    })
                    .map(|(_, e)| &e.ann)
                    .collect();
                let ok = got.len() == exp.len() && exp.iter().all(|a| got.iter().filter(|g| g == a).count() == 1);
                ensure!(
                    ok,
                    "gossip:filtered",
                    "step {step}: filtered(filter {fi}, {from}..{to}) returned {} announcements {:?}, model {} {:?}",
                    got.len(),
                    got.iter().map(|a| (a.node, a.timestamp())).collect::<Vec<_>>(),
                    exp.len(),
                    exp.iter().map(|a| (a.node, a.timestamp())).collect::<Vec<_>>()
                );
            }
        }
    }
    if nontrivial {
        ctx.nontrivial(c);
        ctx.sample("gossip", c);
    }
    Ok(())
}

// ---------------------------------------------------------------------------
// Generators
// ---------------------------------------------------------------------------

fn idx() -> impl Strategy<Value = u8> {
    0u8..N as u8
}

fn tsi() -> impl Strategy<Value = u8> {
    0u8..TS.len() as u8
}

fn routing_case(max: usize) -> impl Strategy<Value = RoutingCase> {
    let op = prop_oneof![
        6 => (prop::collection::vec(idx(), 0..4), idx(), tsi()).prop_map(|(repos, node, t)| RoutingOp::Add { repos, node, t }),
        2 => (idx(), idx()).prop_map(|(repo, node)| RoutingOp::Remove { repo, node }),
        1 => (prop::collection::vec(idx(), 0..4), idx()).prop_map(|(repos, node)| RoutingOp::RemoveMany { repos, node }),
        3 => (0u8..CUTS.len() as u8, prop::option::weighted(0.6, 0u8..5), prop_oneof![3 => Just(0u8), 1 => idx()])
            .prop_map(|(oldest, limit, ignore)| RoutingOp::Prune { oldest, limit, ignore }),
    ];
    prop::collection::vec(op, 0..max).prop_map(|ops| RoutingCase { ops })
}

fn seed_case(max: usize) -> impl Strategy<Value = SeedCase> {
    let op = prop_oneof![
        12 => (idx(), idx(), idx(), tsi()).prop_map(|(repo, node, oid, t)| SeedOp::Synced { repo, node, oid, t }),
        1 => idx().prop_map(|node| SeedOp::ForgetNode { node }),
    ];
    prop::collection::vec(op, 0..max).prop_map(|ops| SeedCase { ops })
}

fn refs_case(max: usize) -> impl Strategy<Value = RefsCase> {
    let op = prop_oneof![
        6 => (idx(), idx(), 0u8..2, idx(), tsi()).prop_map(|(repo, ns, name, oid, t)| RefsOp::Set { repo, ns, name, oid, t }),
        1 => (idx(), idx(), 0u8..2).prop_map(|(repo, ns, name)| RefsOp::Delete { repo, ns, name }),
    ];
    prop::collection::vec(op, 0..max).prop_map(|ops| RefsCase { ops })
}

fn policy_case(max: usize) -> impl Strategy<Value = PolicyCase> {
    let op = prop_oneof![
        4 => (idx(), prop::option::weighted(0.7, idx())).prop_map(|(node, alias)| PolicyOp::Follow { node, alias }),
        3 => (idx(), prop::bool::weighted(0.7)).prop_map(|(node, block)| PolicyOp::SetFollowPolicy { node, block }),
        1 => idx().prop_map(|node| PolicyOp::Unfollow { node }),
        1 => idx().prop_map(|node| PolicyOp::UnblockNid { node }),
        4 => (idx(), any::<bool>()).prop_map(|(repo, all)| PolicyOp::Seed { repo, all }),
        3 => (idx(), prop::bool::weighted(0.7)).prop_map(|(repo, block)| PolicyOp::SetSeedPolicy { repo, block }),
        1 => idx().prop_map(|repo| PolicyOp::Unseed { repo }),
        1 => idx().prop_map(|repo| PolicyOp::UnblockRid { repo }),
    ];
    prop::collection::vec(op, 0..max).prop_map(|ops| PolicyCase { ops })
}

fn gossip_case(max: usize) -> impl Strategy<Value = GossipCase> {
    let kind = prop_oneof![Just(Kind::Node), Just(Kind::Inventory), idx().prop_map(Kind::Refs)];
    let op = prop_oneof![
        8 => (idx(), kind, 0u8..GTS.len() as u8, 0u8..VARIANTS as u8)
            .prop_map(|(node, kind, t, variant)| GossipOp::Announced { node, kind, t, variant }),
        3 => (any::<u8>(), 0u8..12).prop_map(|(slot, status)| GossipOp::SetRelay { slot, status }),
        2 => (0u8..GTS.len() as u8).prop_map(|now| GossipOp::Relays { now }),
        1 => (0u8..CUTS.len() as u8).prop_map(|cutoff| GossipOp::Prune { cutoff }),
    ];
    prop::collection::vec(op, 0..max).prop_map(|ops| GossipCase { ops })
}

fn run(ctx: &Ctx) {
    let t0 = std::time::Instant::now();
    let lap = |what: &str| {
        if std::env::var("VERIF_TIMING").is_ok() {
            eprintln!("C24 shard {}: {what} done at {:.1}s", ctx.shard, t0.elapsed().as_secs_f64());
        }
    };
    ctx.run("routing", routing_case(40), ctx.cases(2_000, 50_000), |c: &RoutingCase| check_routing(ctx, c));
    lap("routing");
    ctx.run("seed-sync-status", seed_case(40), ctx.cases(4_000, 100_000), |c: &SeedCase| check_seed(ctx, c));
    lap("seed-sync-status");
    ctx.run("refs-cache", refs_case(40), ctx.cases(4_000, 100_000), |c: &RefsCase| check_refs(ctx, c));
    lap("refs-cache");
    ctx.run("policy", policy_case(40), ctx.cases(4_000, 100_000), |c: &PolicyCase| check_policy(ctx, c));
    lap("policy");
    ctx.run("gossip", gossip_case(40), ctx.cases(4_000, 100_000), |c: &GossipCase| check_gossip(ctx, c));
    lap("gossip");
}
