//! C29 — Node-signed announcement timestamps strictly increase.
use std::collections::{BTreeMap, BTreeSet};

use proptest::prelude::*;
use radicle::identity::Visibility;
use radicle::storage::{ReadRepository, RefUpdate};
use radicle_node::prelude::*;
use radicle_node::service::io::Io;
use radicle_node::service::message::*;
use radicle_node::service::policy::{Scope, SeedingPolicy};
use radicle_node::service::Command;
use radicle_node::worker::fetch;
use radicle_node::Link;
use serde::{Deserialize, Serialize};

use crate::core::*;
use crate::ensure;
use crate::lab::service::*;

pub const PROP: Prop = Prop {
    id: "C29",
    shards: (16, 16),
    level: "exploration",
    rule: "Event sequences (<= 40) against a real Service: clock ticks forward / equal / backward interleaved with \
           AnnounceRefs, AddInventory, AnnounceInventory, Seed/Unseed, successful fetch results (clone and pull) and \
           connections. After every event the announcements authored by the node that were not observable before \
           (outbox writes and gossip store) are the ones signed during that event: each must carry a timestamp greater \
           than every node-authored timestamp observed earlier, and they must be pairwise distinct. Non-trivial: a \
           sequence that produced >= 2 new announcements while the clock was stalled or had been moved backwards. \
           Distinct = hash of the event list.",
    assumptions: &[
        "signing order is observed through first visibility (outbox or gossip store) after each event; \
         announcements signed inside one event are only required to be pairwise distinct and newer than all earlier ones",
        "restarts are a new run and are excluded",
    ],
    run,
    budget_s: (900, 7200),
};

#[derive(Debug, Clone, Serialize, Deserialize, Hash)]
pub enum Ev {
    TickFwd { class: u8 },
    TickEqual,
    TickBack { class: u8 },
    AnnounceRefs { repo: u8 },
    AddInventory { repo: u8 },
    AnnounceInventory,
    Seed { repo: u8 },
    Unseed { repo: u8 },
    Fetched { repo: u8, peer: u8, clone: bool, updated: bool },
    Connect { peer: u8 },
    Disconnect { peer: u8 },
}

#[derive(Debug, Clone, Serialize, Deserialize, Hash)]
pub struct Case {
    seed: u8,
    events: Vec<Ev>,
}

const FWD: [u64; 5] = [1, 5, 1_000, 60_000, 3_700_000];
const BACK: [u64; 4] = [1, 1_000, 3_600_000, 86_400_000];

fn ev_strategy() -> impl Strategy<Value = Ev> {
    prop_oneof![
        3 => (0u8..FWD.len() as u8).prop_map(|class| Ev::TickFwd { class }),
        2 => Just(Ev::TickEqual),
        4 => (0u8..BACK.len() as u8).prop_map(|class| Ev::TickBack { class }),
        6 => (0u8..3).prop_map(|repo| Ev::AnnounceRefs { repo }),
        3 => (0u8..4).prop_map(|repo| Ev::AddInventory { repo }),
        1 => Just(Ev::AnnounceInventory),
        2 => (0u8..4).prop_map(|repo| Ev::Seed { repo }),
        3 => (0u8..4).prop_map(|repo| Ev::Unseed { repo }),
        4 => (0u8..3, 0u8..2, any::<bool>(), any::<bool>()).prop_map(|(repo, peer, clone, updated)| Ev::Fetched { repo, peer, clone, updated }),
        2 => (0u8..2).prop_map(|peer| Ev::Connect { peer }),
        1 => (0u8..2).prop_map(|peer| Ev::Disconnect { peer }),
    ]
}

fn own_announcements(lab: &Lab, ios: &[Io]) -> Vec<Announcement> {
    let n = lab.nid();
    let mut v: Vec<Announcement> = lab.gossip_dump().into_iter().filter(|a| a.node == n).collect();
    for io in ios {
        if let Io::Write(_, msgs) = io {
            for m in msgs {
                if let Message::Announcement(a) = m {
                    if a.node == n {
                        v.push(a.clone());
                    }
                }
            }
        }
    }
    v
}

fn check(ctx: &Ctx, c: &Case) -> CaseResult {
    let ids: Vec<NodeId> = (0..3u8).map(|i| Remote::new(i, false).id).collect();
    let repos: Vec<_> = (0..3u8).map(|i| mock_repo(i, &[ids[0]], Visibility::Public)).collect();
    let rids: Vec<RepoId> = repos.iter().map(|r| r.0).collect();
    let absent = mock_repo(9, &[ids[1]], Visibility::Public).0;
    let mut lab: Lab = Lab::new(LabConfig {
        seed: c.seed as u64,
        remotes: 3,
        routable_remotes: false,
        repos,
        policy: SeedingPolicy::Allow { scope: Scope::All },
        tweak: Box::new(|_| {}),
        import_addresses: vec![0, 1],
    });
    let n = lab.nid();
    let mut counter = 0u8;
    for rid in &rids {
        counter += 1;
        lab.set_own_refs(*rid, counter);
    }
    // baseline: connect peer 0 so that the cached node + inventory announcements are visible
    lab.connect_inbound(0);
    lab.deliver(0, Message::Subscribe(Subscribe::all()));
    let ios = lab.drain();
    let mut seen: BTreeSet<Vec<u8>> = BTreeSet::new();
    let mut max_ts: u64 = 0;
    for a in own_announcements(&lab, &ios) {
        max_ts = max_ts.max(*a.timestamp());
        seen.insert(ann_bytes(&a));
    }

    // true while the clock has not moved forward since the last new announcement (or was moved back)
    let mut stalled_or_back = false;
    let mut new_while_stalled = 0u32;
    let mut total_new = 0u32;

    for (step, ev) in c.events.iter().enumerate() {
        match ev {
            Ev::TickFwd { class } => {
                lab.elapse(FWD[*class as usize]);
                stalled_or_back = false;
            }
            Ev::TickEqual => {
                let now = lab.now();
                lab.tick_to(now);
            }
            Ev::TickBack { class } => {
                let now = lab.now();
                let back = LocalTime::from_millis((now.as_millis() as u64).saturating_sub(BACK[*class as usize]) as u128);
                lab.tick_to(back);
                stalled_or_back = true;
            }
            Ev::AnnounceRefs { repo } => {
                let rid = rids[*repo as usize];
                counter = counter.wrapping_add(1);
                lab.set_own_refs(rid, counter);
                let (tx, _rx) = crossbeam_channel::unbounded();
                lab.node.service.command(Command::AnnounceRefs(rid, tx));
            }
            Ev::AddInventory { repo } => {
                let rid = if *repo == 3 { absent } else { rids[*repo as usize] };
                let (tx, _rx) = crossbeam_channel::unbounded();
                lab.node.service.command(Command::AddInventory(rid, tx));
            }
            Ev::AnnounceInventory => lab.node.service.command(Command::AnnounceInventory),
            Ev::Seed { repo } => {
                let rid = if *repo == 3 { absent } else { rids[*repo as usize] };
                let (tx, _rx) = crossbeam_channel::unbounded();
                lab.node.service.command(Command::Seed(rid, Scope::All, tx));
            }
            Ev::Unseed { repo } => {
                let rid = if *repo == 3 { absent } else { rids[*repo as usize] };
                let (tx, _rx) = crossbeam_channel::unbounded();
                lab.node.service.command(Command::Unseed(rid, tx));
            }
            Ev::Fetched { repo, peer, clone, updated } => {
                let rid = rids[*repo as usize];
                let p = *peer as usize;
                if !lab.is_connected(p) {
                    lab.connect_inbound(p);
                }
                let remote = lab.remotes[p].id;
                let (tx, _rx) = crossbeam_channel::unbounded();
                lab.node.service.command(Command::Fetch(rid, remote, std::time::Duration::from_secs(3), tx));
                let ios = lab.drain();
                let started = ios.iter().any(|io| matches!(io, Io::Fetch { rid: r, remote: m, .. } if *r == rid && *m == remote));
                // put back the writes for observation below
                let mut carry = own_announcements_only(&ios, n);
                if started {
                    let repo_m = lab.node.storage().mock().repos.get(&rid).unwrap().clone();
                    let doc = repo_m.identity_doc().unwrap();
                    let updated_refs = if *updated {
                        vec![RefUpdate::Created {
                            name: radicle::git::RefString::try_from("refs/heads/master").unwrap(),
                            oid: oid_of(0xDD, counter),
                        }]
                    } else {
                        vec![]
                    };
                    let res = fetch::FetchResult {
                        updated: updated_refs,
                        namespaces: [n].into_iter().collect(),
                        clone: *clone,
                        doc,
                    };
                    lab.node.service.fetched(rid, remote, Ok(res));
                }
                // observe
                let mut ios2 = lab.drain();
                ios2.append(&mut carry);
                let before = total_new;
                observe(ctx, &lab, &ios2, step, ev, &mut seen, &mut max_ts, stalled_or_back, &mut new_while_stalled, &mut total_new)?;
                if total_new > before {
                    stalled_or_back = true;
                }
                continue;
            }
            Ev::Connect { peer } => {
                let p = *peer as usize;
                lab.connect_inbound(p);
                lab.deliver(p, Message::Subscribe(Subscribe::all()));
            }
            Ev::Disconnect { peer } => {
                let p = *peer as usize;
                if lab.session_link(p).is_some() {
                    lab.disconnect(p, Link::Inbound);
                }
            }
        }
        let ios = lab.drain();
        let before = total_new;
        observe(ctx, &lab, &ios, step, ev, &mut seen, &mut max_ts, stalled_or_back, &mut new_while_stalled, &mut total_new)?;
        if total_new > before {
            stalled_or_back = true;
        }
    }
    ctx.count_n("new-announcements", total_new as u64);
    if new_while_stalled >= 2 {
        ctx.count("case:>=2-new-announcements-with-stalled-or-backward-clock");
        ctx.nontrivial(&c.events);
        ctx.sample("sequences", c);
    }
    Ok(())
}

fn own_announcements_only(ios: &[Io], n: NodeId) -> Vec<Io> {
    let mut out = vec![];
    for io in ios {
        if let Io::Write(p, msgs) = io {
            let own: Vec<Message> =
                msgs.iter().filter(|m| matches!(m, Message::Announcement(a) if a.node == n)).cloned().collect();
            if !own.is_empty() {
                out.push(Io::Write(*p, own));
            }
        }
    }
    out
}

#[allow(clippy::too_many_arguments)]
fn observe(
    ctx: &Ctx,
    lab: &Lab,
    ios: &[Io],
    step: usize,
    ev: &Ev,
    seen: &mut BTreeSet<Vec<u8>>,
    max_ts: &mut u64,
    stalled: bool,
    new_while_stalled: &mut u32,
    total_new: &mut u32,
) -> CaseResult {
    let mut fresh: BTreeMap<Vec<u8>, Announcement> = BTreeMap::new();
    for a in own_announcements(lab, ios) {
        let b = ann_bytes(&a);
        if !seen.contains(&b) {
            fresh.insert(b, a);
        }
    }
    let mut ts_seen: BTreeMap<u64, String> = BTreeMap::new();
    let mut new_max = *max_ts;
    for (b, a) in &fresh {
        let t = *a.timestamp();
        let kind = match &a.message {
            AnnouncementMessage::Node(_) => "node",
            AnnouncementMessage::Inventory(_) => "inventory",
            AnnouncementMessage::Refs(_) => "refs",
        };
        ensure!(
            t > *max_ts,
            format!("timestamp-not-greater-than-earlier:{kind}"),
            "step {step} {ev:?}: new {kind} announcement has t={t}, but t={} was already signed earlier: {a:?}",
            *max_ts
        );
        if let Some(other) = ts_seen.insert(t, kind.to_string()) {
            return fail(
                format!("same-timestamp-within-event:{kind}+{other}"),
                format!("step {step} {ev:?}: two distinct announcements signed with t={t}"),
            );
        }
        new_max = new_max.max(t);
        seen.insert(b.clone());
        *total_new += 1;
        if stalled {
            *new_while_stalled += 1;
        }
        ctx.count(&format!("new:{kind}"));
    }
    *max_ts = new_max;
    Ok(())
}

fn run(ctx: &Ctx) {
    let strat = |max: usize| {
        (any::<u8>(), proptest::collection::vec(ev_strategy(), 1..max)).prop_map(|(seed, events)| Case { seed, events })
    };
    ctx.run("sequences", strat(40), ctx.cases(1_600, 40_000), |c: &Case| check(ctx, c));
    ctx.run("short-sequences", strat(10), ctx.cases(1_600, 40_000), |c: &Case| check(ctx, c));
}
