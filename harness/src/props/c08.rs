//! C08 — A patch is merged only by a threshold of agreeing delegates.
//!
//! Model-repo lab: a `Patch` is driven in memory through `Cob::{from_root, op}` with
//! single-action ops (merge / lifecycle / revision / revision.redact) against `ModelRepo`
//! (identity documents by oid, synthetic commit DAG, per-actor default-branch heads that
//! the history moves between ops).
use std::collections::BTreeSet;

use proptest::prelude::*;
use radicle::cob::patch::{self, Patch, RevisionId};
use radicle::cob::store::Cob;
use radicle::cob::{Manifest, Op, Timestamp, Version};
use serde::{Deserialize, Serialize};

use super::c07::norm_state;
use super::modelrepo::*;
use crate::core::*;
use crate::ensure;

pub const PROP: Prop = Prop {
    id: "C08",
    shards: (8, 16),
    level: "exploration",
    rule: "A case is (1..2 identity documents over 6 actor keys with thresholds, a commit DAG of 3..6 commits, \
           initial default-branch heads per actor, patch author, <= 20 steps). Steps: merge(actor, doc, \
           revision, commit), move an actor's head, new revision, revision redact, lifecycle. The harness keeps \
           the set of *effective* merges (actor is a delegate of the merge op's document, the commit was the \
           actor's head or a strict ancestor of it in the model DAG when the op was evaluated, the revision \
           existed unredacted, the op was accepted). Whenever an accepted op turns the state into \
           Merged{r,c}, the number of distinct actors with an effective merge of exactly (r,c) anywhere in the \
           history so far must be >= the threshold of the op's document (lenient historical count). A lifecycle \
           op applied in state Merged must leave the state unchanged; merges() never lists an actor twice. \
           Exhaustive sub-space: every sequence of length L (3 quick, 4 thorough) over {merge(d, r, c) : d < n \
           delegates, r in 2 revisions, c in {ancestor, head, unrelated}} + stranger merge + author lifecycle x3 \
           + redact, for n in 1..3 and every threshold. Non-trivial: the patch became Merged under a threshold \
           >= 2 after at least one disagreeing or ineffective merge, and a lifecycle op followed the merge. \
           Distinct = hash of the case.",
    assumptions: &[
        "an op refers to an identity document that exists; merge commits exist in the object database \
         (commits of the model DAG)",
        "ops rejected with Err are rolled back by the harness (C06's subject)",
        "one action per op, so that an effect can be attributed to the action (C06: multi-action ops are not atomic)",
        "the threshold that applies is that of the document the state-changing op refers to",
    ],
    run,
    budget_s: (900, 7200),
};

#[derive(Debug, Clone, Serialize, Deserialize, Hash)]
pub enum Step {
    Merge { actor: u8, doc: u8, rev: u16, commit: u8 },
    MoveHead { actor: u8, commit: Option<u8> },
    Revision { actor: u8, doc: u8 },
    Redact { actor: u8, doc: u8, rev: u16 },
    Lifecycle { actor: u8, doc: u8, state: u8 },
}

#[derive(Debug, Clone, Serialize, Deserialize, Hash)]
pub struct Case {
    pub docs: Vec<DocSpec>,
    pub dag: DagSpec,
    pub heads: Vec<Option<u8>>,
    pub author: u8,
    pub steps: Vec<Step>,
}

fn manifest() -> Manifest {
    Manifest::new((*patch::TYPENAME).clone(), Version::default())
}

/// Monotone choice among `len` existing items; a small top slot means "an id that never existed".
fn choose(t: u16, len: usize) -> Option<usize> {
    let k = pick(t, len * 8 + 1);
    if k == len * 8 {
        None
    } else {
        Some(k / 8)
    }
}

fn check(ctx: &Ctx, tag: &str, c: &Case) -> CaseResult {
    let count = |l: &str| ctx.count(&format!("{tag}/{l}"));
    let docs: Vec<DocSpec> = if c.docs.is_empty() {
        vec![DocSpec { delegates: 1, threshold: 1 }]
    } else {
        c.docs.iter().map(|d| d.normalised()).collect()
    };
    let mut dag = c.dag.clone();
    if dag.parents.is_empty() {
        dag.parents.push(0);
    }
    dag.parents.truncate(8);
    for (i, p) in dag.parents.iter_mut().enumerate() {
        *p &= ((1u16 << i) - 1) as u8;
    }
    let ncommits = dag.len();
    let cidx = |x: u8| (x as usize).min(ncommits - 1);
    let heads: Vec<Option<usize>> = c.heads.iter().map(|h| h.map(cidx)).collect();
    let repo = ModelRepo::new(&docs, dag.clone(), heads);
    let keys = repo.keys.clone();
    let author = (c.author as usize).min(ACTORS - 1);
    let doc_ix = |d: u8| (d as usize).min(docs.len() - 1);

    // ---- root
    let root_id = oid_of(TAG_OP, 0);
    let mut op = Op::new(
        root_id,
        nonempty::NonEmpty::new(patch::Action::Revision {
            description: "root".to_string(),
            base: commit_oid(0),
            oid: oid_of(0x77, 0),
            resolves: BTreeSet::new(),
        }),
        keys[author],
        Timestamp::from_secs(1_000),
        Some(ModelRepo::doc_oid(0)),
        manifest(),
    );
    op.actions.push(patch::Action::Edit { title: "patch".to_string(), target: patch::MergeTarget::Delegates });
    let mut obj = match guarded(|| Patch::from_root(op, &repo))? {
        Ok(p) => p,
        Err(e) => harness_trouble(&format!("plain patch root rejected: {e}")),
    };
    ensure!(!obj.is_merged(), "merged-at-creation", "a fresh patch is reported merged: {:?}", obj.state());

    let mut revs: Vec<RevisionId> = vec![RevisionId::from(root_id)];
    // (actor, revision, commit index)
    let mut effective: BTreeSet<(usize, RevisionId, usize)> = BTreeSet::new();
    let mut effective_pairs: BTreeSet<(RevisionId, usize)> = BTreeSet::new();
    let mut saw_ineffective = false;
    let mut merged_thr2 = false;
    let mut lifecycle_after_merge = false;
    let mut was_merged = false;

    for (i, step) in c.steps.iter().enumerate() {
        let n = i + 1;
        let missing = RevisionId::from(oid_of(TAG_MISSING, n as u32));
        let rev_of = |t: u16| choose(t, revs.len()).map(|i| revs[i]).unwrap_or(missing);
        let (actor, doc, action, merge_info) = match step {
            Step::MoveHead { actor, commit } => {
                let actor = (*actor as usize).min(ACTORS - 1);
                repo.set_head(actor, commit.map(cidx));
                count("step/move-head");
                continue;
            }
            Step::Merge { actor, doc, rev, commit } => {
                let actor = (*actor as usize).min(ACTORS - 1);
                let doc = doc_ix(*doc);
                let r = rev_of(*rev);
                let ci = cidx(*commit);
                // model evaluation of the merge, before the op is applied
                let is_del = docs[doc].is_delegate(actor);
                let on_branch = match repo.head(actor) {
                    Some(h) => ci == h || dag.is_strict_ancestor(ci, h),
                    None => false,
                };
                let rev_live = obj.revision(&r).is_some();
                let class = if !is_del {
                    "non-delegate"
                } else if !rev_live {
                    "revision-redacted-or-missing"
                } else if repo.head(actor).is_none() {
                    "no-default-branch"
                } else if !on_branch {
                    "commit-not-on-branch"
                } else {
                    "effective"
                };
                (
                    actor,
                    doc,
                    patch::Action::Merge { revision: r, commit: commit_oid(ci) },
                    Some((r, ci, class)),
                )
            }
            Step::Revision { actor, doc } => (
                (*actor as usize).min(ACTORS - 1),
                doc_ix(*doc),
                patch::Action::Revision {
                    description: format!("rev{n}"),
                    base: commit_oid(0),
                    oid: oid_of(0x77, n as u32),
                    resolves: BTreeSet::new(),
                },
                None,
            ),
            Step::Redact { actor, doc, rev } => (
                (*actor as usize).min(ACTORS - 1),
                doc_ix(*doc),
                patch::Action::RevisionRedact { revision: rev_of(*rev) },
                None,
            ),
            Step::Lifecycle { actor, doc, state } => {
                let state = match state % 3 {
                    0 => patch::Lifecycle::Open,
                    1 => patch::Lifecycle::Draft,
                    _ => patch::Lifecycle::Archived,
                };
                ((*actor as usize).min(ACTORS - 1), doc_ix(*doc), patch::Action::Lifecycle { state }, None)
            }
        };
        let op = Op::new(
            oid_of(TAG_OP, n as u32),
            nonempty::NonEmpty::new(action),
            keys[actor],
            Timestamp::from_secs(1_000 + n as u64),
            Some(ModelRepo::doc_oid(doc)),
            manifest(),
        );
        let before_state = obj.state().clone();
        let before_norm = norm_state(&before_state);
        let backup = obj.clone();
        let res = guarded(|| obj.op(op, std::iter::empty(), &repo))?;
        let after_state = obj.state().clone();
        let after_norm = norm_state(&after_state);

        // --- lifecycle on a merged patch (checked whether or not the op was accepted)
        if let Step::Lifecycle { .. } = step {
            if matches!(before_state, patch::State::Merged { .. }) {
                lifecycle_after_merge = true;
                count(if docs[doc].is_delegate(actor) {
                    "lifecycle-on-merged/by-delegate"
                } else if actor == author {
                    "lifecycle-on-merged/by-author"
                } else {
                    "lifecycle-on-merged/by-other"
                });
                ensure!(
                    after_norm == before_norm,
                    "lifecycle-moved-merged-patch",
                    "step {n}: lifecycle op by actor {actor} moved a merged patch: {before_norm} -> {after_norm}"
                );
            } else {
                count("step/lifecycle-on-unmerged");
            }
        }

        if res.is_err() {
            count(match step {
                Step::Merge { .. } => "rejected/merge",
                Step::Lifecycle { .. } => "rejected/lifecycle",
                Step::Redact { .. } => "rejected/redact",
                _ => "rejected/other",
            });
            if let Some((_, _, class)) = merge_info {
                count(&format!("merge/{class}/rejected"));
            }
            obj = backup;
            continue;
        }

        if let Some((r, ci, class)) = merge_info {
            count(&format!("merge/{class}/accepted"));
            if class == "effective" {
                effective.insert((actor, r, ci));
                effective_pairs.insert((r, ci));
            } else {
                saw_ineffective = true;
            }
        }
        if let Step::Revision { .. } = step {
            let id = RevisionId::from(oid_of(TAG_OP, n as u32));
            if obj.revision(&id).is_some() {
                revs.push(id);
            }
        }

        // --- merged only by a threshold of agreeing delegates
        if let patch::State::Merged { revision, commit } = &after_state {
            if after_norm != before_norm {
                let thr = docs[doc].threshold as usize;
                let voters: BTreeSet<usize> = effective
                    .iter()
                    .filter(|(_, r, ci)| r == revision && commit_oid(*ci) == *commit)
                    .map(|(a, _, _)| *a)
                    .collect();
                count(&format!("became-merged/threshold={thr}/voters={}", voters.len()));
                ensure!(
                    voters.len() >= thr,
                    "merged-below-threshold",
                    "step {n} ({step:?}): state became {after_norm} but only actors {voters:?} ever recorded an \
                     effective merge of that revision and commit; threshold of document {doc} is {thr} \
                     (delegates mask {:#b})",
                    docs[doc].delegates
                );
                if thr >= 2 && (saw_ineffective || effective_pairs.len() >= 2) {
                    merged_thr2 = true;
                }
                was_merged = true;
            }
        }
        if let patch::State::Open { conflicts } = &after_state {
            if !conflicts.is_empty() && after_norm != before_norm {
                count("became-open-with-conflicts");
            }
        }

        // --- at most one merge per actor
        let mut seen = BTreeSet::new();
        for (k, _) in obj.merges() {
            ensure!(seen.insert(*k), "merges-duplicate-actor", "merges() lists {k} twice");
        }
    }

    count(&format!("docs={}", docs.len()));
    count(&format!("threshold(doc0)={}", docs[0].threshold));
    if was_merged {
        count("history-reached-merged");
    }
    if merged_thr2 && lifecycle_after_merge {
        ctx.nontrivial(c);
        ctx.sample("history", c);
    }
    Ok(())
}

// ---------------------------------------------------------------------------
// Strategies
// ---------------------------------------------------------------------------

fn dag_strategy() -> impl Strategy<Value = DagSpec> {
    proptest::collection::vec((0u8..7, any::<u8>()), 3..=6).prop_map(|v| {
        let parents = v
            .into_iter()
            .enumerate()
            .map(|(i, (kind, mask))| {
                if i == 0 {
                    0
                } else {
                    match kind {
                        0..=3 => 1u8 << (i - 1),
                        4 => 0,
                        _ => mask & ((1u16 << i) - 1) as u8,
                    }
                }
            })
            .collect();
        DagSpec { parents }
    })
}

fn random_case() -> impl Strategy<Value = Case> {
    // delegates are mostly among actors 0..3 (which also act most often), sometimes among 3..6
    let doc = (1u8..8, 0u8..8, 0u8..8, 0u8..8, 1u8..=4)
        .prop_map(|(a, b, h1, h2, t)| DocSpec { delegates: a | b | (h1 & h2) << 3, threshold: t }.normalised());
    let docs = prop_oneof![3 => proptest::collection::vec(doc.clone(), 1..=1), 1 => proptest::collection::vec(doc, 2..=2)];
    let head = prop_oneof![1 => Just(None), 6 => (0u8..6).prop_map(Some)];
    let actor = prop_oneof![3 => 0u8..3, 2 => 0u8..ACTORS as u8];
    let commit = prop_oneof![3 => Just(1u8), 3 => 0u8..6];
    let rev = prop_oneof![2 => Just(0u16), 1 => any::<u16>()];
    let step = prop_oneof![
        8 => (actor.clone(), 0u8..2, rev.clone(), commit.clone())
            .prop_map(|(actor, doc, rev, commit)| vec![Step::Merge { actor, doc, rev, commit }]),
        // a burst of merges of one (revision, commit) pair by several actors
        3 => (proptest::collection::vec(actor.clone(), 2..=4), 0u8..2, rev, commit).prop_map(|(actors, doc, rev, commit)| {
            actors.into_iter().map(|actor| Step::Merge { actor, doc, rev, commit }).collect::<Vec<Step>>()
        }),
        2 => (actor.clone(), head.clone()).prop_map(|(actor, commit)| vec![Step::MoveHead { actor, commit }]),
        2 => (actor.clone(), 0u8..2).prop_map(|(actor, doc)| vec![Step::Revision { actor, doc }]),
        2 => (actor.clone(), 0u8..2, any::<u16>()).prop_map(|(actor, doc, rev)| vec![Step::Redact { actor, doc, rev }]),
        4 => (actor.clone(), 0u8..2, 0u8..3).prop_map(|(actor, doc, state)| vec![Step::Lifecycle { actor, doc, state }]),
    ];
    (
        docs,
        dag_strategy(),
        proptest::collection::vec(head, ACTORS..=ACTORS),
        0u8..ACTORS as u8,
        proptest::collection::vec(step, 0..=16).prop_map(|v| v.into_iter().flatten().collect::<Vec<Step>>()),
    )
        .prop_map(|(docs, dag, heads, author, steps)| Case { docs, dag, heads, author, steps })
}

/// `t` such that `choose(t, len) == Some(i)`.
fn t_for(i: usize, len: usize) -> u16 {
    (0..=u16::MAX).find(|t| choose(*t, len) == Some(i)).expect("index reachable")
}

/// Exhaustive space: `n` delegates (actors 0..n), threshold `thr`, stranger = actor 5, patch author =
/// actor 4 (neither is a delegate); commits 0 <- 1, 2 unrelated, every head at 1; a second revision
/// is created first; then every sequence of length `len` over the alphabet.
fn exhaustive(len: usize) -> impl Iterator<Item = Case> {
    let r0 = t_for(0, 2);
    let r1 = t_for(1, 2);
    (1usize..=3).flat_map(move |n| {
        (1usize..=n).flat_map(move |thr| {
            let mut alphabet: Vec<Step> = vec![];
            for d in 0..n as u8 {
                for rev in [r0, r1] {
                    for commit in 0..3u8 {
                        alphabet.push(Step::Merge { actor: d, doc: 0, rev, commit });
                    }
                }
            }
            alphabet.push(Step::Merge { actor: 5, doc: 0, rev: r0, commit: 1 });
            for state in 0..3u8 {
                alphabet.push(Step::Lifecycle { actor: 4, doc: 0, state });
            }
            alphabet.push(Step::Redact { actor: 4, doc: 0, rev: r1 });
            let k = alphabet.len();
            let total = k.pow(len as u32);
            (0..total).map(move |mut x| {
                let mut steps = vec![Step::Revision { actor: 4, doc: 0 }];
                for _ in 0..len {
                    steps.push(alphabet[x % k].clone());
                    x /= k;
                }
                Case {
                    docs: vec![DocSpec { delegates: (1u8 << n) - 1, threshold: thr as u8 }],
                    dag: DagSpec { parents: vec![0, 1, 0] },
                    heads: vec![Some(1); ACTORS],
                    author: 4,
                    steps,
                }
            })
        })
    })
}

fn run(ctx: &Ctx) {
    let x = |c: &Case| check(ctx, "exh", c);
    ctx.enumerate("exhaustive-len3", exhaustive(3), true, x);
    if !ctx.quick() {
        ctx.enumerate("exhaustive-len4", exhaustive(4), true, x);
    }
    ctx.run("random-history", random_case(), ctx.cases(40_000, 2_000_000), |c: &Case| check(ctx, "rnd", c));
}
